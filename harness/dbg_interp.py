"""debug aid: interpreter model vs implementation, first differing tick / node.
usage: python -m harness.dbg_interp <seed> <n>   |   python -m harness.dbg_interp --case '<json>'"""
import json
import random
import subprocess
import sys

from harness.common import COQ, BUILD
from harness import interp_driver as ID
from harness.interp_common import gen_interp_case, program_coq, ticks_coq, view_coq
from harness.common import lst


def check(cases):
    out = BUILD / "dbg"
    out.mkdir(parents=True, exist_ok=True)
    obs = [ID.run_case(c) for c in cases]
    for lo in range(0, len(cases), 40):
        chunk = list(zip(cases[lo:lo + 40], obs[lo:lo + 40]))
        lines = ["From Coq Require Import ZArith List Bool.", "From OP Require Import lib.Obs model.Interp model.InterpRun.",
                 "Import ListNotations.", "Open Scope Z_scope."]
        for k, (c, o) in enumerate(chunk):
            lines.append(f"Definition r{k} := InterpRun.out_eqb (InterpRun.run ({program_coq(o['table'])}, {ticks_coq(c['ticks'])})) "
                         f"{lst([view_coq(v) for v in o['views']])}.")
        lines.append("Eval vm_compute in [" + "; ".join(f"r{k}" for k in range(len(chunk))) + "].")
        p = out / "ibatch.v"
        p.write_text("\n".join(lines) + "\n")
        r = subprocess.run(["coqc", "-Q", str(COQ), "OP", str(p)], capture_output=True, text=True, timeout=1800)
        txt = r.stdout + r.stderr
        if "Error" in txt:
            print(txt[:3000])
            return
        vals = [v.strip() for v in txt.replace("\n", " ").split("=")[1].split(":")[0].strip(" []").split(";")]
        for k, v in enumerate(vals):
            if v.startswith("false"):
                return drill(chunk[k][0], chunk[k][1], lo + k)
    print("no difference in", len(cases), "cases")


def drill(c, o, idx):
    out = BUILD / "dbg"
    p = out / "idrill.v"
    p.write_text("\n".join([
        "From Coq Require Import ZArith List Bool.", "From OP Require Import lib.Obs model.Interp model.InterpRun.",
        "Import ListNotations.", "Open Scope Z_scope.",
        f"Definition mo := InterpRun.run ({program_coq(o['table'])}, {ticks_coq(c['ticks'])}).",
        f"Definition imp := {lst([view_coq(v) for v in o['views']])}.",
        "Definition firstbad := fix f (l : list (view * view)) (k : nat) := match l with [] => None | (a, b) :: r => if view_eqb a b then f r (Datatypes.S k) else Some (k, a, b) end.",
        "Definition brief (v : view) := (map (fun x => (started x, completed x, failed x, child_index x, children_complete x, (lock_acquired x, block_ended x, activated x, interrupt_registered x, run_count x))) (v_nodes v), v_ints v, v_block v, v_sched v, v_raised v, v_error v).",
        "Eval vm_compute in (length mo, length imp).",
        "Eval vm_compute in (match firstbad (combine mo imp) 0%nat with Some (k, a, b) => Some (k, brief a, brief b) | None => None end).",
    ]) + "\n")
    r = subprocess.run(["coqc", "-Q", str(COQ), "OP", str(p)], capture_output=True, text=True, timeout=600)
    print("CASE", idx)
    for k, ln in enumerate(c["lines"]):
        print(f"{k + 1:3d} {ln}")
    print(json.dumps(c))
    print((r.stdout + r.stderr)[:5000])


if sys.argv[1] == "--case":
    check([json.loads(sys.argv[2])])
else:
    rng = random.Random(int(sys.argv[1]))
    check([gen_interp_case(rng) for _ in range(int(sys.argv[2]))])
