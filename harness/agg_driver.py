"""Driver + generator shared by C28 and C30: the real Aggregator, handlers and repositories on in-memory SQLite."""
import math

from harness.common import z, lst, tup, opt
from harness import agg_env


def eng_id(e):
    return f"c_u{e}"


def run_impl(case):
    return agg_env.in_loop(_run_impl, case)


def _run_impl(case):
    import asyncio
    import openpectus.protocol.engine_messages as EM
    import openpectus.aggregator.models as Mdl
    import openpectus.aggregator.data.models as DMdl
    from openpectus.aggregator.data import database
    from openpectus import __version__
    from sqlalchemy import select
    interval, entries, ops = case
    agg_env.fresh_db()
    dispatcher, aggregator, handlers = agg_env.make_aggregator()
    loop = asyncio.get_event_loop()

    def call(coro):
        # we are inside the loop already (in_loop): drive the coroutine by hand, it never really suspends
        try:
            coro.send(None)
        except StopIteration as si:
            return si.value
        raise RuntimeError("handler suspended unexpectedly")

    def view():
        engines = []
        for k, ed in aggregator._engine_data_map.items():
            run = None
            if ed.has_run():
                run = [int(ed.run_data.run_id), int(ed.run_data.run_started.timestamp())]
            engines.append([int(k[3:]), run])
        with database.create_scope():
            s = database.scoped_session()
            rr = [[int(e[3:]), int(r)] for e, r in s.execute(
                select(DMdl.RecentRun.engine_id, DMdl.RecentRun.run_id).order_by(DMdl.RecentRun.id)).all()]
            pl = [[int(e[3:]), int(r)] for e, r in s.execute(
                select(DMdl.PlotLog.engine_id, DMdl.PlotLog.run_id).order_by(DMdl.PlotLog.id)).all()]
            q = (select(DMdl.PlotLog.engine_id, DMdl.PlotLog.run_id, DMdl.PlotLogEntry.name,
                        DMdl.PlotLogEntryValue.value_int, DMdl.PlotLogEntryValue.tick_time)
                 .join(DMdl.PlotLogEntry, DMdl.PlotLogEntryValue.plot_log_entry_id == DMdl.PlotLogEntry.id)
                 .join(DMdl.PlotLog, DMdl.PlotLogEntry.plot_log_id == DMdl.PlotLog.id)
                 .order_by(DMdl.PlotLogEntryValue.id))
            rows = [[int(e[3:]), int(r), int(n[1:]), v, int(t)] for e, r, n, v, t in s.execute(q).all()]
        return [engines, rr, pl, rows]

    out = []
    for o in ops:
        k = o[0]
        if k == "Register":
            e = o[1]
            known = eng_id(e) in aggregator._engine_data_map
            msg = EM.RegisterEngineMsg(computer_name="c", uod_name=f"u{e}", uod_author_name="a", uod_author_email="m",
                                       uod_filename="f", location="l", engine_version=__version__)
            call(handlers.handle_RegisterEngineMsg(msg))
            if not known and eng_id(e) in aggregator._engine_data_map:
                ed = aggregator._engine_data_map[eng_id(e)]
                ed.readings = [agg_env.reading(f"T{i}") for i in entries]         # what UodInfoMsg would deliver
                ed.data_log_interval_seconds = math.inf if interval is None else float(interval)
        elif k == "Disconnect":
            call(handlers.handle_EngineDisconnected(eng_id(o[1])))
        elif k == "RunStarted":
            m = EM.RunStartedMsg(run_id=str(o[2]), started_tick=float(o[3]))
            m.engine_id = eng_id(o[1])
            call(handlers.handle_RunStartedMsg(m))
        elif k == "RunStopped":
            m = EM.RunStoppedMsg(run_id=str(o[2]), runlog=Mdl.RunLog.empty(), method_state=Mdl.MethodState.empty(),
                                 archive=None, archive_filename=None)
            m.engine_id = eng_id(o[1])
            call(handlers.handle_RunStoppedMsg(m))
        elif k == "Tags":
            m = EM.TagsUpdatedMsg(tags=[agg_env.tag_value(f"T{n}", v, t) for n, v, t in o[3]],
                                  run_id=None if o[2] is None else str(o[2]))
            m.engine_id = eng_id(o[1])
            try:
                call(handlers.handle_TagsUpdatedMsg(m))
            except ValueError:
                pass      # max([]) in _persist_tag_values; state effects are compared
        elif k == "Restart":
            aggregator.shutdown()
            dispatcher, aggregator, handlers = agg_env.make_aggregator()
        elif k == "Crash":
            dispatcher, aggregator, handlers = agg_env.make_aggregator()
        out.append(view())
    return out


def gen_case(rng, crash_ok=True):
    interval = rng.choice([None, None, 0, 1, 2])
    ops = []
    next_run = 1
    cur = {}       # engine -> run id the ENGINE believes it is in
    t = 0
    v = 0
    n = rng.randint(2, 16)
    sent = []      # notifications already sent (for duplicates / resends)
    for _ in range(n):
        e = rng.choice([0, 0, 0, 1])
        r = rng.random()
        t += rng.choice([0, 1, 1, 2])
        if r < 0.16:
            ops.append(["Register", e])
        elif r < 0.26:
            ops.append(["Disconnect", e])
            if rng.random() < 0.7:
                ops.append(["Register", e])
        elif r < 0.40:
            if e not in cur or rng.random() < 0.3:
                cur[e] = next_run
                next_run += 1
            o = ["RunStarted", e, cur[e], t]
            ops.append(o)
            sent.append(o)
        elif r < 0.52:
            if e in cur:
                o = ["RunStopped", e, cur.pop(e)]
            else:
                o = ["RunStopped", e, rng.randint(1, max(1, next_run))]
            ops.append(o)
            sent.append(o)
        elif r < 0.62 and sent:
            ops.append(list(rng.choice(sent)))          # duplicated / resent / reordered notification
        elif r < 0.90:
            msg = []
            for name in rng.sample(range(3), rng.choice([1, 1, 2, 3])):
                v += 1
                msg.append([name, v, t])
            mr = cur.get(e)
            if rng.random() < 0.1:
                mr = rng.choice([None, 1, 2])
            ops.append(["Tags", e, mr, msg])
        elif r < 0.96 or not crash_ok:
            ops.append(["Restart"])
            if rng.random() < 0.8:
                ops.append(["Register", rng.choice([0, 0, 1])])
        else:
            ops.append(["Crash"])
            if rng.random() < 0.8:
                ops.append(["Register", rng.choice([0, 0, 1])])
    if ops[0][0] != "Register":
        ops.insert(0, ["Register", 0])
    return [interval, [0, 1], ops]


def case_to_coq(case):
    interval, entries, ops = case

    def op(o):
        k = o[0]
        if k in ("Register", "Disconnect"):
            return f"{k} {o[1]}%nat"
        if k == "RunStarted":
            return f"RunStarted {o[1]}%nat {z(o[2])} {z(o[3])}"
        if k == "RunStopped":
            return f"RunStopped {o[1]}%nat {z(o[2])}"
        if k == "Tags":
            return f"Tags {o[1]}%nat {opt(o[2])} " + lst([tup(f"{n}%nat", z(v), z(t)) for n, v, t in o[3]])
        return k
    return tup(opt(interval), lst([f"{e}%nat" for e in entries]), lst([op(o) for o in ops]))


def obs_to_coq(obs):
    def er(x):
        return tup(f"{x[0]}%nat", z(x[1]))

    def view(v):
        engines, rr, pl, rows = v
        return tup(lst([tup(f"{e}%nat", "None" if r is None else f"(Some ({z(r[0])}, {z(r[1])}))") for e, r in engines]),
                   lst([er(x) for x in rr]), lst([er(x) for x in pl]),
                   lst([tup(f"{e}%nat", z(r), tup(f"{n}%nat", z(val), z(t))) for e, r, n, val, t in rows]))
    return lst([view(v) for v in obs])
