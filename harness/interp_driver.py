"""Driver for the real PInterpreter (openpectus/lang/exec/pinterpreter.py), one interpreter tick at a time, with the
environment scripted: per tick which nodes still await their threshold, which conditions evaluate true / raise, which
pending command lines the command manager reports completed. The engine's own tick is NOT used: interp.tick is called
directly on an engine that provides the interpreter context (tags, schedule_execution, emitter, base units)."""
import logging

KINDS = {"ProgramNode": "KProgram", "MarkNode": "KMark", "BlockNode": "KBlock", "EndBlockNode": "KEndBlock",
         "EndBlocksNode": "KEndBlocks", "WatchNode": "KWatch", "AlarmNode": "KAlarm", "UodCommandNode": "KCmd",
         "EngineCommandNode": "KCmd", "NotifyNode": "KSimple", "SimulateNode": "KSimple", "SimulateOffNode": "KSimple",
         "BatchNode": "KMark", "InjectedNode": "KInjected"}


def node_table(prog):
    """pre-order list of nodes; index = model id"""
    out = []

    def walk(n, parent):
        k = len(out)
        out.append([n, parent])
        for c in (getattr(n, "children", None) or []):
            walk(c, k)
    walk(prog, None)
    return out


_MACRO_NAMES = {}


def macro_id(name):
    """macro names as numbers (stable within a process; only equality matters)"""
    return _MACRO_NAMES.setdefault(name, len(_MACRO_NAMES) + 1)


def describe(table):
    rows = []
    index = {id(n): k for k, (n, _) in enumerate(table)}
    for n, parent in table:
        cls = type(n).__name__
        if cls in ("BlankNode", "CommentNode"):
            kind = ("KBlank", bool(n.has_only_trailing_whitespace))
        elif cls == "InterpreterCommandNode":
            nm = n.instruction_name
            if nm == "Wait":
                kind = ("KWait", n.arguments)
            else:
                kind = ("KSimple",)
        elif cls == "MacroNode":
            kind = ("KMacro", macro_id(n.macro_name))
        elif cls == "CallMacroNode":
            kind = ("KCallMacro", macro_id(n.macro_name))
        elif cls == "ErrorInstructionNode":
            if n.instruction_name == "Noop":
                try:
                    cnt = int(n.arguments or "1")
                except Exception:
                    cnt = 1
                kind = ("KNoop", cnt)
            else:
                kind = ("KError",)
        else:
            kind = (KINDS[cls],)
        rows.append(dict(kind=kind, parent=parent, children=[index[id(c)] for c in (getattr(n, "children", None) or [])],
                         threshold=n.threshold is not None))
    return rows


class Run:
    def __init__(self, method_lines):
        logging.disable(logging.CRITICAL)
        from harness.engine_env import Env
        self.env = Env("\n".join(method_lines) + "\n")
        self.scheduled = []
        self.thr_wait = set()
        self.cond_true = set()
        self.cond_err = set()
        self.wire()
        self.t = 0.0
        self.n = 0

    def wire(self):
        """(re-)attach to the engine's current interpreter: node table, scripted thresholds and conditions"""
        e = self.env.engine
        self.interp = e.interpreter
        self.interp.tracking.enable()
        self.table = node_table(self.interp._program)
        self.index = {id(n): k for k, (n, _) in enumerate(self.table)}
        self.byid = {n.id: k for k, (n, _) in enumerate(self.table)}
        run = self

        def schedule_execution(name, arguments="", instance_id=None):
            run.scheduled.append(name)
        e.schedule_execution = schedule_execution
        interp = self.interp

        def awaiting(node):
            if node.completed:
                return False
            if node.threshold is not None and not node.forced:
                return run.index[id(node)] in run.thr_wait
            return False
        interp._is_awaiting_threshold = awaiting

        def evaluate(node):
            k = run.index[id(node)]
            if k in run.cond_err:
                raise ValueError("scripted condition error")
            return k in run.cond_true
        interp._evaluate_condition = evaluate

    def tick(self, op):
        interp = self.interp
        for k in op.get("complete", []):
            node = self.table[k][0]
            if node.started and not node.completed and type(node).__name__ in ("UodCommandNode", "EngineCommandNode"):
                interp.tracking.mark_completed(node)
        self.thr_wait = set(op.get("thr_wait", []))
        self.cond_true = set(op.get("cond_true", []))
        self.cond_err = set(op.get("cond_err", []))
        self.scheduled = []
        self.t += op.get("dt", 1) * 0.5
        self.n += 1
        raised = None
        try:
            interp.tick(self.t, self.n)
        except Exception as ex:
            raised = type(ex).__name__
        return self.view(raised)

    def view(self, raised):
        interp = self.interp
        nodes = []
        for n, _ in self.table:
            is_macro = type(n).__name__ == "MacroNode"
            # a Macro node shows is_registered / run_started_count in the slots it does not otherwise use
            nodes.append([bool(n.started), bool(n.completed), bool(n.failed), int(getattr(n, "child_index", 0)),
                          bool(getattr(n, "children_complete", False)), bool(getattr(n, "lock_acquired", False)),
                          bool(getattr(n, "block_ended", False)), bool(getattr(n, "activated", False)),
                          bool(n.is_registered) if is_macro else bool(getattr(n, "interrupt_registered", False)),
                          int(n.run_started_count) if is_macro else int(getattr(n, "run_count", 0))])
        e = self.env.engine
        block = e.tags["Block"].get_value()
        blk = None
        if block not in (None, ""):
            # block names are unique in generated methods; the named block may have been reset (an alarm re-armed around it)
            cands = [k for k, (n, _) in enumerate(self.table) if type(n).__name__ == "BlockNode" and n.name == block]
            blk = cands[0] if cands else -1
        le = interp._last_error
        return dict(nodes=nodes, interrupts=[self.byid.get(i.node.id, -1) for i in interp.interrupts], block=blk,
                    scheduled=len(self.scheduled), raised=raised is not None,
                    last_error=(None if le is None else (self.index.get(id(le[1]), -1) if le[1] is not None else -2)),
                    mark=e.tags["Mark"].get_value())

    def close(self):
        self.env.close()


def run_case(case):
    run = Run(case["lines"])
    try:
        return dict(table=describe(run.table), views=[run.tick(op) for op in case["ticks"]])
    finally:
        run.close()
