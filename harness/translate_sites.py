"""Fail-closed translator: call sites that stamp tag values, raw assignments to tag value fields, and the
lock discipline of Engine's request entry points -> coq/gen/Sites.v (C16, C36, C40)."""
import ast

from harness.common import REPO

STAMPING = {"set_value": 1, "simulate_value": 1, "set_value_and_unit": 2, "simulate_value_and_unit": 2}
CORE_METHODS = {"set_value", "simulate_value", "simulate_value_and_unit", "stop_simulation"}
FILES = ["openpectus/engine", "openpectus/lang/exec"]


def _py_files():
    out = []
    for d in FILES:
        for p in sorted((REPO / d).glob("*.py")):
            out.append(p)
    return out


def _classify_stamp(e: ast.expr) -> str:
    if isinstance(e, ast.Name) and e.id == "tick_time":
        return "TickTime"
    if isinstance(e, ast.Attribute) and e.attr in ("_tick_time", "tick_time"):
        # self._tick_time, e._tick_time, engine._tick_time; tag.tick_time is NOT the engine clock
        if e.attr == "_tick_time":
            return "TickTime"
        return "StaleStamp"
    if isinstance(e, ast.Attribute) and e.attr == "_tick_number":
        return "TickNumber"
    if isinstance(e, ast.Name) and e.id == "tick_number":
        return "TickNumber"
    if isinstance(e, ast.Call) and isinstance(e.func, ast.Attribute) and isinstance(e.func.value, ast.Name) \
            and e.func.value.id == "time" and e.func.attr in ("time", "monotonic"):
        return "WallClock"
    if isinstance(e, ast.Starred):
        return "PassThrough"
    return "Other"


class _Scope(ast.NodeVisitor):
    def __init__(self, fname):
        self.fname = fname
        self.stack = []
        self.stamp_sites = []
        self.raw_sites = []
        self.counter = {}

    def _where(self):
        return ".".join(self.stack) or "<module>"

    def visit_ClassDef(self, node):
        self.stack.append(node.name)
        self.generic_visit(node)
        self.stack.pop()

    def visit_FunctionDef(self, node):
        self.stack.append(node.name)
        self.generic_visit(node)
        self.stack.pop()

    visit_AsyncFunctionDef = visit_FunctionDef

    def visit_Call(self, node):
        f = node.func
        if isinstance(f, ast.Attribute) and f.attr in STAMPING:
            idx = STAMPING[f.attr]
            # super().set_value(val, *args, **kwargs) forwards the caller's stamp
            args = list(node.args)
            kind = None
            if any(isinstance(a, ast.Starred) for a in args):
                kind = "PassThrough"
            elif len(args) > idx:
                kind = _classify_stamp(args[idx])
            else:
                kw = [k for k in node.keywords if k.arg == "tick_time"]
                kind = _classify_stamp(kw[0].value) if kw else "Other"
            where = self._where()
            k = self.counter.get((where, f.attr), 0)
            self.counter[(where, f.attr)] = k + 1
            self.stamp_sites.append((f"{self.fname}:{where}:{f.attr}#{k}", kind))
        self.generic_visit(node)

    def _raw(self, target, node):
        if isinstance(target, ast.Attribute) and target.attr in ("value", "simulated_value", "simulated"):
            fn = self.stack[-1] if self.stack else ""
            cls = self.stack[0] if self.stack else ""
            if fn == "__init__":
                return
            if cls == "Tag" and fn in CORE_METHODS:
                return
            # only objects that are tags: `self` inside a Tag subclass, or a name containing 'tag'
            base = target.value
            is_tag = False
            if isinstance(base, ast.Name) and base.id == "self" and cls in self.tag_classes:
                is_tag = True
            if isinstance(base, ast.Name) and "tag" in base.id.lower():
                is_tag = True
            if is_tag:
                self.raw_sites.append(f"{self.fname}:{self._where()}:{target.attr}")

    def visit_Assign(self, node):
        for t in node.targets:
            self._raw(t, node)
        self.generic_visit(node)

    def visit_AugAssign(self, node):
        self._raw(node.target, node)
        self.generic_visit(node)


def _tag_classes(trees):
    """names of classes that (transitively) derive from Tag"""
    bases = {}
    for tree in trees.values():
        for n in ast.walk(tree):
            if isinstance(n, ast.ClassDef):
                bases[n.name] = [b.id if isinstance(b, ast.Name) else getattr(b, "attr", "") for b in n.bases]
    tags = {"Tag"}
    changed = True
    while changed:
        changed = False
        for c, bs in bases.items():
            if c not in tags and any(b in tags for b in bs):
                tags.add(c)
                changed = True
    return tags


def _lock_sites():
    """public request entry points of Engine and whether their whole body runs under self._lock"""
    src = (REPO / "openpectus/engine/engine.py").read_text()
    tree = ast.parse(src)
    eng = [n for n in tree.body if isinstance(n, ast.ClassDef) and n.name == "Engine"]
    if len(eng) != 1:
        raise ValueError("class Engine not found")
    entry = ["set_method", "inject_code", "execute_control_command_from_user", "cancel_instruction", "force_instruction"]
    # which of them do the message handlers call?
    hsrc = (REPO / "openpectus/engine/engine_message_handlers.py").read_text()
    called = set()
    for n in ast.walk(ast.parse(hsrc)):
        if isinstance(n, ast.Call) and isinstance(n.func, ast.Attribute) and isinstance(n.func.value, ast.Attribute) \
                and n.func.value.attr == "engine":
            called.add(n.func.attr)
    res = []
    fns = {n.name: n for n in eng[0].body if isinstance(n, ast.FunctionDef)}
    for name in sorted(called | set(entry)):
        if name not in fns:
            continue
        fn = fns[name]
        body = [st for st in fn.body if not (isinstance(st, ast.Expr) and isinstance(st.value, ast.Constant))]
        locked = len(body) == 1 and isinstance(body[0], ast.With) and any(
            isinstance(it.context_expr, ast.Attribute) and it.context_expr.attr == "_lock" for it in body[0].items)
        mutates = name in entry
        res.append((name, locked, mutates))
    for name in entry:
        if name not in fns:
            raise ValueError(f"Engine.{name} not found")
    # the tick body: which phases are inside `with self._lock`
    tick = fns.get("tick")
    if tick is None:
        raise ValueError("Engine.tick not found")
    withs = [st for st in tick.body if isinstance(st, ast.With) and any(
        isinstance(it.context_expr, ast.Attribute) and it.context_expr.attr == "_lock" for it in st.items)]
    if len(withs) != 1:
        raise ValueError("Engine.tick no longer has exactly one `with self._lock` block")
    inside = {n.func.attr for st in withs[0].body for n in ast.walk(st)
              if isinstance(n, ast.Call) and isinstance(n.func, ast.Attribute)}
    need = {"tick", "update_calculated_tags", "notify_tag_updates", "write_process_image"}
    tick_locked = need <= inside
    return res, tick_locked


def translate():
    trees = {}
    for p in _py_files():
        trees[str(p.relative_to(REPO / "openpectus"))] = ast.parse(p.read_text())
    tag_classes = _tag_classes(trees)
    stamp, raw = [], []
    for fname, tree in trees.items():
        v = _Scope(fname)
        v.tag_classes = tag_classes
        v.visit(tree)
        stamp += v.stamp_sites
        raw += v.raw_sites
    if not any(s[0].startswith("lang/exec/pinterpreter.py") for s in stamp):
        raise ValueError("no stamping call site found in pinterpreter.py: the scanner no longer understands the source")
    locks, tick_locked = _lock_sites()

    def q(s):
        return '"' + s.replace('"', "'") + '"'
    text = ("(* GENERATED by harness/translate_sites.py from openpectus/engine/*.py and openpectus/lang/exec/*.py -- do not edit *)\n"
            "From Coq Require Import String List Bool.\nImport ListNotations.\nLocal Open Scope string_scope.\n"
            "Inductive stamp_kind := TickTime | TickNumber | WallClock | StaleStamp | PassThrough | Other.\n"
            "(* every call of set_value / simulate_value / set_value_and_unit / simulate_value_and_unit, with the\n"
            "   expression passed as time stamp classified *)\n"
            "Definition stamp_sites : list (string * stamp_kind) := [\n  "
            + ";\n  ".join(f"({q(n)}, {k})" for n, k in stamp) + "].\n"
            "(* assignments to .value / .simulated_value / .simulated of a tag outside __init__ and outside Tag's\n"
            "   own notifying methods *)\n"
            "Definition raw_sites : list string := [" + "; ".join(q(r) for r in raw) + "].\n"
            "(* Engine request entry points: (name, whole body under self._lock, mutates engine state) *)\n"
            "Definition entry_points : list (string * bool * bool) := [\n  "
            + ";\n  ".join(f"({q(n)}, {'true' if l else 'false'}, {'true' if m else 'false'})" for n, l, m in locks) + "].\n"
            f"Definition tick_body_locked : bool := {'true' if tick_locked else 'false'}.\n")
    return {"gen/Sites.v": text}


if __name__ == "__main__":
    print(translate()["gen/Sites.v"])
