"""Regenerate section K of DESIGN.md (status at a glance) from the property modules, properties.jsonl and KNOWN_FINDINGS.json."""
import importlib
import json
import os
import re
import sys

HERE = os.path.dirname(os.path.dirname(os.path.abspath(__file__)))
sys.path.insert(0, HERE)
sys.path.insert(0, "/repo")


def strength(text):
    t = text.lstrip()
    if t.upper().startswith("PARTIAL"):
        return "partial"
    if t.upper().startswith("REFUTED"):
        return "refuted (known finding), model of the code validated"
    return "full"


def main():
    props = [json.loads(l) for l in open(os.path.join(HERE, "properties.jsonl"))]
    findings = json.load(open(os.path.join(HERE, "KNOWN_FINDINGS.json")))["findings"]
    rows = ["| id | property | strength of the theorem part | Coq theorems (Print Assumptions, all closed) | defects repaired (fix commits) | open known findings |",
            "|---|---|---|---|---|---|"]
    for d in props:
        pid = d["id"]
        p = importlib.import_module(f"harness.props.{pid.lower()}").PROP
        fixed = sorted({f.get("commit", "?") for f in findings if f["property"] == pid and f["status"] == "fixed"})
        nopen = sum(1 for f in findings if f["property"] == pid and f["status"] == "open")
        pf = os.path.join(HERE, "coq", "props", f"{pid}.v")
        nthm = len(re.findall(r"^Print Assumptions", open(pf).read(), re.M)) if os.path.exists(pf) else 0
        rows.append(f"| {pid} | {d['title'][:60]} | {strength(p.LEVEL_TEXT)} | {nthm} | {len(fixed)} ({', '.join(fixed)}) | {nopen} |")
    path = os.path.join(HERE, "DESIGN.md")
    s = open(path).read()
    head = "### K. Status at a glance (generated from the harness and KNOWN_FINDINGS.json)\n"
    i = s.index(head)
    j = s.index("\n### ", i + len(head))
    s = s[:i] + head + "\n`python -m harness.mkstatus` rewrites this table.\n\n" + "\n".join(rows) + "\n" + s[j:]
    open(path, "w").write(s)
    print(len(rows) - 2, "rows")


if __name__ == "__main__":
    main()
