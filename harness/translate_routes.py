"""Fail-closed translator: every FastAPI route of the aggregator that takes a unit or a run, with the access
guard it executes first -> coq/gen/Routes.v (C32)."""
import ast
import re

from harness.common import REPO

ROUTERS = ["process_unit", "recent_runs", "lsp"]
VERBS = {"get", "post", "put", "delete", "patch", "websocket"}
UNIT_PARAMS = {"unit_id", "engine_id"}
RUN_PARAMS = {"run_id"}


def _is_role_guard_def(fn: ast.FunctionDef) -> bool:
    """the function raises 404 when the object is missing and 403 when has_access(obj, user_roles) is false"""
    src = ast.unparse(fn)
    has403 = False
    for n in ast.walk(fn):
        if isinstance(n, ast.If) and isinstance(n.test, ast.UnaryOp) and isinstance(n.test.op, ast.Not) \
                and isinstance(n.test.operand, ast.Call) and getattr(n.test.operand.func, "id", "") == "has_access" \
                and len(n.test.operand.args) == 2 and getattr(n.test.operand.args[1], "id", "") == "user_roles":
            body = n.body
            if len(body) == 1 and isinstance(body[0], ast.Raise) and "HTTP_403_FORBIDDEN" in ast.unparse(body[0]):
                has403 = True
    return has403 and "HTTP_404_NOT_FOUND" in src and "user_roles" in [a.arg for a in fn.args.args]


def _harmless(st: ast.stmt) -> bool:
    """statements allowed before the guard: anything that neither touches the aggregator / database nor
    returns nor awaits (constructing a repository object is allowed, querying it is not)"""
    if isinstance(st, (ast.Return, ast.Raise)):
        return False
    if isinstance(st, (ast.FunctionDef, ast.Expr)) and not any(isinstance(n, ast.Await) for n in ast.walk(st)):
        if isinstance(st, ast.FunctionDef):
            return True
    s = ast.unparse(st)
    if re.fullmatch(r"\w+ = \w+Repository\(database\.scoped_session\(\)\)", s):
        return True
    for n in ast.walk(st):
        if isinstance(n, ast.Await):
            return False
        if isinstance(n, ast.Name) and (n.id in ("agg", "database") or n.id.endswith("repo")):
            return False
    return True


def _touches_data(fn) -> bool:
    for st in fn.body:
        for n in ast.walk(st):
            if isinstance(n, ast.Name) and (n.id in ("agg", "database") or n.id.endswith("repo") or n.id.endswith("_or_fail")):
                return True
    return False


def _routes_of(modname):
    path = REPO / "openpectus/aggregator/routers" / f"{modname}.py"
    tree = ast.parse(path.read_text())
    prefix = ""
    for n in tree.body:
        if isinstance(n, ast.Assign) and getattr(n.targets[0], "id", "") == "router" and isinstance(n.value, ast.Call):
            for k in n.value.keywords:
                if k.arg == "prefix":
                    prefix = k.value.value
    guards = {}
    for n in tree.body:
        if isinstance(n, ast.FunctionDef) and n.name.endswith("_or_fail"):
            guards[n.name] = _is_role_guard_def(n)
    out = []
    for n in tree.body:
        if not isinstance(n, (ast.FunctionDef, ast.AsyncFunctionDef)):
            continue
        for d in n.decorator_list:
            if isinstance(d, ast.Call) and isinstance(d.func, ast.Attribute) and getattr(d.func.value, "id", "") == "router" \
                    and d.func.attr in VERBS:
                if not d.args or not isinstance(d.args[0], ast.Constant):
                    raise ValueError(f"{modname}.{n.name}: route path is not a literal")
                route = prefix + d.args[0].value
                params = set(re.findall(r"\{(\w+)\}", route))
                takes_unit = bool(params & UNIT_PARAMS)
                takes_run = bool(params & RUN_PARAMS)
                argnames = [a.arg for a in n.args.args]
                kind = "NoObject"
                if (takes_unit or takes_run) and not _touches_data(n):
                    kind = "NoObject"       # takes an id but reads nothing of the unit or run (constant response)
                elif takes_unit or takes_run:
                    kind = "Unguarded"
                    for st in n.body:
                        calls = [c for c in ast.walk(st) if isinstance(c, ast.Call) and getattr(c.func, "id", "") in guards]
                        if calls:
                            c = calls[0]
                            passes_param = any(getattr(a, "id", "") in (params & (UNIT_PARAMS | RUN_PARAMS)) for a in c.args)
                            passes_roles = any(getattr(a, "id", "") == "user_roles" for a in c.args)
                            if guards[c.func.id] and passes_param and passes_roles and "user_roles" in argnames:
                                kind = "Guarded"
                            break
                        if not _harmless(st):
                            break
                elif d.func.attr == "websocket":
                    # a websocket that serves per-engine data by message content (the LSP server)
                    kind = "Unguarded" if "lsp" in modname else "NoObject"
                    takes_unit = "lsp" in modname
                else:
                    # listing: does it enumerate engines/runs? then every enumeration must be filtered by has_access
                    src = ast.unparse(n)
                    enumerates = any(s in src for s in ("get_all_registered_engine_data", "get_recent_engines", "repo.get_all()"))
                    if enumerates:
                        n_enum = sum(src.count(s) for s in ("get_all_registered_engine_data()", "get_recent_engines()", "repo.get_all()"))
                        n_filter = src.count("has_access(")
                        kind = "ListingFiltered" if n_filter >= n_enum and "user_roles" in argnames else "ListingUnfiltered"
                out.append((f"{modname}.{n.name}", d.func.attr.upper(), route, takes_unit, takes_run, kind))
    return out, guards


def translate():
    routes = []
    for m in ROUTERS:
        r, guards = _routes_of(m)
        routes += r
    if len([r for r in routes if r[5] == "Guarded"]) < 10:
        raise ValueError("fewer than 10 guarded routes recognised: the scanner no longer understands the routers")
    # has_access itself
    auth = ast.parse((REPO / "openpectus/aggregator/routers/auth.py").read_text())
    fn = [n for n in auth.body if isinstance(n, ast.FunctionDef) and n.name == "has_access"]
    if len(fn) != 1:
        raise ValueError("auth.has_access not found")
    body = ast.unparse(fn[0].body)
    expected = ("required_roles = set(engine_or_run.required_roles)\n"
                "return len(required_roles) == 0 or len(required_roles & user_roles) > 0")
    if body != expected:
        raise ValueError(f"auth.has_access changed; the model transcribes:\n{expected}\nfound:\n{body}")

    def q(s):
        return '"' + s.replace('"', "'") + '"'
    text = ("(* GENERATED by harness/translate_routes.py from openpectus/aggregator/routers/{process_unit,recent_runs,lsp,auth}.py -- do not edit *)\n"
            "From Coq Require Import String List Bool.\nImport ListNotations.\nLocal Open Scope string_scope.\n"
            "Inductive guard_kind := Guarded | ListingFiltered | ListingUnfiltered | Unguarded | NoObject.\n"
            "(* handler, verb, path, takes a unit, takes a run, what the handler does first *)\n"
            "Definition routes : list (string * string * string * bool * bool * guard_kind) := [\n  "
            + ";\n  ".join(f"({q(n)}, {q(v)}, {q(p)}, {'true' if u else 'false'}, {'true' if r else 'false'}, {k})"
                           for n, v, p, u, r, k in routes) + "].\n")
    return {"gen/Routes.v": text}


if __name__ == "__main__":
    print(translate()["gen/Routes.v"])
