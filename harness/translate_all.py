"""Run every property's translators (writes coq/gen/*.v)."""
import glob
import importlib
import os
import sys

HERE = os.path.dirname(os.path.dirname(os.path.abspath(__file__)))
sys.path.insert(0, HERE)
sys.path.insert(0, os.environ.get("VERIF_REPO", "/repo"))
from harness import common  # noqa: E402

rc = 0
done = set()
for path in sorted(glob.glob(os.path.join(HERE, "harness", "props", "c*.py"))):
    mod = importlib.import_module("harness.props." + os.path.basename(path)[:-3])
    for name, fn in mod.PROP.translators():
        if name in done:
            continue
        done.add(name)
        try:
            for rel, text in fn().items():
                common.write_if_changed(common.COQ / rel, text)
        except Exception as e:
            print(f"translator {name} failed: {e}")
            rc = 1
sys.exit(rc)
