"""In-process aggregator for the drivers: in-memory SQLite, mocked publishers."""
import asyncio
from unittest.mock import Mock, AsyncMock


def fresh_db():
    from openpectus.aggregator.data import database
    import openpectus.aggregator.data.models as DMdl
    database.configure_db("sqlite:///:memory:")
    DMdl.DBModel.metadata.create_all(database._engine)  # type: ignore
    return database


def publisher_mock():
    return Mock(
        publish_process_units_changed=AsyncMock(),
        publish_control_state_changed=AsyncMock(),
        publish_run_log_changed=AsyncMock(),
        publish_method_changed=AsyncMock(),
        publish_method_state_changed=AsyncMock(),
        publish_error_log_changed=AsyncMock(),
        publish_active_users_changed=AsyncMock(),
        publish_dead_man_switch_changed=AsyncMock(),
    )


def make_aggregator(secret=""):
    from openpectus.aggregator.aggregator import Aggregator
    from openpectus.aggregator.aggregator_message_handlers import AggregatorMessageHandlers
    from openpectus.protocol.aggregator_dispatcher import AggregatorDispatcher
    dispatcher = AggregatorDispatcher()
    webpush = Mock(publish_message=AsyncMock(), publish_test_message=AsyncMock())
    aggregator = Aggregator(dispatcher, publisher_mock(), webpush, secret=secret) \
        if "secret" in Aggregator.__init__.__code__.co_varnames else Aggregator(dispatcher, publisher_mock(), webpush)
    handlers = AggregatorMessageHandlers(aggregator)
    return dispatcher, aggregator, handlers


def channel_mock(engine_id):
    from fastapi_websocket_rpc.schemas import RpcResponse
    response = RpcResponse[str | None](result=engine_id, result_type=None)
    return Mock(close=AsyncMock(), other=Mock(get_engine_id_async=AsyncMock(return_value=response)))


_loop = None


def run(coro):
    """run a coroutine to completion (and let tasks it created finish) on one private loop"""
    global _loop
    if _loop is None:
        _loop = asyncio.new_event_loop()

    async def wrapper():
        r = await coro
        for _ in range(3):
            await asyncio.sleep(0)
        return r
    return _loop.run_until_complete(wrapper())


def engine_data(engine_id, **kw):
    import openpectus.aggregator.models as Mdl
    return Mdl.EngineData(engine_id=engine_id, computer_name="c", engine_version="1", uod_name="u",
                          uod_author_name="a", uod_author_email="e", uod_filename="f", location="l", **kw)


def reading(tag_name):
    import openpectus.protocol.models as PM
    return PM.ReadingInfo(discriminator="reading", tag_name=tag_name, valid_value_units=None,
                          entry_data_type=None, commands=[], command_options=None)


def tag_value(name, value, tick_time):
    import openpectus.protocol.models as PM
    return PM.TagValue(name=name, tick_time=float(tick_time), value=value, value_unit=None)


def plot_rows(session_scope=None):
    """all PlotLogEntryValue rows as (plot log run_id, tag name, value_int, tick_time), in insertion order"""
    from openpectus.aggregator.data import database
    import openpectus.aggregator.data.models as DMdl
    from sqlalchemy import select
    with database.create_scope():
        s = database.scoped_session()
        q = (select(DMdl.PlotLog.run_id, DMdl.PlotLogEntry.name, DMdl.PlotLogEntryValue.value_int,
                    DMdl.PlotLogEntryValue.tick_time)
             .join(DMdl.PlotLogEntry, DMdl.PlotLogEntryValue.plot_log_entry_id == DMdl.PlotLogEntry.id)
             .join(DMdl.PlotLog, DMdl.PlotLogEntry.plot_log_id == DMdl.PlotLog.id)
             .order_by(DMdl.PlotLogEntryValue.id))
        return [tuple(r) for r in s.execute(q).all()]


def in_loop(fn, *a, **kw):
    """run a synchronous function inside the event loop (the code calls asyncio.create_task)"""
    async def co():
        return fn(*a, **kw)
    return run(co())
