"""Regenerate MANIFEST.json from the property modules present in harness/props."""
import importlib
import json
import os
import sys

HERE = os.path.dirname(os.path.dirname(os.path.abspath(__file__)))
sys.path.insert(0, HERE)
sys.path.insert(0, "/repo")

ALL = [json.loads(l)["id"] for l in open(os.path.join(HERE, "properties.jsonl"))]
NA_REASONS = json.load(open(os.path.join(HERE, "harness", "not_applicable.json")))


def main():
    checks = []
    na = []
    for pid in ALL:
        path = os.path.join(HERE, "harness", "props", pid.lower() + ".py")
        if not os.path.exists(path):
            na.append(dict(property_id=pid, reason=NA_REASONS.get(pid, NA_REASONS["default"])))
            continue
        p = importlib.import_module(f"harness.props.{pid.lower()}").PROP
        checks.append(dict(
            property_id=pid,
            quick_cmd=f"./check {pid} --tier quick",
            thorough_cmd=f"./check {pid} --tier thorough",
            evidence_file=f"/verif/evidence/{pid}.json",
            replay_cmd_template=f"./check {pid} --replay {{path}}",
            engine="coq-proof+correspondence",
            level_claimed=dict(category="proof", text=p.LEVEL_TEXT, design_ref=p.DESIGN_REF),
            level_note=p.LEVEL_NOTE,
            technique=p.TECHNIQUE,
        ))
    man = dict(
        version=1,
        setup_cmd="./setup.sh",
        hooks=dict(
            guard="OPEN_PECTUS_VERIF",
            enable="export OPEN_PECTUS_VERIF=1 (set by ./check; the code is Python, nothing is rebuilt)",
            baseline_off_cmd="cd /repo && env -u OPEN_PECTUS_VERIF /venv/bin/python -m pytest -ra -q -p no:cacheprovider "
                             "--timeout=900 --continue-on-collection-errors",
            source_commits=json.load(open(os.path.join(HERE, "harness", "hook_commits.json"))),
            add_only=True,
        ),
        engines=[dict(name="coq-proof+correspondence", path="/verif/check",
                      serves_properties=[c["property_id"] for c in checks],
                      kind_free_text="Coq 8.16 theorems about executable Gallina models (coq/model, coq/proofs, "
                                     "coq/props); tables regenerated from /repo by fail-closed translators "
                                     "(coq/gen); correspondence: the model is evaluated by coqc/vm_compute on the "
                                     "cases the real code just ran, and a Coq monitor is evaluated on the "
                                     "implementation's traces")],
        checks=checks,
        notes="See DESIGN.md. Known genuine defects are listed in KNOWN_FINDINGS.json.",
        not_applicable=na,
    )
    json.dump(man, open(os.path.join(HERE, "MANIFEST.json"), "w"), indent=1)
    print(f"{len(checks)} checks, {len(na)} not claimed")


main()
