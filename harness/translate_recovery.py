"""Fail-closed translator: constants and state sets of hardware_recovery.py -> coq/gen/RecoveryConst.v"""
import ast
from pathlib import Path

from harness.common import REPO

STATES = ["Disconnected", "OK", "Issue", "Reconnect", "Error"]
COQ_STATE = {"Disconnected": "SDisconnected", "OK": "SOK", "Issue": "SIssue", "Reconnect": "SReconnect", "Error": "SError"}


def _num(node):
    if isinstance(node, ast.Constant) and isinstance(node.value, (int,)) and not isinstance(node.value, bool):
        return node.value
    if isinstance(node, ast.UnaryOp) and isinstance(node.op, ast.USub):
        return -_num(node.operand)
    if isinstance(node, ast.BinOp) and isinstance(node.op, ast.Mult):
        return _num(node.left) * _num(node.right)
    raise ValueError(f"unsupported constant expression: {ast.dump(node)}")


def _state_list(node):
    """[ErrorRecoveryState.A, ErrorRecoveryState.B]"""
    if not isinstance(node, ast.List):
        raise ValueError("expected a list of states")
    out = []
    for e in node.elts:
        if not (isinstance(e, ast.Attribute) and isinstance(e.value, ast.Name) and e.value.id == "ErrorRecoveryState"
                and e.attr in STATES):
            raise ValueError(f"unexpected state expression {ast.dump(e)}")
        out.append(e.attr)
    return out


def _in_test(test):
    """self.state in [..]"""
    if not (isinstance(test, ast.Compare) and len(test.ops) == 1 and isinstance(test.ops[0], ast.In)
            and isinstance(test.left, ast.Attribute) and test.left.attr == "state"):
        raise ValueError(f"unexpected test {ast.dump(test)}")
    return _state_list(test.comparators[0])


def translate():
    src = (REPO / "openpectus/engine/hardware_recovery.py").read_text()
    tree = ast.parse(src)
    classes = {n.name: n for n in tree.body if isinstance(n, ast.ClassDef)}
    enum = classes["ErrorRecoveryState"]
    members = [(t.targets[0].id, _num(t.value)) for t in enum.body if isinstance(t, ast.Assign)]
    if [m for m, _ in members] != STATES:
        raise ValueError(f"ErrorRecoveryState members changed: {members}")
    cfg = {}
    for t in classes["ErrorRecoveryConfig"].body:
        if isinstance(t, ast.Assign) and isinstance(t.targets[0], ast.Name):
            name = t.targets[0].id
            if name in ("reconnect_timeout_seconds", "error_timeout_seconds"):
                cfg[name] = _num(t.value)
            elif name == "only_write_modified_values":
                if not (isinstance(t.value, ast.Constant) and isinstance(t.value.value, bool)):
                    raise ValueError("only_write_modified_values is not a boolean constant")
                cfg[name] = t.value.value
    if set(cfg) != {"reconnect_timeout_seconds", "error_timeout_seconds", "only_write_modified_values"}:
        raise ValueError(f"ErrorRecoveryConfig fields changed: {cfg}")
    deco = classes["ErrorRecoveryDecorator"]
    fns = {n.name: n for n in deco.body if isinstance(n, ast.FunctionDef)}
    backoff = None
    rtick0 = None
    for st in ast.walk(fns["__init__"]):
        if isinstance(st, ast.Assign) and isinstance(st.targets[0], ast.Attribute):
            if st.targets[0].attr == "reconnect_backoff_ticks":
                backoff = [_num(e) for e in st.value.elts]
            if st.targets[0].attr == "reconnect_tick":
                rtick0 = _num(st.value)
    if backoff is None or rtick0 is None:
        raise ValueError("reconnect_backoff_ticks / reconnect_tick initialisation not found")
    # is_connected: return self.state in [...]
    ret = [s for s in fns["is_connected"].body if isinstance(s, ast.Return)]
    connected_states = _in_test(ret[0].value)
    # _update_connection_status: first statement `if self.state in [..]: value = Disconnected else Connected`
    ifs = [s for s in fns["_update_connection_status"].body if isinstance(s, ast.If)]
    disc_states = _in_test(ifs[0].test)
    body_val = ifs[0].body[0].value
    else_val = ifs[0].orelse[0].value
    if not (isinstance(body_val, ast.Attribute) and body_val.attr == "Disconnected"
            and isinstance(else_val, ast.Attribute) and else_val.attr == "Connected"):
        raise ValueError("_update_connection_status no longer maps the listed states to Disconnected/else Connected")
    tick_states = _in_test([s for s in fns["tick"].body if isinstance(s, ast.If)][0].test)
    # _is_backoff_tick shape: in list -> True; last = list[-1]; tick > last and tick % last == 0 -> True; False
    bt = ast.unparse(fns["_is_backoff_tick"])
    expect = ("def _is_backoff_tick(self, tick: int) -> bool:\n    if tick in self.reconnect_backoff_ticks:\n        return True\n"
              "    last = self.reconnect_backoff_ticks[-1]\n    if tick > last and tick % last == 0:\n        return True\n"
              "    return False")
    if bt.strip() != expect:
        raise ValueError("_is_backoff_tick changed shape:\n" + bt)

    def sl(xs):
        return "[" + "; ".join(COQ_STATE[x] for x in xs) + "]"
    text = f"""(* GENERATED by harness/translate_recovery.py from openpectus/engine/hardware_recovery.py -- do not edit *)
From Coq Require Import ZArith List.
Import ListNotations.
Open Scope Z_scope.
Inductive rstate := SDisconnected | SOK | SIssue | SReconnect | SError.
Definition reconnect_timeout_seconds : Z := {cfg['reconnect_timeout_seconds']}.
Definition error_timeout_seconds : Z := {cfg['error_timeout_seconds']}.
Definition only_write_modified_values : bool := {'true' if cfg['only_write_modified_values'] else 'false'}.
Definition reconnect_backoff_ticks : list Z := [{'; '.join(str(x) for x in backoff)}].
Definition reconnect_tick_init : Z := {rtick0 if rtick0 >= 0 else '(' + str(rtick0) + ')'}.
Definition connected_states : list rstate := {sl(connected_states)}.       (* is_connected *)
Definition status_disconnected_states : list rstate := {sl(disc_states)}.  (* _update_connection_status *)
Definition reconnecting_states : list rstate := {sl(tick_states)}.          (* tick *)
"""
    return {"gen/RecoveryConst.v": text}
