"""Driver shared by the engine-core properties (C06-C11, C13): runs the real Engine (empty method, virtual clock,
recording hardware, scripted UOD commands) through an operation sequence and observes it after every operation."""
import logging

from harness.common import z, b, lst, tup, opt
from harness.engine_env import Env, make_uod
from openpectus.engine.models import SystemTagName

UNIT = 0.5            # one model clock unit in seconds (exact in binary)
T0 = 1000.0
INAMES = ["Start", "Stop", "Pause", "Unpause", "Hold", "Unhold", "Restart", "Info"]
UODS = ["CmdA", "CmdB", "CmdC"]          # overlap groups: cfg["overlaps"] (default: CmdB and CmdC overlap)


def out_names(cfg):
    return [f"Out{i + 1}" for i in range(len(cfg["safe"]))]


def dur_arg(d):
    """duration in clock units -> P-code argument"""
    if d is None:
        return ""
    secs = d * UNIT
    return f"{secs:g} s" if secs != int(secs) else f"{int(secs)} s"


def uod_arg(scr, names):
    dur, fail, out = scr
    a = f"d={dur}"
    if fail is not None:
        a += f" f={fail}"
    if out is not None:
        a += f" o={names[out[0]]}:{out[1]}"
    return a


class Run:
    def __init__(self, case):
        from openpectus.lang.exec.tracking import Tracking
        cfg = case["cfg"]
        self.case = case
        self.names = out_names(cfg)
        self.cmd_log = []
        safe = tuple((n, float(sv)) for n, sv in zip(self.names, cfg["safe"]) if sv is not None)
        plain = tuple(n for n, sv in zip(self.names, cfg["safe"]) if sv is None)
        self._now = [T0]
        uod = make_uod(self.cmd_log, outputs_safe=safe, outputs_plain=plain, with_acc=False, now_fn=lambda: self._now[0],
                       id_in_log=True, default_dur=int(cfg.get("user_dur", 0)),
                       overlaps=tuple(tuple(UODS[i] for i in g) for g in cfg.get("overlaps", [[1, 2]])))
        # registers are created safe-first by make_uod; the model indexes outputs in case order, so reorder the view
        for n, v in zip(self.names, cfg["outs0"]):
            uod.tags[n].set_value(float(v), T0)
        # Engine.run -> _run applies the safe state and writes the process image itself (the model's boot)
        self.env = Env("", t0=T0, dt=UNIT, uod=uod)
        self.env.cmd_log = self.cmd_log
        e = self.env.engine
        self.hw = e.uod.hwl
        self.hw.sink = self.cmd_log
        self.run_ids = []
        self.idmap = {}
        self.tracked = []
        self._orig_create = Tracking.create_instance_id
        run = self

        def create_instance_id(tracking, name):
            real = run._orig_create(tracking, name)
            run.idmap[real] = len(run.idmap)
            run.tracked.append(bool(tracking.enabled))
            return real
        Tracking.create_instance_id = create_instance_id
        self._Tracking = Tracking
        self._install_event_hooks()
        self.log_pos = 0
        self.hw_pos = 0

    def issue_line(self, line):
        """what the interpreter does for an EngineCommandNode / UodCommandNode line: a node with a runtime record and an
        instance id, then Engine.schedule_execution"""
        from openpectus.lang.exec.runlog import RuntimeRecord
        e = self.env.engine
        prog = e._method_manager.parse_inject_code(line + "\n")
        node = [c for c in prog.children if c.instruction_name][0]
        self.node_count = getattr(self, "node_count", 0) + 1
        node.id = f"h{self.node_count}"
        ri = e.tracking.runtimeinfo
        ri._injected_node_map[node.id] = node
        ri._add_record(RuntimeRecord.from_node(node))
        iid = e.tracking.create_node_instance_id(node)
        self.idmap[iid] = len(self.idmap)
        self.tracked.append(bool(e.tracking.enabled))
        e.schedule_execution(node.instruction_name, node.arguments, iid)

    def _install_event_hooks(self):
        """run start / stop, Pause and Unpause are logged into the shared event list (wrappers, no source edit)"""
        from openpectus.engine.engine import Engine
        import openpectus.engine.internal_commands_impl as impl
        run = self
        eng = self.env.engine
        # the command classes are hidden behind the @command_argument decorator's wrapper function
        PauseCls = getattr(impl.PauseEngineCommand, "__wrapped__", impl.PauseEngineCommand)
        UnpauseCls = getattr(impl.UnpauseEngineCommand, "__wrapped__", impl.UnpauseEngineCommand)
        self._saved_hooks = [(Engine, "set_run_id", Engine.set_run_id), (Engine, "clear_run_id", Engine.clear_run_id),
                             (Engine, "update_calculated_tags", Engine.update_calculated_tags),
                             (Engine, "set_error_state", Engine.set_error_state),
                             (PauseCls, "_run", PauseCls._run), (UnpauseCls, "_run", UnpauseCls._run)]
        o_set, o_clear = Engine.set_run_id, Engine.clear_run_id
        o_pause, o_unpause = PauseCls._run, UnpauseCls._run

        def set_run_id(e):
            if e is eng:
                run.cmd_log.append(("runstart", None, None))
            return o_set(e)

        def clear_run_id(e):
            if e is eng:
                run.cmd_log.append(("runstop", None, None))
            return o_clear(e)

        def pause_run(cmd):
            gen = o_pause(cmd)

            def wrapped():
                first = True
                while True:
                    if first and cmd.engine is eng:
                        already = bool(eng._runstate_paused)
                    try:
                        next(gen)
                    except StopIteration:
                        if first and cmd.engine is eng:
                            run.cmd_log.append(("pause", already, run._cap(eng._prev_state)))
                        return
                    if first and cmd.engine is eng:
                        run.cmd_log.append(("pause", already, run._cap(eng._prev_state)))
                    first = False
                    yield
            return wrapped()

        def unpause_run(cmd):
            if cmd.engine is eng:
                run.cmd_log.append(("unpause", run._cap(eng._prev_state), None))
            return o_unpause(cmd)
        o_error = Engine.set_error_state

        def set_error_state(e, exception):
            if e is eng:
                run.cmd_log.append(("error", None, None))
            return o_error(e, exception)
        Engine.set_error_state = set_error_state
        o_update = Engine.update_calculated_tags

        def update_calculated_tags(e, tick_time, increment_time):
            if e is not eng:
                return o_update(e, tick_time, increment_time)
            sysv = str(e._system_tags[SystemTagName.SYSTEM_STATE].get_value())
            before = run._clock_values()
            try:
                return o_update(e, tick_time, increment_time)
            finally:
                run.cmd_log.append(("clock", (sysv, increment_time), (before, run._clock_values())))
        Engine.update_calculated_tags = update_calculated_tags
        Engine.set_run_id = set_run_id
        Engine.clear_run_id = clear_run_id
        PauseCls._run = pause_run
        UnpauseCls._run = unpause_run

    def _clock_values(self):
        st = self.env.engine._system_tags
        return [st[SystemTagName.PROCESS_TIME].get_value(), st[SystemTagName.RUN_TIME].get_value(),
                st[SystemTagName.BLOCK_TIME].value, st[SystemTagName.SCOPE_TIME].value]

    def _cap(self, state):
        if state is None:
            return None
        return [[self.names.index(tv.name), int(tv.value)] for tv in state]

    def close(self):
        self._Tracking.create_instance_id = self._orig_create
        for obj, name, orig in self._saved_hooks:
            setattr(obj, name, orig)
        self.env.close()

    # ------------------------------------------------------------------ operations
    def do(self, op, rid_counter):
        e = self.env.engine
        k = op[0]
        accepted = True
        if k == "tick":
            _, dt, read_ok, write_ok, reqs, raises = op
            # the requests are issued from inside the interpreter's tick (so only if the engine really ticks it)
            interp = e.interpreter
            orig = interp.tick
            run = self

            def scripted_tick(t, n):
                orig(t, n)
                for rq in reqs:
                    if rq[0] == "uod":
                        run.issue_line(f"{UODS[rq[1]]}: {uod_arg(rq[2], run.names)}")
                    else:
                        arg = dur_arg(rq[1]) if len(rq) > 1 else ""
                        run.issue_line(f"{rq[0]}: {arg}" if arg else rq[0])
                if raises:
                    raise RuntimeError("scripted interpreter failure")
            interp.tick = scripted_tick
            self.hw.fail_reads = not read_ok
            self.hw.fail_writes = not write_ok
            self.env.now += dt * UNIT
            self._now[0] = self.env.now
            try:
                e.tick(self.env.now, dt * UNIT)
            except Exception as ex:       # C13: no exception may escape a tick
                self.cmd_log.append(("crash", type(ex).__name__, str(ex)[:200]))
            self.env.ticks += 1
            self.hw.fail_reads = False
            self.hw.fail_writes = False
            interp.__dict__.pop("tick", None)
        elif k == "user":
            try:
                e.execute_control_command_from_user(op[1])
            except ValueError:
                accepted = False
        elif k == "useruod":
            # an instance id created while tracking is disabled (no run) is unknown to tracking once it is enabled, which
            # makes the tick in which the command runs fail: outside the modelled domain, the request is not made
            if e.tracking.enabled:
                e.execute_control_command_from_user(UODS[op[1]])
            else:
                accepted = False
        elif k == "setout":
            e.uod.tags[self.names[op[1]]].set_value(float(op[2]), e._tick_time)
            self.cmd_log.append(("out_user", self.names[op[1]], float(op[2])))
        return self.view(accepted)

    def _run_index(self, rid):
        if rid is None:
            return None
        if rid not in self.run_ids:
            self.run_ids.append(rid)
        return self.run_ids.index(rid)

    def view(self, accepted):
        from openpectus.engine.models import SystemTagName, MethodStatusEnum
        e = self.env.engine
        st = e._system_tags

        def units(x):
            q = float(x) / UNIT
            assert q == int(q), ("clock value is not a multiple of the unit", x)
            return int(q)

        def ival(x):
            assert float(x) == int(x), ("non-integral output value", x)
            return int(x)
        prev = None
        if e._prev_state is not None:
            prev = [[self.names.index(tv.name), ival(tv.value)] for tv in e._prev_state]
            # the model captures in case (register) order
        cm = e._command_manager
        events = []
        nout = len(self.names)
        pending = []
        for ent in self.cmd_log[self.log_pos:]:
            kind, name, iid = ent[0], ent[1], ent[2]
            if kind in ("runstart", "runstop"):
                events.append([kind])
                continue
            if kind == "pause":
                events.append(["pause", name, iid])
                continue
            if kind == "unpause":
                events.append(["unpause", name])
                continue
            if kind in ("out", "out_user"):
                events.append(["out", kind == "out_user", self.names.index(name), ival(iid)])
                continue
            if kind == "error":
                events.append(["error"])
                continue
            if kind == "crash":
                events.append(["crash", name, iid])
                continue
            if kind == "clock":
                events.append(["clock", name[0], units(name[1]), [units(x) for x in iid[0]], [units(x) for x in iid[1]]])
                continue
            if kind == "hw":
                if name in self.names:
                    pending.append((name, iid))
                    if len(pending) == nout:
                        chunk = dict(pending)
                        events.append(["hw", [ival(chunk[n]) for n in self.names]])
                        pending = []
                continue
            n = UODS.index(name)
            i = self.idmap[iid]
            if kind == "init":
                events.append(["init", n, i])
            elif kind == "exec":
                events.append(["exec", n, i, ent[3]])
            else:
                events.append(["final", n, i])
        assert not pending, ("incomplete hardware write batch", pending)
        self.log_pos = len(self.cmd_log)
        ms = st[SystemTagName.METHOD_STATUS].get_value()
        return dict(
            now_units=units(self.env.now - T0),
            flags=[bool(e._runstate_started), bool(e._runstate_paused), bool(e._runstate_holding), bool(e._runstate_stopping),
                   ms == MethodStatusEnum.ERROR, e.has_error_state(), accepted],
            sys=str(st[SystemTagName.SYSTEM_STATE].get_value()),
            run=self._run_index(st[SystemTagName.RUN_ID].get_value()),
            prev=prev,
            outs=[ival(e.uod.tags[n].get_value()) for n in self.names],
            hw=[None if n not in self.hw.mem else ival(self.hw.mem[n]) for n in self.names],
            clocks=[units(st[SystemTagName.PROCESS_TIME].get_value()), units(st[SystemTagName.RUN_TIME].get_value()),
                    units(st[SystemTagName.BLOCK_TIME].value), units(st[SystemTagName.SCOPE_TIME].value)],
            reg=list(e.registry._command_instances.keys()),
            uods=[[UODS.index(n), self.idmap[c.instance_id]] for n, c in e.uod.command_instances.items()],
            exe=[self.idmap[r.instance_id] for r in cm.cmd_executing],
            que=[self.idmap[r.instance_id] for r in list(cm.cmd_queue.queue)],
            events=events)


def run_case(case):
    logging.disable(logging.CRITICAL)
    run = Run(case)
    try:
        out = []
        rid = [0]
        ids = []
        for op in case["ops"]:
            before = len(run.idmap)
            out.append(run.do(op, rid))
            ids.append([before, len(run.idmap)])
        return dict(views=out, ids=ids, tracked=list(run.tracked))
    finally:
        run.close()


# ---------------------------------------------------------------------- Coq printers
def nat(x):
    return f"{x}%nat"


def script_coq(scr):
    dur, fail, out = scr
    return ("{| u_dur := %s; u_fail := %s; u_out := %s |}"
            % (nat(dur), "None" if fail is None else f"(Some {nat(fail)})",
               "None" if out is None else f"(Some ({nat(out[0])}, {z(out[1])}))"))


NOSCR = "{| u_dur := 0%nat; u_fail := None; u_out := None |}"


def request_coq(rid, rq, user, tracked):
    trk = b(tracked[rid]) if rid < len(tracked) else "true"
    if rq[0] == "uod":
        return ("{| r_id := %s; r_name := CU %s; r_dur := None; r_scr := %s; r_user := %s; r_cancellable := %s; "
                "r_tracked := %s |}" % (nat(rid), nat(rq[1]), script_coq(rq[2]), b(user), b(not user), trk))
    d = rq[1] if len(rq) > 1 else None
    canc = (not user) and rq[0] in ("Pause", "Hold") and d is not None
    return ("{| r_id := %s; r_name := CI %s; r_dur := %s; r_scr := %s; r_user := %s; r_cancellable := %s; "
            "r_tracked := %s |}" % (nat(rid), rq[0], opt(d), NOSCR, b(user), b(canc), trk))


def input_to_coq(case, obs):
    cfg = case["cfg"]
    c = ("{| c_safe := %s; c_overlaps := %s; c_outs0 := %s |}"
         % (lst(["None" if s is None else f"(Some {z(s)})" for s in cfg["safe"]]),
            lst([lst([nat(i) for i in g]) for g in cfg.get("overlaps", [[1, 2]])]), lst([z(v) for v in cfg["outs0"]])))
    ops = []
    for op, (lo, hi), v in zip(case["ops"], obs["ids"], obs["views"]):
        k = op[0]
        if k == "tick":
            _, dt, rok, wok, reqs, raises = op
            issued = hi - lo == len(reqs) and len(reqs) > 0
            rcoq = []
            # the interpreter's requests are part of the input only when the interpreter ran (the model decides the
            # same from its own flags; a disagreement shows up in the views)
            allreq = [request_coq(lo + j, rq, False, obs['tracked']) for j, rq in enumerate(reqs)]
            ops.append("OTick {| t_time := %s; t_dt := %s; t_read_ok := %s; t_write_ok := %s; t_interp := %s; "
                       "t_interp_raises := %s |}" % (z(v["now_units"]), z(dt), b(rok), b(wok), lst(allreq), b(raises)))
        elif k == "user":
            ops.append(f"OUser {request_coq(lo, [op[1]], True, obs['tracked'])} {op[1]}")
        elif k == "useruod":
            ops.append(f"OUserUod {request_coq(lo, ['uod', op[1], [int(cfg.get('user_dur', 0)), None, None]], True, obs['tracked'])}"
                       if hi > lo else "ONop")
        else:
            ops.append(f"OSetOut {nat(op[1])} {z(op[2])}")
    return tup(c, lst(ops))


def view_to_coq(v):
    def ev(e):
        if e[0] == "init":
            return f"EUInit {nat(e[1])} {nat(e[2])}"
        if e[0] == "exec":
            return f"EUExec {nat(e[1])} {nat(e[2])} {z(e[3])}"
        if e[0] == "final":
            return f"EUFinal {nat(e[1])} {nat(e[2])}"
        if e[0] == "runstart":
            return "EStarted 0%nat"
        if e[0] == "runstop":
            return "EStoppedRun"
        if e[0] == "pause":
            return f"EPause {b(e[1])} {lst([tup(nat(i), z(x)) for i, x in e[2]])}"
        if e[0] == "out":
            return f"EOut {b(e[1])} {nat(e[2])} {z(e[3])}"
        if e[0] == "crash":
            return "ECrash"
        if e[0] == "error":
            return "EError"
        if e[0] == "clock":
            return f"EClock {e[1]} {z(e[2])} {lst([z(x) for x in e[3]])} {lst([z(x) for x in e[4]])}"
        if e[0] == "unpause":
            return "EUnpause " + ("None" if e[1] is None else "(Some %s)" % lst([tup(nat(i), z(x)) for i, x in e[1]]))
        return f"EHwWrite {lst([z(x) for x in e[1]])}"
    prev = "None" if v["prev"] is None else "(Some %s)" % lst([tup(nat(i), z(x)) for i, x in v["prev"]])
    return ("{| v_flags := %s; v_sys := %s; v_run := %s; v_prev := %s; v_outs := %s; v_hw := %s; v_clocks := %s; "
            "v_reg := %s; v_uods := %s; v_exe := %s; v_que := %s; v_events := %s |}"
            % (lst([b(x) for x in v["flags"]]), v["sys"], "None" if v["run"] is None else f"(Some {nat(v['run'])})", prev,
               lst([z(x) for x in v["outs"]]), lst(["None" if x is None else f"(Some {z(x)})" for x in v["hw"]]),
               lst([z(x) for x in v["clocks"]]), lst(v["reg"]), lst([tup(nat(a), nat(c)) for a, c in v["uods"]]),
               lst([nat(x) for x in v["exe"]]), lst([nat(x) for x in v["que"]]), lst([ev(e) for e in v["events"]])))


def output_to_coq(obs):
    return lst([view_to_coq(v) for v in obs["views"]])
