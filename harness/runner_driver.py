"""Driver for the real EngineRunner (openpectus/engine/engine_runner.py) with a scripted dispatcher: every connect and
every transmission takes its outcome from the operation's result list. The two periodic producer loops
(steady_state_send_messages, buffer_messages) are replaced by idle loops: what they produce is part of the operation
alphabet (post / buf). asyncio.sleep inside the module is made instantaneous."""
import asyncio
import logging

OK, LOST, DUP = "ok", "lost", "dup"      # delivered; not delivered + network error; delivered but the sender sees a network error


def run_case(case):
    logging.disable(logging.CRITICAL)
    import openpectus.engine.engine_runner as ER
    import openpectus.protocol.engine_messages as EM
    from openpectus.protocol.exceptions import ProtocolNetworkException, ProtocolException
    from openpectus.protocol.engine_dispatcher import EngineDispatcher
    from openpectus.lang.exec.events import EventEmitter

    class TMsg(EM.EngineMessage):
        label: int = 0
        run: int = -1
        kind: str = "data"

    delivered = []
    results = []

    def nxt():
        return results.pop(0) if results else OK

    class FakeDispatcher:
        def __init__(self):
            self._engine_id = None
            self._sequence_number = 1

        assign_sequence_number = EngineDispatcher.assign_sequence_number

        async def connect_async(self):
            if nxt() != OK:
                raise ProtocolNetworkException("scripted connect failure")
            self._engine_id = "eng"

        async def disconnect_async(self):
            return None

        async def send_async(self, message):
            if self._engine_id is None:
                raise ProtocolException("Engine did not have engine_id yet")
            message.engine_id = self._engine_id
            self.assign_sequence_number(message)
            r = nxt()
            if r in (OK, DUP):
                delivered.append([getattr(message, "label", -9), message.sequence_number])
            if r != OK:
                raise ProtocolNetworkException("scripted send failure")
            import openpectus.protocol.messages as M
            return M.SuccessMessage()

    class FakeBuilder:
        def create_uod_info(self):
            return TMsg(label=-1, kind="uod")

        def create_method_msg(self):
            return TMsg(label=-2, kind="method")

    loop = asyncio.new_event_loop()
    orig_sleep = asyncio.sleep

    async def fast_sleep(_secs, *a, **k):
        await orig_sleep(0)

    class _AsyncioProxy:
        def __getattr__(self, n):
            return fast_sleep if n == "sleep" else getattr(asyncio, n)
    saved_asyncio = ER.asyncio
    ER.asyncio = _AsyncioProxy()

    async def idle(self):
        while True:
            await orig_sleep(3600)
    saved = (ER.EngineRunner.steady_state_send_messages, ER.EngineRunner.buffer_messages)
    ER.EngineRunner.steady_state_send_messages = idle
    ER.EngineRunner.buffer_messages = idle
    views = []
    try:
        class _E:
            def add_listener(self, _l):
                pass
        class _NoTimer:            # the harness calls _tick itself
            def __init__(self, *_a):
                self._task = None

            def start(self):
                pass

            def stop(self):
                pass
        saved_timer = ER.AsyncTimer
        ER.AsyncTimer = _NoTimer
        try:
            runner = ER.EngineRunner(FakeDispatcher(), FakeBuilder(), _E(), loop)
        finally:
            ER.AsyncTimer = saved_timer

        def task_kind():
            t = runner._state_task
            if t is None:
                return "none"
            return "buf" if t.get_name().endswith("buffer_messages") else "steady"

        def view(err=None):
            nonlocal delivered
            v = dict(state=runner._state, buf=[[m.label, m.sequence_number] for m in runner._message_buffer],
                     delivered=list(delivered), task=task_kind(), seq=runner._dispatcher._sequence_number, error=err)
            delivered.clear()
            return v

        for op in case["ops"]:
            results[:] = list(op.get("results", []))
            err = None
            try:
                if op["op"] == "post":
                    m = TMsg(label=op["label"], run=op.get("run", -1), kind=op.get("kind", "data"))
                    loop.run_until_complete(runner._post_async(m))
                elif op["op"] == "buf":
                    if task_kind() == "buf":
                        runner._buffer_message(TMsg(label=op["label"], run=op.get("run", -1), kind=op.get("kind", "data")))
                elif op["op"] == "tick":
                    loop.run_until_complete(runner._tick())
                    t = runner._transmit_buffer_task
                    if t is not None and not t.done():
                        loop.run_until_complete(asyncio.wait([t]))
                elif op["op"] == "shutdown":
                    loop.run_until_complete(runner.shutdown())
            except Exception as ex:       # an exception escaping the runner's own methods
                err = type(ex).__name__
            views.append(view(err))
        return dict(views=views)
    finally:
        for t in asyncio.all_tasks(loop):
            t.cancel()
        try:
            loop.run_until_complete(asyncio.gather(*asyncio.all_tasks(loop), return_exceptions=True))
        except Exception:
            pass
        loop.close()
        ER.EngineRunner.steady_state_send_messages, ER.EngineRunner.buffer_messages = saved
        ER.asyncio = saved_asyncio


if __name__ == "__main__":
    import json
    import sys
    print(json.dumps(run_case(json.loads(sys.argv[1])), indent=0))
