"""Shared machinery of the Open-Pectus proof checks.

One check = (1) regenerate the tables the Coq model imports from /repo,
(2) rebuild props/<ID>.vo (every Theorem there is a proof obligation; `Print Assumptions`
output is parsed), (3) run the real code and the Coq model on the same generated cases
(`Eval vm_compute` inside coqc) and diff, (4) evaluate the property monitor -- a Coq
boolean function proved to be implied by the theorems -- on every IMPLEMENTATION trace,
(5) decide, write evidence and replay files.
"""
from __future__ import annotations

import fcntl
import hashlib
import json
import os
import random
import re
import subprocess
import sys
import time
import traceback
from concurrent.futures import ThreadPoolExecutor
from pathlib import Path

VERIF = Path(__file__).resolve().parent.parent
COQ = VERIF / "coq"
BUILD = VERIF / "_build"
REPO = Path(os.environ.get("VERIF_REPO", "/repo"))
GUARD = "OPEN_PECTUS_VERIF"

FORBIDDEN = re.compile(
    r"\b(Admitted|admit|Axiom|Axioms|Parameter|Parameters|Conjecture|Conjectures|Admit Obligations)\b"
    r"|Unset Guard Checking|Unset Positivity Checking|Unset Universe Checking|bypass_check|type-in-type"
    r"|impredicative-set|native_compute")

# Standard-library axioms a proof may depend on (none is needed so far; listed in DESIGN.md §8)
ALLOWED_AXIOMS = {
    "functional_extensionality_dep", "FunctionalExtensionality.functional_extensionality_dep",
}

BASE_TRUSTED = [
    "Coq 8.16.1 kernel (coqc), incl. its vm_compute bytecode VM for the finite-table lemmas, "
    "refutation witnesses and for evaluating the model on correspondence cases; no native_compute",
    "no Axiom/Parameter/Admitted anywhere in /verif/coq (grep is part of the check); "
    "Print Assumptions of every property theorem is parsed on every run",
    "the Python harness: case generators, implementation drivers with fake collaborators, "
    "Coq-term printers, canonicalisation (harness/common.py, harness/props/*.py)",
    "CPython 3.12 and the third-party libraries the modelled code calls are outside the model",
]


# ----------------------------------------------------------------------------- Coq term printers
def z(n) -> str:
    n = int(n)
    return f"({n})" if n < 0 else str(n)


def b(v) -> str:
    return "true" if v else "false"


def lst(items) -> str:
    return "[" + "; ".join(items) + "]"


def zl(ns) -> str:
    return lst([z(n) for n in ns])


def s(text: str) -> str:
    """Python str -> list of code points"""
    return zl([ord(c) for c in text])


def tup(*items) -> str:
    return "(" + ", ".join(items) + ")"


def opt(v, f=z) -> str:
    return "None" if v is None else f"(Some {f(v)})"


# ----------------------------------------------------------------------------- known findings
def load_findings(pid: str):
    path = VERIF / "KNOWN_FINDINGS.json"
    if not path.exists():
        return {}
    data = json.loads(path.read_text())
    return {e["key"]: e for e in data["findings"] if e["property"] == pid}


# ----------------------------------------------------------------------------- property base
class Prop:
    ID = "C00"
    DESIGN_REF = "DESIGN.md §7"
    RULE = ""
    TRUSTED: list[str] = []
    ASSUMPTIONS: list[str] = []
    SHARD = 400
    QUICK_N = 1000
    THOROUGH_N = 20000
    COQ_IMPORTS = ""           # extra Require lines for the cases file
    EXTRA_PROPS: list[str] = []   # further props/*.v files whose theorems count for this property

    # --- to be provided by each property -------------------------------------------------
    def translators(self):
        """list of (name, callable) ; callable returns {relative gen path: text}"""
        return []

    def corpus(self):
        p = VERIF / "corpus" / f"{self.ID}.json"
        return json.loads(p.read_text()) if p.exists() else []

    def gen_cases(self, rng: random.Random, n: int, tier: str):
        raise NotImplementedError

    def run_impl(self, case):
        raise NotImplementedError

    def case_to_coq(self, case) -> str:
        raise NotImplementedError

    def obs_to_coq(self, obs) -> str:
        raise NotImplementedError

    def nontrivial(self, case, obs) -> bool:
        return True

    def classify(self, case, obs):
        """key of the KNOWN_FINDINGS entry a monitor violation on this case belongs to, or None"""
        return None

    def kind(self, case, obs) -> str:
        """label for the input-distribution histogram"""
        return "case"

    def size(self, case) -> int:
        return len(json.dumps(case))

    def setup(self):
        pass

    def teardown(self):
        pass


# ----------------------------------------------------------------------------- build
def scan_forbidden():
    bad = []
    for p in sorted(COQ.rglob("*.v")):
        for i, line in enumerate(p.read_text().splitlines(), 1):
            code = re.sub(r"\(\*.*?\*\)", "", line)
            if FORBIDDEN.search(code):
                bad.append(f"{p.relative_to(VERIF)}:{i}: {line.strip()}")
    proj = (COQ / "_CoqProject").read_text()
    if re.search(r"type-in-type|impredicative-set|-vos|-vok", proj):
        bad.append("_CoqProject: forbidden flag")
    return bad


class Lock:
    def __enter__(self):
        BUILD.mkdir(exist_ok=True)
        self.f = open(BUILD / ".lock", "w")
        fcntl.flock(self.f, fcntl.LOCK_EX)
        return self

    def __exit__(self, *a):
        fcntl.flock(self.f, fcntl.LOCK_UN)
        self.f.close()


def write_if_changed(path: Path, text: str) -> bool:
    if path.exists() and path.read_text() == text:
        return False
    path.parent.mkdir(parents=True, exist_ok=True)
    path.write_text(text)
    return True


def sh(cmd, timeout, cwd=None):
    try:
        r = subprocess.run(cmd, cwd=cwd, capture_output=True, text=True, timeout=timeout)
        return r.returncode, r.stdout + r.stderr
    except subprocess.TimeoutExpired as e:
        out = (e.stdout or b"").decode(errors="replace") if isinstance(e.stdout, bytes) else (e.stdout or "")
        return 124, out + "\nTIMEOUT"


def ensure_makefile():
    mk = COQ / "Makefile"
    proj = COQ / "_CoqProject"
    if not mk.exists() or mk.stat().st_mtime < proj.stat().st_mtime:
        rc, out = sh(["coq_makefile", "-f", "_CoqProject", "-o", "Makefile"], 60, cwd=COQ)
        if rc != 0:
            raise RuntimeError("coq_makefile failed: " + out)


def build_props(files: list[str], timeout=900):
    """(re)build props/<f>.vo, forcing the property files themselves to be recompiled so that
    their Print Assumptions output is produced on every run. Returns per file
    (ok, n_theorems, n_closed, axioms, log)."""
    res = {}
    with Lock():
        ensure_makefile()
        for f in files:
            vo = COQ / "props" / f"{f}.vo"
            if vo.exists():
                vo.unlink()
        targets = [f"props/{f}.vo" for f in files] + [f"model/{f}.vo" for f in files if (COQ / "model" / f"{f}.v").exists()]
        rc, out = sh(["make", "-j8"] + targets, timeout, cwd=COQ)
    for f in files:
        src = (COQ / "props" / f"{f}.v").read_text()
        src_nc = re.sub(r"\(\*.*?\*\)", "", src, flags=re.S)
        thms = re.findall(r"^\s*(?:Theorem|Example|Lemma)\s+(\w+)", src_nc, flags=re.M)
        prints = re.findall(r"Print Assumptions\s+(\w+)", src_nc)
        res[f] = dict(theorems=thms, printed=prints)
    closed = out.count("Closed under the global context")
    axioms = []
    for m in re.finditer(r"Axioms:\n((?:.+\n?)+?)(?=\n|COQC|Closed|\Z)", out):
        for line in m.group(1).splitlines():
            mm = re.match(r"^(\S+)\s*:", line)
            if mm:
                axioms.append(mm.group(1))
    return rc == 0, res, closed, sorted(set(axioms)), out


# ----------------------------------------------------------------------------- coq evaluation
def write_shard(prop: Prop, idx: int, items, outdir: Path) -> Path:
    path = outdir / f"cases_{idx}.v"
    mod = prop.ID
    lines = [
        "From Coq Require Import ZArith List Bool.",
        f"From OP Require Import lib.Obs model.{mod}.",
        prop.COQ_IMPORTS,
        "Import ListNotations.",
        "Open Scope Z_scope.",
        f"Definition cases : list ({mod}.input * {mod}.output) := [",
    ]
    lines.append(";\n".join(f" ({prop.case_to_coq(c)},\n  {prop.obs_to_coq(o)})" for c, o in items))
    lines.append("].")
    lines.append(f"Eval vm_compute in (Obs.report {mod}.run {mod}.out_eqb {mod}.holds_b cases).")
    path.write_text("\n".join(lines) + "\n")
    return path


def run_shard(path: Path, timeout=600):
    rc, out = sh(["coqc", "-Q", str(COQ), "OP", "-Q", str(path.parent), "Cases", str(path)], timeout)
    if rc != 0:
        return None, None, out
    flat = " ".join(out.split())
    m = re.search(r"=\s*\(\s*(\[[^\]]*\]|nil)\s*,\s*(\[[^\]]*\]|nil)\s*\)", flat)
    if not m:
        return None, None, out

    def nums(t):
        return [int(x) for x in re.findall(r"\d+", t)]
    return nums(m.group(1)), nums(m.group(2)), out


def model_outputs(prop: Prop, items, outdir: Path, tag="diag"):
    """evaluate the model on a few cases and return Coq's printed outputs (diagnostics)"""
    outs = []
    for k, (c, o) in enumerate(items):
        path = outdir / f"{tag}_{k}.v"
        mod = prop.ID
        path.write_text("\n".join([
            "From Coq Require Import ZArith List Bool.",
            f"From OP Require Import lib.Obs model.{mod}.",
            prop.COQ_IMPORTS,
            "Import ListNotations.", "Open Scope Z_scope.",
            f"Eval vm_compute in ({mod}.run {prop.case_to_coq(c)}).",
        ]) + "\n")
        rc, out = sh(["coqc", "-Q", str(COQ), "OP", "-Q", str(outdir), "Cases", str(path)], 300)
        outs.append(" ".join(out.split())[:4000])
    return outs


# ----------------------------------------------------------------------------- main driver
def canonical(case) -> str:
    return json.dumps(case, sort_keys=True, default=str)


def run_check(prop: Prop, tier: str, seed: int, replay: str | None = None) -> int:
    t0 = time.time()
    pid = prop.ID
    os.environ[GUARD] = "1"
    os.environ.setdefault("PYTHONHASHSEED", "0")
    findings = load_findings(pid)
    outdir = BUILD / pid
    outdir.mkdir(parents=True, exist_ok=True)
    for old in outdir.glob("*"):
        if old.is_file():
            old.unlink()
    (VERIF / "evidence").mkdir(exist_ok=True)
    (VERIF / "replays").mkdir(exist_ok=True)
    for old in (VERIF / "replays").glob(f"{pid}-*.json"):
        old.unlink()

    broken: list[dict] = []       # obligations / correspondences that no longer check
    violations: list[dict] = []   # concrete failing inputs (monitor false on implementation)
    known_hits: dict[str, dict] = {}

    # 0. static hygiene
    bad = scan_forbidden()
    if bad:
        broken.append(dict(kind="hygiene", what="forbidden construct in coq/", detail=bad[:10]))

    # 1. translators
    gen_hashes = {}
    for name, fn in prop.translators():
        try:
            files = fn()
            for rel, text in files.items():
                write_if_changed(COQ / rel, text)
                gen_hashes[rel] = dict(sha256=hashlib.sha256(text.encode()).hexdigest()[:16], bytes=len(text))
        except Exception as e:  # fail closed
            broken.append(dict(kind="translator", what=f"translator:{name}",
                               detail=f"{type(e).__name__}: {e}", tb=traceback.format_exc()[-1500:]))

    # 2. proofs
    files = [pid] + list(prop.EXTRA_PROPS)
    ok, res, closed, axioms, log = build_props(files)
    theorems = sum(len(r["theorems"]) for r in res.values())
    printed = sum(len(r["printed"]) for r in res.values())
    obligations = theorems
    discharged = theorems if ok else 0
    if not ok:
        m = re.search(r'File "\./([^"]+)", line (\d+)', log)
        where = f"{m.group(1)}:{m.group(2)}" if m else "?"
        broken.append(dict(kind="proof", what=f"proof obligation in {where} no longer checks",
                           detail=log[-3000:]))
    else:
        bad_ax = [a for a in axioms if a.split(".")[-1] not in {x.split(".")[-1] for x in ALLOWED_AXIOMS}]
        if bad_ax:
            broken.append(dict(kind="axioms", what="theorem depends on non-allowed axioms", detail=bad_ax))
        if closed + (1 if axioms else 0) < 1 or printed == 0:
            broken.append(dict(kind="proof", what="no Print Assumptions output", detail=log[-1000:]))

    # 3. cases: corpus first, then generated
    rng = random.Random(seed * 1000003 + int(hashlib.sha256(pid.encode()).hexdigest()[:6], 16))
    n = prop.QUICK_N if tier == "quick" else prop.THOROUGH_N
    cases = []
    if replay:
        data = json.loads(Path(replay).read_text())
        cases = [data["case"]] if "case" in data else data["cases"]
    else:
        cases = list(prop.corpus())
        ncorpus = len(cases)
        try:
            cases += list(prop.gen_cases(rng, n, tier))
        except Exception as e:
            broken.append(dict(kind="generator", what="case generator failed against the current source",
                               detail=f"{type(e).__name__}: {e}", tb=traceback.format_exc()[-1500:]))

    # 4. implementation
    prop.setup()
    items = []
    impl_errors = []
    for c in cases:
        try:
            o = prop.run_impl(c)
            items.append((c, o))
        except Exception as e:
            impl_errors.append(dict(case=c, error=f"{type(e).__name__}: {e}", tb=traceback.format_exc()[-1500:]))
    prop.teardown()
    if impl_errors:
        broken.append(dict(kind="driver", what="implementation driver could not observe the code",
                           detail=impl_errors[:3], count=len(impl_errors)))

    # 5. model + monitor inside Coq
    shards = [items[i:i + prop.SHARD] for i in range(0, len(items), prop.SHARD)]
    paths = [write_shard(prop, k, sh_items, outdir) for k, sh_items in enumerate(shards)]
    mism, viol = [], []
    with ThreadPoolExecutor(max_workers=min(14, max(1, len(paths)))) as ex:
        results = list(ex.map(run_shard, paths))
    for k, (mm, vv, out) in enumerate(results):
        if mm is None:
            broken.append(dict(kind="model-eval", what=f"coqc failed on {paths[k].name}", detail=out[-2000:]))
            continue
        mism += [k * prop.SHARD + i for i in mm]
        viol += [k * prop.SHARD + i for i in vv]

    # 6. classify
    for i in viol:
        c, o = items[i]
        key = prop.classify(c, o)
        keys = key.split("+") if key else []
        if keys and all(k in findings and findings[k]["status"] == "open" for k in keys):
            for k in keys:        # a case may show several listed findings at once
                known_hits.setdefault(k, dict(case=c, obs=o, count=0))["count"] += 1
        else:
            violations.append(dict(case=c, obs=o, classified=key))
    mismatches = [dict(case=items[i][0], impl=items[i][1]) for i in mism]
    mismatches.sort(key=lambda d: prop.size(d["case"]))
    if mismatches:
        outs = model_outputs(prop, [(d["case"], d["impl"]) for d in mismatches[:3]], outdir)
        for d, mo in zip(mismatches[:3], outs):
            d["model"] = mo
        broken.append(dict(kind="correspondence",
                           what=f"correspondence model/{pid}.v <-> implementation: {len(mismatches)} of {len(items)} cases differ",
                           detail=mismatches[:3]))

    # 7. evidence
    seen = set()
    nontriv = 0
    dist: dict[str, int] = {}
    for c, o in items:
        k = canonical(c)
        dist_key = prop.kind(c, o)
        dist[dist_key] = dist.get(dist_key, 0) + 1
        if k in seen:
            continue
        seen.add(k)
        if prop.nontrivial(c, o):
            nontriv += 1
    violations.sort(key=lambda d: prop.size(d["case"]))
    exit_code = 0
    lines = []
    for key, hit in sorted(known_hits.items()):
        lines.append(f"KNOWN-FINDING: property={pid} {findings[key]['text']} [{key}; {hit['count']} case(s) this run]")
    if violations:
        v = violations[0]
        h = hashlib.sha256(canonical(v["case"]).encode()).hexdigest()[:10]
        rp = VERIF / "replays" / f"{pid}-{h}.json"
        rp.write_text(json.dumps(dict(
            property=pid, kind="failing-input", seed=seed, tier=tier, case=v["case"], observed=v["obs"],
            explanation="the property monitor (coq/model/%s.v holds_b) is false on the implementation's "
                        "observable behaviour for this case" % pid,
            other_failing_cases=len(violations) - 1,
            broken=[{k: x[k] for k in ("kind", "what")} for x in broken],
            replay_cmd=f"cd /verif && ./check {pid} --replay {rp}"), indent=1, default=str))
        lines.append(f"VIOLATION property={pid} replay={rp}")
        exit_code = 1
    elif broken:
        h = hashlib.sha256(json.dumps([x["what"] for x in broken]).encode()).hexdigest()[:10]
        rp = VERIF / "replays" / f"{pid}-broken-{h}.json"
        rp.write_text(json.dumps(dict(
            property=pid, kind="no-failing-input-found", seed=seed, tier=tier,
            no_longer_checks=[x["what"] for x in broken], broken=broken,
            searched=dict(cases=len(items), monitor_violations=0),
            replay_cmd=f"cd /verif && ./check {pid} --tier {tier}"), indent=1, default=str))
        lines.append(f"VIOLATION property={pid} replay={rp} no-failing-input-found")
        exit_code = 1

    samples = [dict(case=c, impl_observation=o) for c, o in items[-2:]]
    if items:
        samples.insert(0, dict(case=items[0][0], impl_observation=items[0][1]))
    evidence = dict(
        property_id=pid, tier=tier, seed=seed, level="proof",
        coverage=dict(
            obligations=obligations, discharged=discharged,
            checker_cmd=f"make -C /verif/coq props/{pid}.vo  (coqc 8.16.1, full .vo build; Print Assumptions parsed)",
            trusted_base=BASE_TRUSTED + prop.TRUSTED,
            theorems={f: r["theorems"] for f, r in res.items()},
            print_assumptions=dict(closed_under_global_context=closed, axioms=axioms),
            generated_tables=gen_hashes,
            evaluations=len(items), distinct_nontrivial=nontriv, rule=prop.RULE,
            traces_validated_against_impl=len(items) - len(mism),
            model_impl_mismatches=len(mism), monitor_violations_on_impl=len(viol),
            known_finding_hits={k: v["count"] for k, v in known_hits.items()},
            input_distribution=dist, samples=samples,
            explanation="theorems about coq/model/%s.v; the model is tied to /repo by regenerated tables "
                        "and by running model and implementation on the same cases" % pid,
        ),
        assumptions=prop.ASSUMPTIONS,
        wall_s=round(time.time() - t0, 2),
        violations=len(violations) + (1 if (broken and not violations) else 0),
    )
    (VERIF / "evidence" / f"{pid}.json").write_text(json.dumps(evidence, indent=1, default=str))
    for ln in lines:
        print(ln)
    print(f"{pid} {tier}: obligations {discharged}/{obligations}, cases {len(items)}, "
          f"mismatches {len(mism)}, monitor violations {len(viol)} "
          f"(known {sum(v['count'] for v in known_hits.values())}), {time.time() - t0:.1f}s -> exit {exit_code}")
    return exit_code
