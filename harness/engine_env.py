"""In-process Engine environment for the correspondence drivers: a recording fake hardware, a UOD with
scripted commands, virtual tick times, and instrumentation of Tag writes done from OUTSIDE the source
(monkey patches installed only for the duration of a run)."""
from __future__ import annotations

import contextlib
import logging
from typing import Any

from openpectus.engine.hardware import HardwareLayerBase, HardwareLayerException, Register, RegisterDirection


class RecHW(HardwareLayerBase):
    """memory-backed hardware that records every write and can be told to fail"""

    def __init__(self):
        super().__init__()
        self.mem: dict[str, Any] = {}
        self.write_log: list[tuple[str, Any]] = []
        self.fail_reads = False
        self.fail_writes = False
        self.sink = None            # optional shared event list (interleaves writes with UOD command events)

    def read(self, r: Register):
        if self.fail_reads:
            raise HardwareLayerException("scripted read failure")
        return self.mem.get(r.name, 0)

    def write(self, value, r: Register):
        if self.fail_writes:
            raise HardwareLayerException("scripted write failure")
        self.mem[r.name] = value
        self.write_log.append((r.name, value))
        if self.sink is not None:
            self.sink.append(("hw", r.name, value))

    def connect(self):
        self._is_connected = True

    def disconnect(self):
        self._is_connected = False


def make_uod(cmd_log: list | None = None, outputs_safe=(("Out1", 0.0), ), outputs_plain=("Out2", ), with_acc=True, now_fn=None,
             overlaps=(("CmdB", "CmdC"), ),
             id_in_log=False, default_dur=0):
    """UOD with: input FT01 [L/h], Vol [L] (totalizer), outputs with/without safe value, tags X, Y (plain),
    category tag Cat, commands: Run<k> style scripted commands"""
    from openpectus.lang.exec.uod import UodBuilder, UodCommand
    from openpectus.lang.exec.tags import Tag, TagDirection
    from openpectus.lang.exec.tags_impl import ReadingTag
    log = cmd_log if cmd_log is not None else []

    def mk(name):
        def init_fn(cmd: UodCommand):
            log.append(("init", name, cmd.instance_id if id_in_log else id(cmd)))

        def exec_fn(cmd: UodCommand, value: str = ""):
            n = cmd.get_iteration_count()
            log.append(("exec", name, cmd.instance_id if id_in_log else id(cmd), n))
            arg = (value or "").strip()
            dur = default_dur       # a command given no arguments (a user's button command) runs this long
            fail_at = None
            for part in arg.split():
                if part.startswith("d="):
                    dur = int(part[2:])
                elif part.startswith("f="):
                    fail_at = int(part[2:])
                elif part.startswith("o="):       # o=Out1:3  set output on every execution
                    tname, v = part[2:].split(":")
                    cmd.context.tags[tname].set_value(float(v) + n, now_fn() if now_fn else cmd.context.tags[tname].tick_time)
                    if id_in_log:
                        log.append(("out", tname, float(v) + n))
            if fail_at is not None and n >= fail_at:
                raise ValueError(f"scripted failure of {name}")
            if n >= dur:
                cmd.set_complete()

        def fin_fn(cmd: UodCommand):
            log.append(("final", name, cmd.instance_id if id_in_log else id(cmd)))
        return init_fn, exec_fn, fin_fn

    b = (UodBuilder().with_instrument("VerifUod").with_author("v", "v@example.invalid").with_filename(__file__)
         .with_hardware(RecHW()).with_location("loc")
         .with_hardware_register("FT01", RegisterDirection.Read)
         .with_hardware_register("Vol", RegisterDirection.Read)
         .with_tag(ReadingTag("FT01", "L/h"))
         .with_tag(ReadingTag("Vol", "L"))
         .with_tag(Tag("X", value=0.0, unit=None))
         .with_tag(Tag("Y", value=None, unit=None))
         .with_tag(Tag("TT", value=20.0, unit="degC")))
    for name, safe in outputs_safe:
        b = b.with_hardware_register(name, RegisterDirection.Write, safe_value=safe) \
             .with_tag(Tag(name, value=1.0, unit=None, direction=TagDirection.Output))
    for name in outputs_plain:
        b = b.with_hardware_register(name, RegisterDirection.Write) \
             .with_tag(Tag(name, value=1.0, unit=None, direction=TagDirection.Output))
    for name in ("CmdA", "CmdB", "CmdC"):
        i, e, f = mk(name)
        b = b.with_command(name=name, exec_fn=e, init_fn=i, finalize_fn=f)
    for group in overlaps:          # a command may belong to several overlap groups
        b = b.with_command_overlap(list(group))
    if with_acc:
        b = b.with_accumulated_volume("Vol")
    uod = b.build()
    uod.hwl.connect()
    return uod


class Env:
    """Engine with virtual time. t0 and dt are floats with exact binary representation."""

    def __init__(self, method: str = "", t0: float = 1000.0, dt: float = 0.5, uod=None, enable_archiver=False):
        from openpectus.engine.engine import Engine, EngineTiming
        from openpectus.lang.exec.clock import Clock
        from openpectus.lang.exec.timer import NullTimer
        import openpectus.protocol.models as Mdl
        from openpectus.engine.engine_message_builder import EngineMessageBuilder

        env = self

        class SimClock(Clock):
            def get_time(self) -> float:
                return env.now

        self.now = t0
        self.t0 = t0
        self.dt = dt
        self.cmd_log: list = []
        self.uod = uod if uod is not None else make_uod(self.cmd_log, now_fn=lambda: env.now)
        self.engine = Engine(self.uod, EngineTiming(SimClock(), NullTimer(), dt, 1.0), enable_archiver=enable_archiver)
        self.engine.run(skip_timer_start=True)
        self.Mdl = Mdl
        self.builder = EngineMessageBuilder(self.engine, secret="", ignore_version_error=True)
        self.ticks = 0
        self.tick_error = None
        if method is not None:
            self.set_method(method)

    def set_method(self, pcode: str):
        return self.engine.set_method(self.Mdl.Method.from_pcode(pcode))

    def tick(self, dt: float | None = None):
        d = self.dt if dt is None else dt
        if self.ticks > 0:
            self.now += d
        self.engine.tick(self.now, d if self.ticks > 0 else 0.0)
        self.ticks += 1

    def user(self, name: str):
        self.engine.execute_control_command_from_user(name)

    def start(self):
        self.engine.schedule_execution("Start")

    def report(self, snapshot=False):
        return self.builder.collect_tag_updates(snapshot=snapshot)

    def close(self):
        try:
            self.engine.cleanup()
        except Exception:
            pass


@contextlib.contextmanager
def quiet():
    logging.disable(logging.CRITICAL)
    try:
        yield
    finally:
        logging.disable(logging.CRITICAL)


# ------------------------------------------------------------------ Tag write instrumentation (no source edits)
class TagSpy:
    """Records the primitive operations that reach Tag's core methods (with their arguments, in program
    order), every write to .value / .simulated_value / .simulated of a watched tag that happens OUTSIDE
    them (a raw assignment), Engine.tick and Engine.notify_tag_updates."""

    def __init__(self):
        self.ops: list = []
        self.depth: dict[int, int] = {}
        self.active = False
        self.watched: dict[int, int] = {}      # id(tag) -> index
        self._saved = {}

    def watch(self, engine):
        self.engine = engine
        self.tag_list = list(engine._iter_all_tags())
        self.watched = {id(t): k for k, t in enumerate(self.tag_list)}

    def install(self):
        from openpectus.lang.exec.tags import Tag
        from openpectus.lang.exec.units import convert_value_to_unit
        from openpectus.engine.engine import Engine
        spy = self
        names = ("set_value", "simulate_value", "simulate_value_and_unit", "stop_simulation")
        self._saved = {k: Tag.__dict__[k] for k in names}
        self._saved_setattr = Tag.__dict__.get("__setattr__")
        self._saved_engine = {k: Engine.__dict__[k] for k in ("tick", "notify_tag_updates")}

        def wrap(name, orig):
            def w(tag, *a, **k):
                idx = spy.watched.get(id(tag))
                if spy.active and idx is not None:
                    if name == "set_value":
                        val = a[0] if a else k["val"]
                        stamp = a[1] if len(a) > 1 else k["tick_time"]
                        spy.ops.append(("set", idx, val, stamp))
                    elif name == "simulate_value":
                        val = a[0] if a else k["val"]
                        stamp = a[1] if len(a) > 1 else k["tick_time"]
                        spy.ops.append(("sim", idx, val, stamp))
                    elif name == "simulate_value_and_unit":
                        val, unit = a[0], a[1]
                        stamp = a[2] if len(a) > 2 else k["tick_time"]
                        try:
                            conv = convert_value_to_unit(val, unit, tag.unit)
                            spy.ops.append(("sim", idx, conv, stamp))
                        except Exception:
                            spy.ops.append(("rawflag", idx, True))
                    else:
                        spy.ops.append(("stopsim", idx))
                spy.depth[id(tag)] = spy.depth.get(id(tag), 0) + 1
                try:
                    return orig(tag, *a, **k)
                finally:
                    spy.depth[id(tag)] -= 1
            return w
        for k, orig in self._saved.items():
            setattr(Tag, k, wrap(k, orig))

        def sa(tag, name, val):
            if spy.active and name in ("value", "simulated_value", "simulated"):
                idx = spy.watched.get(id(tag))
                if idx is not None and spy.depth.get(id(tag), 0) == 0:
                    spy.ops.append(({"value": "rawval", "simulated_value": "rawsim", "simulated": "rawflag"}[name], idx, val))
            elif spy.active and name == "tick_time":
                idx = spy.watched.get(id(tag))
                if idx is not None and spy.depth.get(id(tag), 0) == 0:
                    spy.ops.append(("stamp", idx, val))
            object.__setattr__(tag, name, val)
        Tag.__setattr__ = sa

        def tick(engine, tick_time, increment_time):
            if spy.active and engine is spy.engine:
                spy.ops.append(("tick", tick_time))
            return spy._saved_engine["tick"](engine, tick_time, increment_time)

        def notify(engine):
            if spy.active and engine is spy.engine:
                spy.ops.append(("notify",))
            return spy._saved_engine["notify_tag_updates"](engine)
        Engine.tick = tick
        Engine.notify_tag_updates = notify

    def uninstall(self):
        from openpectus.lang.exec.tags import Tag
        from openpectus.engine.engine import Engine
        for k, orig in self._saved.items():
            setattr(Tag, k, orig)
        if self._saved_setattr is None:
            del Tag.__setattr__
        else:
            Tag.__setattr__ = self._saved_setattr
        for k, orig in self._saved_engine.items():
            setattr(Engine, k, orig)


# ------------------------------------------------------------------ generated methods and schedules
def gen_method(rng, max_lines=12, depth=0, allow=("mark", "block", "watch", "sim", "cmd", "wait", "pause", "misc", "alarm")):
    """a valid P-code method over the harness UOD, as a list of lines"""
    lines: list[str] = []
    n = rng.randint(1, max_lines)
    ind = "    " * depth
    k = 0
    while k < n:
        c = rng.choice(allow)
        thr = f"{rng.choice([0.5, 1.0, 1.5, 2.0])} " if rng.random() < 0.15 else ""
        if c == "mark":
            lines.append(f"{ind}{thr}Mark: {rng.choice('ABCDE')}")
        elif c == "block" and depth < 2:
            lines.append(f"{ind}{thr}Block: B{rng.randint(1, 3)}")
            body = gen_method(rng, 4, depth + 1, allow)
            lines += body
            lines.append(f"{ind}    {rng.choice(['End block', 'End block', 'End blocks'])}")
        elif c in ("watch", "alarm") and depth < 2:
            cond = rng.choice(["Run Time > 1 s", "Run Time > 2.5 s", "X > 3", "X < 1", "Block Time > 1 s", "Out1 > 2", "Run Counter > 0"])
            lines.append(f"{ind}{'Watch' if c == 'watch' else 'Alarm'}: {cond}")
            body = gen_method(rng, 3, depth + 1, tuple(a for a in allow if a not in ("alarm", "pause")))
            lines += body
        elif c == "sim":
            lines.append(ind + rng.choice(["Simulate: X = 5", "Simulate: X = 0.5", "Simulate: TT = 30 degC", "Simulate off: X",
                                           "Simulate off: TT", "Simulate: Y = 2", "Simulate off: Y", "Simulate: Out2 = 7"]))
        elif c == "cmd":
            nm = rng.choice(["CmdA", "CmdB", "CmdC"])
            arg = f"d={rng.randint(0, 4)}"
            if rng.random() < 0.5:
                arg += f" o={rng.choice(['Out1', 'Out2', 'X'])}:{rng.randint(2, 6)}"
            lines.append(f"{ind}{thr}{nm}: {arg}")
        elif c == "wait":
            lines.append(f"{ind}Wait: {rng.choice(['0.5 s', '1 s', '1.5 s'])}")
        elif c == "pause":
            lines.append(ind + rng.choice(["Pause: 1 s", "Hold: 1 s", "Pause: 0.5 s"]))
        elif c == "misc":
            lines.append(ind + rng.choice(["Increment run counter", "Base: s", "Noop", "Info: i", "Run counter: 3", "Base: min"]))
        else:
            continue
        k += 1
    return lines
