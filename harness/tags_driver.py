"""Shared driver of C16 and C36: runs the real Engine on a generated method and command schedule with the
Tag spy installed, returns the primitive-operation stream (input of the Coq model) and the real reports."""
from harness.common import z, b, lst, tup
from harness.engine_env import Env, TagSpy, gen_method

T0 = 4294967296.0     # virtual engine clock starts beyond any wall-clock value; exact in binary
DT = 0.5


class Coder:
    """Python values -> integer codes preserving == ; None -> 0"""

    def __init__(self):
        self.reps = []

    def code(self, v):
        if v is None:
            return 0
        for k, r in enumerate(self.reps):
            try:
                if r == v:          # exactly the comparison Tag.set_value makes
                    return k + 1
            except Exception:
                pass
        self.reps.append(v)
        return len(self.reps)


def stamp_code(x):
    return int(round(float(x) * 4))


def gen_case(rng, every_tick: bool):
    lines = gen_method(rng, max_lines=rng.randint(2, 10))
    nticks = rng.randint(8, 40)
    sched = []
    t = rng.randint(2, 10)
    state = "run"
    while t < nticks and rng.random() < 0.7:
        if state == "run":
            a = rng.choice(["Pause", "Hold", "Stop", "Restart", "Pause"])
        elif state == "paused":
            a = rng.choice(["Unpause", "Unpause", "Stop"])
        elif state == "hold":
            a = rng.choice(["Unhold", "Unhold", "Stop"])
        else:
            a = "Start"
        sched.append([t, a])
        state = {"Pause": "paused", "Hold": "hold", "Stop": "stopped", "Restart": "run", "Unpause": "run",
                 "Unhold": "run", "Start": "run"}[a]
        t += rng.randint(1, 8)
    if every_tick:
        collects = [[k, False] for k in range(nticks)]
    else:
        collects = sorted([[k, rng.random() < 0.1] for k in range(nticks) if rng.random() < 0.4])
    return dict(method=lines, ticks=nticks, sched=sched, collects=collects)


def run_case(case):
    spy = TagSpy()
    spy.install()
    env = None
    try:
        env = Env("\n".join(case["method"]) + "\n", t0=T0, dt=DT)
        spy.watch(env.engine)
        tags = spy.tag_list
        coder = Coder()
        init = [[coder.code(t.value), coder.code(t.simulated_value), bool(t.simulated), stamp_code(t.tick_time)] for t in tags]
        env.engine.notify_tag_updates()        # start from empty change sets and an empty queue
        env.builder.collect_tag_updates()
        spy.active = True
        env.start()
        sched = {}
        for t, a in case["sched"]:
            sched.setdefault(t, []).append(a)
        collects = {k: snap for k, snap in case["collects"]}
        reports = []
        ops_coded = []
        errors = []
        for k in range(case["ticks"]):
            for a in sched.get(k, []):
                try:
                    if a == "Start":
                        env.start()
                    else:
                        env.user(a)
                except Exception as e:     # rejected by validation: not an operation
                    errors.append(f"{a}: {type(e).__name__}")
            env.tick()
            if k in collects:
                snap = collects[k]
                spy.ops.append(("collect", snap))
                was = spy.active
                spy.active = False
                res = env.builder.collect_tag_updates(snapshot=snap)
                truth = [t.as_readonly().value for t in tags]
                spy.active = was
                by_name = {str(t.name): i for i, t in enumerate(tags)}
                entries = []
                for tv in res:
                    i = by_name[str(tv.name)]
                    stamp = tv.tick_time
                    if tags[i].tick_time == 0.0:
                        stamp = 0.0          # to_model_tag substitutes the wall clock for an unset stamp
                    entries.append((i, tv.value, stamp))
                reports.append((entries, truth))
        spy.active = False
        # code the op stream
        for o in spy.ops:
            if o[0] == "tick":
                ops_coded.append(["tick", stamp_code(o[1])])
            elif o[0] in ("set", "sim"):
                v = o[2]
                import decimal
                if isinstance(v, decimal.Decimal):
                    v = float(v)
                ops_coded.append([o[0], o[1], coder.code(v), stamp_code(o[3])])
            elif o[0] == "stopsim":
                ops_coded.append(["stopsim", o[1]])
            elif o[0] in ("rawval", "rawsim"):
                ops_coded.append([o[0], o[1], coder.code(o[2])])
            elif o[0] == "rawflag":
                ops_coded.append(["rawflag", o[1], bool(o[2])])
            elif o[0] == "stamp":
                ops_coded.append(["stamp", o[1], stamp_code(o[2])])
            elif o[0] == "notify":
                ops_coded.append(["notify"])
            elif o[0] == "collect":
                ops_coded.append(["collect", bool(o[1])])
        reps_coded = []
        for entries, truth in reports:
            es = sorted([[i, coder.code(v), stamp_code(st)] for i, v, st in entries])
            reps_coded.append([es, [coder.code(v) for v in truth]])
        names = [str(t.name) for t in tags]
        return dict(init=init, ops=ops_coded, reports=reps_coded, names=names, rejected=errors)
    finally:
        spy.uninstall()
        if env is not None:
            env.close()


def input_to_coq(obs):
    init = lst([tup(z(a), z(b_), b(c), z(d)) for a, b_, c, d in obs["init"]])
    ops = []
    for o in obs["ops"]:
        k = o[0]
        if k == "tick":
            ops.append(f"OTick {z(o[1])}")
        elif k == "set":
            ops.append(f"OSet {o[1]}%nat {z(o[2])} {z(o[3])}")
        elif k == "sim":
            ops.append(f"OSim {o[1]}%nat {z(o[2])} {z(o[3])}")
        elif k == "stopsim":
            ops.append(f"OStopSim {o[1]}%nat")
        elif k == "rawval":
            ops.append(f"ORawVal {o[1]}%nat {z(o[2])}")
        elif k == "rawsim":
            ops.append(f"ORawSim {o[1]}%nat {z(o[2])}")
        elif k == "rawflag":
            ops.append(f"ORawFlag {o[1]}%nat {b(o[2])}")
        elif k == "stamp":
            ops.append(f"OStamp {o[1]}%nat {z(o[2])}")
        elif k == "notify":
            ops.append("ONotify")
        elif k == "collect":
            ops.append(f"OCollect {b(o[1])}")
    return f"({init}, {lst(ops)})"


def output_to_coq(obs):
    return lst([tup(lst([f"({i}%nat, {z(v)}, {z(st)})" for i, v, st in es]), lst([z(v) for v in truth]))
                for es, truth in obs["reports"]])
