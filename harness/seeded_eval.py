"""Evaluate the seeded changes under /verif/seeded/<name>/ against the checks:
   for each: /repo must be clean; apply patch.diff; run the demonstration (must fail) and the checks named in
   meta.json (default: the property's quick check); undo; run the demonstration again (must pass).
   Usage: python -m harness.seeded_eval [name ...]   (writes result.json next to each patch; prints a table)"""
import json
import os
import subprocess
import sys
import time
from pathlib import Path

VERIF = Path(__file__).resolve().parent.parent
REPO = Path("/repo")


def sh(cmd, cwd=None, timeout=3600, env=None):
    r = subprocess.run(cmd, shell=True, cwd=cwd, capture_output=True, text=True, timeout=timeout, env=env)
    return r.returncode, r.stdout + r.stderr


def clean():
    rc, out = sh("git status --porcelain --untracked-files=no", cwd=REPO)
    return [ln for ln in out.splitlines() if ln.strip() and "labjack" not in ln.lower()]


def main():
    names = sys.argv[1:] or sorted(p.name for p in (VERIF / "seeded").iterdir() if (p / "patch.diff").exists())
    rows = []
    for name in names:
        d = VERIF / "seeded" / name
        meta = json.loads((d / "meta.json").read_text()) if (d / "meta.json").exists() else {}
        pid = meta.get("property", name.split("-")[0])
        checks = meta.get("checks", [pid])
        demo = sorted(d.glob("demo_*.py"))
        if clean():
            print("repo not clean:", clean())
            return 2
        env = dict(os.environ, PYTHONPATH="/repo", PYTHONHASHSEED="0")
        env.pop("OPEN_PECTUS_VERIF", None)
        res = dict(name=name, property=pid)
        rc, out = sh(f"git apply {d / 'patch.diff'}", cwd=REPO)
        if rc != 0:
            res["apply"] = out[-500:]
            rows.append(res)
            sh("git checkout -- .", cwd=REPO)
            continue
        try:
            if demo:
                rc, out = sh(f"/venv/bin/python {demo[0]}", cwd=REPO, env=env, timeout=600)
                res["demo_with_change_exit"] = rc
            res["checks"] = {}
            for c in checks:
                t0 = time.time()
                rc, out = sh(f"./check {c} --tier quick", cwd=VERIF, timeout=3600)
                lines = [ln for ln in out.splitlines() if ln.startswith(("VIOLATION", "KNOWN-FINDING", c))]
                res["checks"][c] = dict(exit=rc, wall_s=round(time.time() - t0, 1), lines=lines[-4:])
                viol = [ln for ln in lines if ln.startswith("VIOLATION")]
                if viol and "replay=" in viol[0]:
                    rp = viol[0].split("replay=")[1].split()[0]
                    try:
                        data = json.loads(Path(rp).read_text())
                        res["checks"][c]["replay_kind"] = data.get("kind")
                        res["checks"][c]["replay_case"] = json.dumps(data.get("case"))[:600] if "case" in data else None
                        res["checks"][c]["no_longer_checks"] = data.get("no_longer_checks")
                    except Exception:
                        pass
        finally:
            sh("git checkout -- .", cwd=REPO)
        if demo:
            rc, out = sh(f"/venv/bin/python {demo[0]}", cwd=REPO, env=env, timeout=600)
            res["demo_without_change_exit"] = rc
        # restore evidence/replays of the unchanged tree
        for c in checks:
            sh(f"./check {c} --tier quick", cwd=VERIF, timeout=3600)
        (d / "result.json").write_text(json.dumps(res, indent=1))
        rows.append(res)
        detected = {c: v["exit"] for c, v in res.get("checks", {}).items()}
        print(name, "demo(with)=", res.get("demo_with_change_exit"), "demo(without)=", res.get("demo_without_change_exit"),
              "checks:", detected, flush=True)
    return 0


if __name__ == "__main__":
    sys.exit(main())
