import json

from harness.common import Prop
from harness import tags_driver as T
from harness.translate_sites import translate


class C36(Prop):
    ID = "C36"
    COQ_IMPORTS = "From OP Require Import model.Tags."
    DESIGN_REF = "DESIGN.md §7 C36"
    EVERY_TICK = False
    LEVEL_TEXT = ("Coq theorems about an executable model of Tag.set_value/simulate_value/stop_simulation, raw field "
                  "assignments, Engine.notify_tag_updates and collect_tag_updates: for ALL operation sequences without raw "
                  "assignments every tag whose value differs from the last reported one is in the next report with its "
                  "current value (invariant by induction over operations), no report has duplicates and a snapshot lists "
                  "every tag; the table of raw assignment sites is regenerated from the source and proved empty.")
    LEVEL_NOTE = ("Theorems are about coq/model/Tags.v. Ties: (1) gen/Sites.v regenerated from the AST of openpectus/engine "
                  "and openpectus/lang/exec (raw assignments to a tag's value fields outside Tag's notifying methods); "
                  "(2) the real Engine is run on generated methods and command schedules with a spy (monkey patches, no "
                  "source edit) that records every primitive tag operation; the Coq model replays that operation stream "
                  "and must produce the same reports and the same tag values; (3) the Coq monitor checks completeness on "
                  "the real reports against the real tag values. No axioms.")
    TECHNIQUE = "Coq proof (invariant over tag operations) + regenerated site table + operation-stream correspondence with the real Engine"
    RULE = ("generated methods (Mark, Block, Watch, Alarm, Simulate/Simulate off, UOD commands writing outputs, Wait, Pause, "
            "Hold, counters) x user command schedules (Pause/Hold/Stop/Restart/Start...) with reports taken after arbitrary "
            "ticks, some as snapshots; non-trivial = at least 3 reports and a changed tag other than the clocks; distinct by "
            "canonical JSON of the case")
    QUICK_N = 150
    THOROUGH_N = 4000
    SHARD = 25
    TRUSTED = ["the Tag spy (harness/engine_env.py TagSpy) records every call of Tag's four core methods and every "
               "assignment to value/simulated_value/simulated of an engine tag outside them",
               "value coding: Python values are mapped to integers preserving == (None -> 0)"]
    ASSUMPTIONS = ["simulated values are never None (C36_complete hypothesis)",
                   "reports are taken between ticks (the engine runner's send loop reads the queue that "
                   "notify_tag_updates filled)"]

    def __init__(self):
        self._obs = {}

    def translators(self):
        return [("sites", translate)]

    def gen_cases(self, rng, n, tier):
        return [T.gen_case(rng, self.EVERY_TICK) for _ in range(n)]

    def run_impl(self, case):
        obs = T.run_case(case)
        self._obs[json.dumps(case, sort_keys=True)] = obs
        return dict(reports=obs["reports"], n_ops=len(obs["ops"]), rejected=obs["rejected"],
                    raw_ops=sum(1 for o in obs["ops"] if o[0].startswith("raw")))

    def case_to_coq(self, case):
        return T.input_to_coq(self._obs[json.dumps(case, sort_keys=True)])

    def obs_to_coq(self, obs):
        return T.output_to_coq(obs)

    def nontrivial(self, case, obs):
        changed = set()
        for es, _ in obs["reports"]:
            changed |= {e[0] for e in es}
        return len(obs["reports"]) >= 3 and len(changed - {3, 4, 5}) >= 1

    def kind(self, case, obs):
        return f"reports={min(len(obs['reports']), 20) // 5 * 5}+,cmds={len(case['sched'])}"

    def size(self, case):
        return len(case["method"]) * 10 + case["ticks"]


PROP = C36()
