from harness.common import Prop, z, lst, tup, zl


class C25(Prop):
    ID = "C25"
    DESIGN_REF = "DESIGN.md §7 C25"
    LEVEL_TEXT = ("Coq theorems about an executable model of Composite_Hardware.read_batch/write_batch for ALL layer "
                  "assignments, register lists (duplicates included) and values, and all sequences of batches: reads "
                  "equal single reads in order, layer memories equal those after single writes, each layer receives its "
                  "sub-sequence for duplicate-free batches.")
    LEVEL_NOTE = ("Theorems are about coq/model/C25.v (fake layers = memory + call log); tie = real Composite_Hardware "
                  "over recording fake layers run on the same operation sequences (read results, per-layer call log, "
                  "final memories compared). No axioms.")
    TECHNIQUE = "Coq proof (association-list refinement to one-at-a-time reads/writes) + model/implementation correspondence"
    RULE = ("2-8 registers assigned to 1-4 layers, sequences of 1-8 batch reads/writes with random orders, repeated "
            "registers within and across batches, values that recur (a batch may rewrite an earlier value), single "
            "read/write calls and device-side changes between batches, occasional unequal lengths; non-trivial = at least 2 layers used and "
            "a read after a write; distinct by canonical JSON")
    QUICK_N = 2000
    THOROUGH_N = 50000
    TRUSTED = ["fake layers (dict memory, ordered call log) stand for real hardware layers",
               "Python dict keyed by Register objects (identity hash)"]
    ASSUMPTIONS = ["a layer's read_batch returns its stored values, write_batch stores values in order"]

    def gen_cases(self, rng, n, tier):
        out = []
        for _ in range(n):
            nreg = rng.randint(2, 8)
            nlay = rng.randint(1, 4)
            lay = [rng.randrange(nlay) for _ in range(nreg)]
            ops = []
            v = 0
            small = rng.random() < 0.6
            for _ in range(rng.randint(1, 8)):
                k = rng.randint(0, 6)
                if rng.random() < 0.6:
                    regs = rng.sample(range(nreg), min(k, nreg))
                else:
                    regs = [rng.randrange(nreg) for _ in range(k)]
                x = rng.random()
                if x < 0.4:
                    ops.append(["R", regs])
                elif x < 0.75:
                    nv = len(regs) if rng.random() < 0.9 else max(0, len(regs) + rng.choice([-1, 1]))
                    vals = []
                    for _ in range(nv):
                        if small:
                            vals.append(rng.randint(1, 3))      # values recur: a write may repeat an earlier one
                        else:
                            v += 1
                            vals.append(v)
                    ops.append(["W", vals, regs])
                elif x < 0.83:
                    ops.append(["R1", rng.randrange(nreg)])
                elif x < 0.92:
                    ops.append(["W1", rng.randint(1, 3) if small else 100 + len(ops), rng.randrange(nreg)])
                else:
                    ops.append(["X", rng.randint(1, 3) if small else 200 + len(ops), rng.randrange(nreg)])
            out.append([lay, ops])
        return out

    def run_impl(self, case):
        from openpectus.engine.composite_hardware import Composite_Hardware
        from openpectus.engine.hardware import HardwareLayerBase, Register, RegisterDirection
        lay, ops = case
        log = []

        class Fake(HardwareLayerBase):
            def __init__(self, idx):
                super().__init__()
                self.idx = idx
                self.mem = {}

            def read(self, r):
                return self.mem.get(r.name, -(int(r.name) + 1))

            def write(self, value, r):
                self.mem[r.name] = value

            def read_batch(self, registers):
                return [self.read(r) for r in registers]

            def write_batch(self, values, registers):
                values = list(values)
                registers = list(registers)
                log.append([self.idx, [[int(r.name), v] for v, r in zip(values, registers)]])
                for v, r in zip(values, registers):
                    self.write(v, r)

        layers = [Fake(i) for i in range(max(lay) + 1)]
        regs = [Register(str(i), RegisterDirection.Both, hardware=layers[lay[i]]) for i in range(len(lay))]
        hwl = Composite_Hardware()
        hwl._registers = {r.name: r for r in regs}
        outs = []
        for o in ops:
            if o[0] == "R":
                outs.append(list(hwl.read_batch([regs[i] for i in o[1]])))
            elif o[0] == "W":
                hwl.write_batch(o[1], [regs[i] for i in o[2]])
                outs.append([])
            elif o[0] == "R1":
                outs.append([hwl.read(regs[o[1]])])
            elif o[0] == "W1":
                hwl.write(o[1], regs[o[2]])
                outs.append([])
            else:
                layers[lay[o[2]]].write(o[1], regs[o[2]])
                outs.append([])
        mem = [layers[lay[i]].read(regs[i]) for i in range(len(lay))]
        return [outs, log, mem]

    def case_to_coq(self, case):
        lay, ops = case

        def nl(xs):
            return lst([f"{x}%nat" for x in xs])

        def op(o):
            if o[0] == "R1":
                return f"Read1 {o[1]}%nat"
            if o[0] == "W1":
                return f"Write1 {z(o[1])} {o[2]}%nat"
            if o[0] == "X":
                return f"Ext {z(o[1])} {o[2]}%nat"
            return f"Read {nl(o[1])}" if o[0] == "R" else f"Write {zl(o[1])} {nl(o[2])}"
        return tup(nl(lay), lst([op(o) for o in ops]))

    def obs_to_coq(self, obs):
        outs, log, mem = obs
        return tup(lst([zl(o) for o in outs]),
                   lst([tup(f"{L}%nat", lst([tup(f"{r}%nat", z(v)) for r, v in ws])) for L, ws in log]),
                   zl(mem))

    def nontrivial(self, case, obs):
        lay, ops = case
        if len(set(lay)) < 2:
            return False
        seen_w = False
        for o in ops:
            if o[0] in ("W", "W1", "X") and o[1] and (o[0] != "W" or o[2]):
                seen_w = True
            if o[0] in ("R", "R1") and seen_w and (o[0] == "R1" or o[1]):
                return True
        return False

    def kind(self, case, obs):
        dup = any(len(set(o[-1])) < len(o[-1]) for o in case[1] if o[0] in ("R", "W"))
        return f"layers={len(set(case[0]))},dups={dup}"


PROP = C25()
