import csv
import datetime
import io

from harness.common import Prop, z, lst, tup, opt


class C34(Prop):
    ID = "C34"
    DESIGN_REF = "DESIGN.md §7 C34"
    LEVEL_TEXT = ("Coq theorems about an executable model of csv_generator (_write_header_row sort, _get_tick_times, "
                  "_write_data_rows cursor) for ALL plot logs: row times strictly increasing, each cell equals the "
                  "sample-and-hold specification. Model and real generate_csv_string are run on the same plot logs.")
    LEVEL_NOTE = ("Theorems are about coq/model/C34.v; tie = differential run against generate_csv_string (CSV text "
                  "parsed back with csv.reader) + Coq monitor on the implementation output. No axioms.")
    TECHNIQUE = "Coq proof (cursor invariant over sorted samples) + model/implementation correspondence"
    RULE = ("plot logs of 1-4 tags x 0-8 samples, times in 0..6 (interleaved, late starting, repeated, unsorted), "
            "values distinct per sample; non-trivial = at least two tags, one of which starts later than the first "
            "row or has a repeated time or is unsorted; distinct by canonical JSON")
    QUICK_N = 2500
    THOROUGH_N = 60000
    TRUSTED = ["csv.writer/csv.reader round trip of integers and empty cells; pydantic DTO construction"]
    ASSUMPTIONS = ["tick times are integral floats (exact comparison); values are integers so that cells can be read back"]

    def gen_cases(self, rng, n, tier):
        out = []
        for _ in range(n):
            ntags = rng.randint(1, 4)
            entries = []
            v = 0
            for _ in range(ntags):
                k = rng.choice([0, 1, 2, 3, 3, 4, 5, 8])
                start = rng.choice([0, 0, 1, 2, 3])
                mode = rng.random()
                t = start
                vals = []
                for _ in range(k):
                    v += 1
                    if mode < 0.6:
                        vals.append([t, v])
                        t += rng.choice([0, 1, 1, 2])
                    else:
                        vals.append([rng.randint(0, 6), v])
                entries.append(vals)
            out.append(entries)
        return out

    def run_impl(self, case):
        from openpectus.aggregator.csv_generator import generate_csv_string, _get_tick_times
        import openpectus.aggregator.routers.dto as Dto
        entries = {}
        for i, vals in enumerate(case):
            entries[f"T{i}"] = Dto.PlotLogEntry(
                name=f"T{i}", value_type=Dto.ProcessValueType.INT, value_unit=None,
                values=[Dto.PlotLogEntryValue(value=v, tick_time=float(t)) for t, v in vals])
        pl = Dto.PlotLog(entries=entries)
        times = _get_tick_times(pl.model_copy(deep=True))      # row times as the code computes them
        assert all(t == int(t) for t in times)
        times = [int(t) for t in times]
        now = datetime.datetime(2020, 1, 1)
        rr = Dto.RecentRun(engine_id="e", run_id="r", started_date=now, completed_date=now, uod_name="u",
                           uod_filename="f", uod_author_name="a", uod_author_email="m", engine_computer_name="c",
                           engine_version="1", engine_hardware_str="h", aggregator_computer_name="ac",
                           aggregator_version="1", contributors=[])
        text = generate_csv_string(pl, rr).getvalue()
        rows = list(csv.reader(io.StringIO(text)))
        idx = rows.index([])           # blank line after the metadata
        header = rows[idx + 1]
        assert header == [f"T{i}" for i in range(len(case))], header
        data = rows[idx + 2:]
        # the row time is not in the file: rows correspond, in order, to the sorted unique times
        assert len(times) == len(data), (times, data)
        return [[t, [None if c == "" else int(c) for c in r]] for t, r in zip(times, data)]

    def case_to_coq(self, case):
        return lst([lst([tup(z(t), z(v)) for t, v in vals]) for vals in case])

    def obs_to_coq(self, obs):
        return lst([tup(z(t), lst([opt(c) for c in r])) for t, r in obs])

    def nontrivial(self, case, obs):
        if len(case) < 2:
            return False
        firsts = [min(t for t, _ in v) for v in case if v]
        late = len(set(firsts)) > 1
        rep = any(len({t for t, _ in v}) < len(v) for v in case)
        uns = any([t for t, _ in v] != sorted(t for t, _ in v) for v in case)
        return late or rep or uns

    def kind(self, case, obs):
        return f"tags={len(case)},rows={min(len(obs), 7)}"


PROP = C34()
