"""C14 (interpreter level): code injected through the real PInterpreter.inject_node at generated ticks vs the Coq model
(model/C14.v over model/Interp.v): the snippets are detached subtrees of the node table."""
import json

from harness.common import Prop, lst
from harness import interp_driver as ID
from harness.interp_common import gen_interp_case, program_coq, ticks_coq, view_coq, nat

SNIPPETS_PLAIN = [["Mark: I"], ["Wait: 0.5 s"], ["CmdA: d=0"], ["Mark: I", "Mark: J"], ["Wait: 1 s", "Mark: K"], ["Noop: 2"],
                  ["CmdB: d=0", "Wait: 0.5 s"], ["Watch: X > 1", "    Mark: L"], ["Mark: I", "", "Mark: M"], ["Notify: n"]]
SNIPPETS_BLOCK = [["Block: J1", "    Mark: I", "    End block"], ["Block: J2", "    Wait: 0.5 s", "    End block", "Mark: N"],
                  ["End block"], ["End blocks"], ["Foo: 1"], ["Block: J3", "    Mark: O"]]


def run_case(case):
    run = ID.Run(case["lines"])
    try:
        e = run.env.engine
        views = []
        roots = []
        n0 = len(run.table)
        for op in case["ticks"]:
            for k in op.get("complete", []):
                node = run.table[k][0]
                if node.started and not node.completed and type(node).__name__ in ("UodCommandNode", "EngineCommandNode"):
                    run.interp.tracking.mark_completed(node)
            inj = []
            for snippet in op.get("inject", []):
                prog = e.method_manager.parse_inject_code("\n".join(snippet) + "\n")
                e.method_manager._apply_analysis(prog) if hasattr(e.method_manager, "_apply_analysis") else None
                run.interp.inject_node(prog)
                root = list(run.interp.interrupts)[-1].node
                assert type(root).__name__ == "InjectedNode"
                base = len(run.table)

                def walk(n, parent):
                    k = len(run.table)
                    run.table.append([n, parent])
                    for c in (getattr(n, "children", None) or []):
                        walk(c, k)
                walk(root, None)
                run.index = {id(n): k for k, (n, _) in enumerate(run.table)}
                run.byid = {n.id: k for k, (n, _) in enumerate(run.table)}
                inj.append(base)
            roots.append(inj)
            views.append(run.tick(dict(op, complete=[])))
        total = len(run.table)
        pad = [False, False, False, 0, False, False, False, False, False, 0]
        for v in views:
            v["nodes"] = v["nodes"] + [list(pad) for _ in range(total - len(v["nodes"]))]
        return dict(table=ID.describe(run.table), views=views, roots=roots, n0=n0)
    finally:
        run.close()


def gen_case(rng):
    c = gen_interp_case(rng)
    plain = rng.random() < 0.7
    pool = SNIPPETS_PLAIN if plain else SNIPPETS_PLAIN + SNIPPETS_BLOCK + SNIPPETS_BLOCK
    n = 0
    for op in c["ticks"]:
        op["inject"] = []
        if n < 3 and rng.random() < 0.1:
            # block names are unique per injection: the observation of the Block tag identifies a block by its name
            op["inject"].append([ln.replace("Block: J", f"Block: J{n}_") for ln in rng.choice(pool)])
            n += 1
    # conditions of injected Watches are scripted like the others: by node index, known only after injection -> the
    # harness lets them be true from the third tick after injection on (see case_to_coq / run_case use of cond_true)
    return c


class C14(Prop):
    ID = "C14"
    DESIGN_REF = "DESIGN.md §7 C14"
    COQ_IMPORTS = "From OP Require Import model.Interp model.InterpRun."
    SHARD = 50
    QUICK_N = 300
    THOROUGH_N = 8000
    LEVEL_TEXT = ("PARTIAL (interpreter level). Coq theorems about the interpreter model extended with injected snippets "
                  "(detached subtrees with an InjectedNode root): the injection itself touches no line; in EVERY run with any "
                  "injections at any ticks a line outside Alarm bodies -- of the method or of a snippet -- that has started "
                  "stays started and one that has completed stays completed (it runs at most once), and a started line -- of the "
                  "method or of a snippet -- lies in a scope that has started (the snippet's lines run inside the snippet's own "
                  "scopes, no injection starts a method line outside its scope: stack invariant carried through the "
                  "injections; likewise a Watch body runs only after activation and a Block body only with the lock; hypotheses wf_b and parentless injected roots, evaluated by the monitor on every case). That a snippet without "
                  "blocks leaves the method lines exactly where an injection-free run has them is decided by the Coq monitor; "
                  "one clause is refuted (an injected Block can never be ended: known finding). Not covered: Pause / Hold, the "
                  "command manager, live edits (they drop unfinished injected code: same defect family as C01).")
    LEVEL_NOTE = ("Theorems are about coq/model/C14.v over model/Interp.v (new kind KInjected / frame FInjAfter; locked_blocks "
                  "restricted to the method tree as ProgramNode.get_locked_blocks is). Tie: generated methods run on the real "
                  "PInterpreter under a scripted environment; at generated ticks snippets are parsed by the real "
                  "parse_inject_code and injected with the real PInterpreter.inject_node; the injected nodes are appended to "
                  "the node table and compared with the model after EVERY tick like all other nodes. The Coq monitor runs, "
                  "inside Coq, the model WITHOUT the injections on the same ticks and demands that the observed method lines "
                  "have the same started / completed flags tick by tick (snippets without Block / End block(s) / invalid "
                  "lines), that snippets are inert before injection, run once, and that End block in an injected Block ends "
                  "it. While building this check the guard of /repo fix bd56ff75 turned out to drop injected code when the "
                  "main flow sat in a just-ended block; corrected in c83d6c0a.")
    TECHNIQUE = "Coq proof (injection touches no line; per-node monotonicity lifted to runs with injections) + tick-by-tick correspondence with the real PInterpreter.inject_node + Coq monitor comparing with the model's injection-free run"
    RULE = ("methods and environments as for C05; up to 3 injections per run at random ticks (10% per tick); 70% of the runs "
            "use only plain snippets (10 shapes: Mark, Wait, UOD commands, Noop, Notify, a Watch, blank lines), the others "
            "also Block ... End block, a Block without end, bare End block / End blocks, an invalid line; non-trivial = an "
            "injected snippet completed; distinct by canonical JSON")

    def classify(self, case, obs):
        """known: an `End block` of an injected Block has completed but that block has not ended (get_locked_blocks does not
        see injected blocks) -- every failing clause must be that one"""
        tab = obs["table"]

        def anc(n):
            out = []
            while tab[n]["parent"] is not None:
                n = tab[n]["parent"]
                out.append(n)
            return out
        injected = lambda n: tab[(anc(n) or [n])[-1]]["kind"][0] == "KInjected"
        seen = False
        for v in obs["views"]:
            nd = v["nodes"]
            for n, t in enumerate(tab):
                if t["kind"][0] == "KEndBlock" and injected(n) and nd[n][1]:
                    blocks = [a for a in anc(n) if tab[a]["kind"][0] == "KBlock"]
                    if blocks and not nd[blocks[0]][6]:
                        seen = True
        # the other clauses are re-checked by the monitor; a run is explained only if it has such an End block and no
        # plain-snippet comparison applies (snippets with blocks are exempt from the tick-by-tick comparison)
        plain = not any(t["kind"][0] in ("KBlock", "KEndBlock", "KEndBlocks", "KError") and injected(n) for n, t in enumerate(tab))
        return "C14-injected-block-cannot-be-ended" if seen and not plain else None

    def __init__(self):
        self._obs = {}

    def gen_cases(self, rng, n, tier):
        return [gen_case(rng) for _ in range(n)]

    def run_impl(self, case):
        o = run_case(case)
        self._obs[json.dumps(case, sort_keys=True)] = o
        return o

    def case_to_coq(self, case):
        o = self._obs.get(json.dumps(case, sort_keys=True)) or self.run_impl(case)
        rows = []
        for t, inj in zip(case["ticks"], o["roots"]):
            rows.append("{| j_tick := %s; j_inject := %s |}" % (ticks_coq([t])[1:-1], lst([nat(r) for r in inj])))
        return f"({program_coq(o['table'])}, {lst(rows)})"

    def obs_to_coq(self, obs):
        return lst([view_coq(v) for v in obs["views"]])

    def nontrivial(self, case, obs):
        last = obs["views"][-1]["nodes"]
        return any(obs["roots"]) and any(last[r][1] for inj in obs["roots"] for r in inj)

    def kind(self, case, obs):
        n = sum(len(x) for x in obs["roots"])
        done = sum(1 for inj in obs["roots"] for r in inj if obs["views"][-1]["nodes"][r][1])
        return f"injected={n},completed={done}"

    def size(self, case):
        return len(case["lines"]) + len(case["ticks"])


PROP = C14()
