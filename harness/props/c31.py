import asyncio
from unittest.mock import Mock

from harness.common import Prop, z, lst, tup, b
from harness import agg_env


class C31(Prop):
    ID = "C31"
    DESIGN_REF = "DESIGN.md §7 C31"
    LEVEL_TEXT = ("Coq invariant over ALL schedules of any number of concurrent save_method calls and engine replies "
                  "(transition system whose steps are the atomic sections between awaits): accepted saves have "
                  "strictly increasing base versions (at most one per base), a save is accepted only on the current "
                  "version, and each accepted save moves the version by exactly one. Proved for the repaired code.")
    LEVEL_NOTE = ("Theorems are about coq/model/C31.v (asyncio.Lock as a FIFO queue); tie = the real "
                  "FromFrontend.save_method coroutines on a real asyncio loop whose only suspension points are "
                  "harness-owned rpc futures and the lock, driven by the same schedules. asyncio's scheduling of "
                  "ready tasks is trusted to interleave only at awaits. No axioms.")
    TECHNIQUE = "Coq proof (invariant by induction over schedules) + model/implementation correspondence on a controlled event loop"
    RULE = ("schedules of 2-4 concurrent saves (bases current, stale or ahead) with replies ok/error in every order; "
            "non-trivial = two saves on the same base are in flight or queued together; distinct by canonical JSON; "
            "quick enumerates all interleavings of two saves as well")
    QUICK_N = 600
    THOROUGH_N = 12000
    TRUSTED = ["asyncio event loop and asyncio.Lock (FIFO wake-up)", "the engine round-trip is a fake dispatcher future"]
    ASSUMPTIONS = ["one engine; the engine's reply is ok or an error message"]

    def gen_cases(self, rng, n, tier):
        out = []
        # exhaustive: two saves, all bases in {v, v+1}, all orders of start/reply, all outcomes
        v = 5
        for b0 in (5, 6):
            for b1 in (5, 6):
                for ok0 in (True, False):
                    for ok1 in (True, False):
                        for order in ([("S", 0), ("S", 1), ("R", 0), ("R", 1)], [("S", 0), ("R", 0), ("S", 1), ("R", 1)],
                                      [("S", 1), ("S", 0), ("R", 1), ("R", 0)], [("S", 0), ("S", 1), ("R", 1), ("R", 0)]):
                            ops = []
                            for k, i in order:
                                if k == "S":
                                    ops.append(["Start", i, b0 if i == 0 else b1])
                                else:
                                    ops.append(["Reply", i, ok0 if i == 0 else ok1])
                            out.append([v, 2, ops])
        for _ in range(n):
            ntask = rng.randint(2, 4)
            v0 = rng.randint(0, 3)
            ops = []
            started = []
            replied = set()
            pending = list(range(ntask))
            rng.shuffle(pending)
            cur = v0
            while pending or len(replied) < len(started):
                if pending and (rng.random() < 0.55 or len(replied) == len(started)):
                    i = pending.pop()
                    ops.append(["Start", i, rng.choice([cur, cur, cur, cur + 1, max(0, cur - 1)])])
                    started.append(i)
                else:
                    cand = [i for i in started if i not in replied]
                    i = rng.choice(cand)
                    ok = rng.random() < 0.75
                    ops.append(["Reply", i, ok])
                    replied.add(i)
                    if ok:
                        cur += 1      # only a guess of the version; bases stay plausible
            out.append([v0, ntask, ops])
        return out

    def run_impl(self, case):
        return agg_env.run(self._run(case))

    async def _run(self, case):
        import openpectus.aggregator.models as Mdl
        import openpectus.protocol.messages as M
        import openpectus.protocol.aggregator_messages as AM
        from openpectus.aggregator.aggregator import FromFrontend
        from openpectus.aggregator.exceptions import AggregatorCallerException, AggregatorInternalException
        v0, ntask, ops = case
        ed = agg_env.engine_data("E")
        ed.method = Mdl.Method(lines=[], version=v0, last_author="x")
        loop = asyncio.get_running_loop()
        futures = {}
        rpc_log = []

        class Disp:
            async def rpc_call(self, engine_id, message):
                assert isinstance(message, AM.MethodMsg)
                # which task is this? the save whose method object we handed in
                i = message.method.last_author
                rpc_log.append([int(i), message.method.version])
                fut = loop.create_future()
                futures[int(i)] = fut
                return await fut

        ff = FromFrontend({"E": ed}, Disp(), agg_env.publisher_mock(), Mock())
        tasks = {}
        status = {}

        async def quiesce():
            for _ in range(12):
                await asyncio.sleep(0)

        def codes():
            out = []
            for i in range(ntask):
                if i not in tasks:
                    out.append(0)
                elif not tasks[i].done():
                    out.append(2 if i in futures else 1)
                else:
                    ex = tasks[i].exception()
                    if ex is None:
                        out.append(10 + tasks[i].result())
                    elif isinstance(ex, AggregatorCallerException) and "version mismatch" in str(ex):
                        out.append(3)
                    else:
                        out.append(4)
            return out

        obs = []
        for o in ops:
            if o[0] == "Start":
                i, base = o[1], o[2]
                m = Mdl.Method(lines=[], version=base, last_author=str(i))
                tasks[i] = loop.create_task(ff.save_method("E", m, Mdl.Contributor(id=None, name=f"u{i}")))
            else:
                i, ok = o[1], o[2]
                fut = futures.get(i)
                if fut is not None and not fut.done():
                    fut.set_result(AM.SuccessMessage() if ok else M.ErrorMessage(message="engine says no"))
            await quiesce()
            obs.append([ed.method.version, codes(), [list(x) for x in rpc_log]])
        for t in tasks.values():
            if not t.done():
                t.cancel()
        await quiesce()
        return obs

    def case_to_coq(self, case):
        v0, ntask, ops = case

        def op(o):
            if o[0] == "Start":
                return f"Start {o[1]}%nat {z(o[2])}"
            return f"Reply {o[1]}%nat {b(o[2])}"
        return tup(z(v0), f"{ntask}%nat", lst([op(o) for o in ops]))

    def obs_to_coq(self, obs):
        return lst([tup(z(v), lst([z(c) for c in cs]), lst([tup(f"{i}%nat", z(nv)) for i, nv in log])) for v, cs, log in obs])

    def nontrivial(self, case, obs):
        # two saves with equal base both started before the first of them was answered
        ops = case[2]
        open_ = {}
        for o in ops:
            if o[0] == "Start":
                if o[2] in open_.values():
                    return True
                open_[o[1]] = o[2]
            else:
                open_.pop(o[1], None)
        return False

    def kind(self, case, obs):
        return f"tasks={case[1]}"


PROP = C31()
