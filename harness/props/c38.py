from harness.common import Prop, z, lst, tup, s, b
from harness import agg_env

ALPHA = ["a", "b", "_", "/", " ", "%", "é"]


class C38(Prop):
    ID = "C38"
    DESIGN_REF = "DESIGN.md §7 C38"
    LEVEL_TEXT = ("Coq theorems about the engine-id function quote(computer+'_'+uod) and the registration/connection "
                  "gate: the full injectivity statement is REFUTED in Coq (witness replayed on the code: known "
                  "finding), the exact collision class and injectivity for computer names without '_' are proved, and "
                  "no history of register/connect/disconnect lets a registration take over a connected id "
                  "(invariant by induction over histories).")
    LEVEL_NOTE = ("Theorems are about coq/model/C38.v with urllib.parse.quote as a Section variable assumed injective; "
                  "tie = real Aggregator/AggregatorDispatcher/handle_RegisterEngineMsg run on the same histories, "
                  "real id strings compared for equality. No axioms.")
    TECHNIQUE = "Coq proof (refutation witness, partial injectivity, history invariant) + model/implementation correspondence"
    RULE = ("tables of 2-3 (computer, uod) name pairs over the alphabet {a,b,_,/,space,%,e-acute} with lengths 0-3 "
            "(biased towards separator collisions) x histories of <= 8 register/connect/disconnect operations; "
            "non-trivial = some registration arrives while an engine is connected; distinct by canonical JSON")
    QUICK_N = 1500
    THOROUGH_N = 40000
    TRUSTED = ["urllib.parse.quote is injective (Section hypothesis; the correspondence compares real ids)",
               "AggregatorDispatcher channel bookkeeping is driven through its real methods with Mock channels"]
    ASSUMPTIONS = ["quote injective", "engine names as delivered in RegisterEngineMsg"]

    def setup(self):
        agg_env.fresh_db()

    def rand_name(self, rng):
        return "".join(rng.choice(ALPHA) for _ in range(rng.choice([0, 1, 1, 2, 2, 3])))

    def gen_cases(self, rng, n, tier):
        out = []
        for _ in range(n):
            k = rng.choice([2, 3])
            names = []
            for _ in range(k):
                r = rng.random()
                if names and r < 0.25:       # collision through the separator
                    c, u = rng.choice(names)
                    j = c + "_" + u
                    cuts = [i for i, ch in enumerate(j) if ch == "_"]
                    i = rng.choice(cuts)
                    names.append([j[:i], j[i + 1:]])
                elif names and r < 0.35:
                    names.append(list(rng.choice(names)))
                else:
                    names.append([self.rand_name(rng), self.rand_name(rng)])
            ops = []
            for _ in range(rng.randint(1, 8)):
                p = rng.randrange(k)
                r = rng.random()
                if r < 0.45:
                    ops.append(["Reg", p, rng.random() < 0.9, rng.random() < 0.8, rng.random() < 0.5])
                elif r < 0.8:
                    ops.append(["Conn", p])
                else:
                    ops.append(["Disc", p])
            out.append([names, ops])
        return out

    def run_impl(self, case):
        import openpectus.protocol.engine_messages as EM
        from openpectus import __version__
        names, ops = case
        dispatcher, aggregator, _h = agg_env.make_aggregator(secret="s")

        def msg(p, sec=True, ver=True, ign=False):
            c, u = names[p]
            return EM.RegisterEngineMsg(computer_name=c, uod_name=u, uod_author_name="a", uod_author_email="e",
                                        uod_filename="f", location="l",
                                        engine_version=__version__ if ver else "0.0.0-x",
                                        secret="s" if sec else "wrong", ignore_version_error=ign)
        ids = [aggregator.create_engine_id(msg(p)) for p in range(len(names))]
        mat = [ids[i] == ids[j] for i in range(len(ids)) for j in range(i + 1, len(ids))]
        chan = {}
        res = []
        for o in ops:
            if o[0] == "Reg":
                reply = agg_env.run(dispatcher._register_handler(msg(o[1], o[2], o[3], o[4])))
                res.append(bool(reply.success))
            elif o[0] == "Conn":
                p = o[1]
                ch = agg_env.channel_mock(ids[p])
                agg_env.run(dispatcher._on_delayed_client_connect(ch))
                ok = not ch.close.called
                if ok:
                    chan[p] = ch
                res.append(ok)
            else:
                p = o[1]
                ch = chan.pop(p, None) or agg_env.channel_mock(ids[p])
                before = len(dispatcher._engine_id_channel_map)
                agg_env.run(dispatcher.on_client_disconnect(ch))
                res.append(len(dispatcher._engine_id_channel_map) < before)
        return [mat, res]

    def case_to_coq(self, case):
        names, ops = case

        def op(o):
            if o[0] == "Reg":
                return f"Reg {o[1]}%nat {b(o[2])} {b(o[3])} {b(o[4])}"
            return f"{o[0]} {o[1]}%nat"
        return tup(lst([tup(s(c), s(u)) for c, u in names]), lst([op(o) for o in ops]))

    def obs_to_coq(self, obs):
        return tup(lst([b(x) for x in obs[0]]), lst([b(x) for x in obs[1]]))

    def nontrivial(self, case, obs):
        conn = False
        for o, r in zip(case[1], obs[1]):
            if o[0] == "Conn" and r:
                conn = True
            if o[0] == "Reg" and conn:
                return True
        return False

    def kind(self, case, obs):
        return "collision" if any(obs[0]) else "no-collision"

    def classify(self, case, obs):
        names = case[0]
        mat = obs[0]
        k = 0
        sep_only = True
        any_coll = False
        for i in range(len(names)):
            for j in range(i + 1, len(names)):
                if mat[k] and names[i] != names[j]:
                    any_coll = True
                    if names[i][0] + "_" + names[i][1] != names[j][0] + "_" + names[j][1]:
                        sep_only = False
                k += 1
        return "C38-separator-collision" if any_coll and sep_only else None


PROP = C38()
