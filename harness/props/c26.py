"""C26: protocol messages through the real wire path (serialize -> websocket-RPC JSON -> json.loads -> deserialize) vs the Coq
codec model. The types (schemas) are read from the pydantic message classes on every run; values are generated from them."""
import enum
import inspect
import json
import math
import struct
import types
import typing

from harness.common import Prop, lst, z, b

_S = {}


def nat(x):
    return f"{int(x)}%nat"


# ------------------------------------------------------------------ schema of the message classes
class Table:
    """string <-> id; ids 1 and 2 are the envelope keys"""
    def __init__(self):
        self.ids = {"\x00unused": 0, "_type": 1, "_ns": 2}
        self.texts = ["\x00unused", "_type", "_ns"]

    def id(self, s):
        if s not in self.ids:
            self.ids[s] = len(self.texts)
            self.texts.append(s)
        return self.ids[s]


def setup():
    if _S:
        return _S
    import logging
    logging.disable(logging.CRITICAL)
    import openpectus.protocol.aggregator_messages as AM
    import openpectus.protocol.engine_messages as EM
    import openpectus.protocol.messages as M
    from openpectus.protocol import serialization as Ser
    tab = Table()
    reg = []        # (ns_name, cls_name, cls)
    for ns in Ser._message_namespaces:
        for name in sorted(dir(ns)):
            c = getattr(ns, name)
            if inspect.isclass(c) and issubclass(c, M.MessageBase):
                reg.append((ns.__name__, name, c))
    schemas = {}
    for nsn, name, c in reg:
        tab.id(nsn)
        tab.id(name)
    for nsn, name, c in reg:
        schemas[(nsn, name)] = ty_of(c, tab)
    POOL = ["", "a", "1", "1.0", "null", "true", "ü-ñ", "x y", "_type", "A\"b\\c", "Mark: a\nMark: b", "0", "-1", "1e5", "inf"]
    for s in POOL:
        tab.id(s)
    _S.update(tab=tab, reg=reg, schemas=schemas, pool=POOL, Ser=Ser)
    return _S


def ty_of(t, tab):
    """python annotation -> schema tree ('kind', ...)"""
    from pydantic import BaseModel
    origin = typing.get_origin(t)
    args = typing.get_args(t)
    if t is int:
        return ("TInt",)
    if t is float:
        return ("TFloat",)
    if t is str:
        return ("TStr",)
    if t is bool:
        return ("TBool",)
    if t is type(None):
        return ("TNull",)
    if origin is typing.Annotated:
        return ty_of(args[0], tab) + (("ge0",) if "ge=0" in repr(args[1:]) else ())
    if origin is typing.Literal:
        if not all(isinstance(a, str) for a in args):
            raise ValueError(f"unsupported Literal {t}")
        return ("TEnum", [tab.id(a) for a in args], None)
    if origin in (typing.Union, types.UnionType):
        members = [ty_of(a, tab) for a in args]
        non_null = [m for m in members if m[0] != "TNull"]
        has_null = len(non_null) < len(members)
        # Literal['a'] | Literal['b'] -> one enum
        if non_null and all(m[0] == "TEnum" and m[2] is None for m in non_null):
            merged = ("TEnum", [v for m in non_null for v in m[1]], None)
            return ("TOpt", merged) if has_null else merged
        if len(non_null) == 1:
            return ("TOpt", non_null[0]) if has_null else non_null[0]
        if all(m[0] in ("TInt", "TFloat", "TStr", "TBool") for m in non_null):
            return ("TUnion", [m[:1] for m in non_null] + ([("TNull",)] if has_null else []))
        raise ValueError(f"unsupported union {t}")
    if origin is list:
        return ("TList", ty_of(args[0], tab))
    if origin is set:
        return ("TSet", ty_of(args[0], tab))
    if origin is dict:
        return ("TDict", ty_of(args[0], tab), ty_of(args[1], tab))
    if inspect.isclass(t) and issubclass(t, enum.Enum):
        if not all(isinstance(m.value, str) for m in t):
            raise ValueError(f"unsupported enum {t}")
        return ("TEnum", [tab.id(m.value) for m in t], t)
    if inspect.isclass(t) and issubclass(t, BaseModel):
        return ("TModel", [(tab.id(n), n, ty_of(f.annotation, tab)) for n, f in t.model_fields.items()], t)
    raise ValueError(f"unsupported annotation {t!r}")


def ty_coq(t):
    k = t[0]
    if k in ("TInt", "TFloat", "TStr", "TBool", "TNull"):
        return k
    if k == "TEnum":
        return f"(TEnum {lst([nat(v) for v in t[1]])})"
    if k == "TOpt":
        return f"(TOpt {ty_coq(t[1])})"
    if k == "TUnion":
        return f"(TUnion {lst([ty_coq(m) for m in t[1]])})"
    if k in ("TList", "TSet"):
        return f"({k} {ty_coq(t[1])})"
    if k == "TDict":
        return f"(TDict {ty_coq(t[1])} {ty_coq(t[2])})"
    if k == "TModel":
        return "(TModel %s)" % lst([f"({nat(i)}, {ty_coq(ft)})" for i, _, ft in t[1]])
    raise ValueError(k)


# ------------------------------------------------------------------ values
def fbits(x: float) -> int:
    return struct.unpack(">q", struct.pack(">d", x))[0]


def gen_float(rng, dirty):
    r = rng.random()
    if dirty and r < 0.25:
        return rng.choice([math.inf, -math.inf, math.nan])
    if r < 0.5:
        return rng.choice([0.0, -0.0, 1.0, 1.5, -2.25, 0.1, 1e-7, 1e21, 5e-324, 1.7976931348623157e308, 1234567.891, 1 / 3])
    return struct.unpack(">d", struct.pack(">q", rng.getrandbits(62) * rng.choice([1, -1])))[0] if rng.random() < 0.3 else rng.uniform(-1e6, 1e6)


def gen_value(t, rng, dirty, depth=0):
    """a python value of schema t (native containers; models as dicts; enums as enum members / literal strings)"""
    st = setup()
    k = t[0]
    if k == "TInt":
        if "ge0" in t:
            return rng.choice([0, 1, 7, 2 ** 40])
        return rng.choice([0, 1, -1, 7, -2, 2 ** 31, -2 ** 63, 10 ** 30]) if rng.random() < 0.7 else rng.randint(-10 ** 6, 10 ** 6)
    if k == "TFloat":
        v = gen_float(rng, dirty)
        return v if not (isinstance(v, float) and math.isnan(v)) or dirty else 0.0
    if k == "TStr":
        return rng.choice(st["pool"])
    if k == "TBool":
        return rng.random() < 0.5
    if k == "TNull":
        return None
    if k == "TEnum":
        if t[2] is not None:
            return rng.choice(list(t[2]))
        return st["tab"].texts[rng.choice(t[1])]
    if k == "TOpt":
        return None if rng.random() < 0.3 else gen_value(t[1], rng, dirty, depth)
    if k == "TUnion":
        return gen_value(rng.choice(t[1]), rng, dirty, depth)
    if k == "TList":
        return [gen_value(t[1], rng, dirty, depth + 1) for _ in range(rng.choice([0, 0, 1, 2, 3]) if depth < 3 else 0)]
    if k == "TSet":
        return set(gen_value(t[1], rng, dirty, depth + 1) for _ in range(rng.choice([0, 1, 2, 3])))
    if k == "TDict":
        out = {}
        for _ in range(rng.choice([0, 1, 2])):
            kt = t[1]
            if kt[0] == "TUnion" and not dirty:
                kt = ("TStr",)                    # clean stream: string keys only
            key = gen_value(kt, rng, dirty, depth + 1)
            # numeric keys whose text cannot be confused with a pool string
            if isinstance(key, bool) or key is None:
                key = "a"
            elif isinstance(key, int):
                key = 1000 + abs(key) % 100000
            elif isinstance(key, float):
                key = rng.choice([2.5, 1234.5, -0.75, 1e-7])
            out[key] = gen_value(t[2], rng, dirty, depth + 1)
        return out
    if k == "TModel":
        return {name: gen_value(ft, rng, dirty, depth + 1) for _, name, ft in t[1]}
    raise ValueError(k)


def s_coq(text):
    return f"(SId {nat(setup()['tab'].id(text))})"


def fl_coq(x):
    if math.isnan(x):
        return "FNaN"
    if math.isinf(x):
        return "FInf" if x > 0 else "FNegInf"
    return f"(FFin {z(fbits(x))})"


def pv_coq(v, t, order=None):
    """the python value (as held by the constructed message) as a Coq pv term, read against its schema"""
    from pydantic import BaseModel
    k = t[0]
    if v is None:
        return "PNone"
    if k == "TOpt":
        return pv_coq(v, t[1])
    if k == "TUnion" or k in ("TInt", "TFloat", "TStr", "TBool", "TNull"):
        if isinstance(v, bool):
            return f"(PBool {b(v)})"
        if isinstance(v, int):
            return f"(PInt {z(v)})"
        if isinstance(v, float):
            return f"(PFloat {fl_coq(v)})"
        if isinstance(v, str):
            return f"(PStr {key_coq(v)})"
        raise ValueError(f"scalar {v!r}")
    if k == "TEnum":
        return f"(PEnum {nat(setup()['tab'].id(v.value if isinstance(v, enum.Enum) else v))})"
    if k == "TList":
        return f"(PList {lst([pv_coq(x, t[1]) for x in v])})"
    if k == "TSet":
        items = sorted(v, key=lambda x: (order.index(x) if order and x in order else 10 ** 6, str(x)))
        return f"(PSet {lst([pv_coq(x, t[1]) for x in items])})"
    if k == "TDict":
        return "(PDict %s)" % lst([f"({pv_coq(kk, t[1])}, {pv_coq(x, t[2])})" for kk, x in v.items()])
    if k == "TModel":
        get = (lambda n: getattr(v, n)) if isinstance(v, BaseModel) else (lambda n: v[n])
        return "(PModel %s)" % lst([f"({nat(i)}, {pv_coq(get(n), ft, order)})" for i, n, ft in t[1]])
    raise ValueError(k)


def jv_coq(j):
    if j is None:
        return "JNull"
    if isinstance(j, bool):
        return f"(JBool {b(j)})"
    if isinstance(j, int):
        return f"(JInt {z(j)})"
    if isinstance(j, float):
        return f"(JFloat {z(fbits(j))})"
    if isinstance(j, str):
        return f"(JStr {s_coq(j)})"
    if isinstance(j, list):
        return f"(JArr {lst([jv_coq(x) for x in j])})"
    if isinstance(j, dict):
        return "(JObj %s)" % lst([f"({key_coq(kk)}, {jv_coq(x)})" for kk, x in j.items()])
    raise ValueError(repr(j))


def key_coq(text):
    """an object key: a known string, or the text of a number that was a dict key"""
    tab = setup()["tab"]
    if text in tab.ids:
        return s_coq(text)
    try:
        return f"(SOfInt {z(int(text))})" if str(int(text)) == text else _fkey(text)
    except ValueError:
        return _fkey(text)


def _fkey(text):
    try:
        x = float(text)
        if repr(x) == text or str(x) == text:
            return f"(SOfFloat {z(fbits(x))})"
    except ValueError:
        pass
    return s_coq(text)


def translate():
    """coq/gen/MsgSchema.v: the registry deserialize searches (every MessageBase subclass reachable as an attribute of a
    message namespace) with the schema of each class, regenerated from the pydantic models"""
    st = setup()
    tab = st["tab"]
    lines = ["(* GENERATED by harness/props/c26.py from openpectus/protocol/{messages,engine_messages,aggregator_messages,models}.py"
             " -- do not edit *)",
             "From Coq Require Import ZArith List Arith.", "From OP Require Import model.C26.", "Import ListNotations.",
             "(* string ids: " + "; ".join(f"{k}={t!r}" for k, t in enumerate(tab.texts) if k > 0 and k < 400).replace("*)", "* )").replace('"', "''").replace("(*", "( *") + " *)",
             "Definition registry : list cls := " + reg_coq() + ".", ""]
    return {"gen/MsgSchema.v": "\n".join(lines)}


def reg_coq():
    st = setup()
    tab = st["tab"]
    return lst(["{| c_ns := %s; c_name := %s; c_ty := %s |}" % (nat(tab.id(nsn)), nat(tab.id(name)), ty_coq(st["schemas"][(nsn, name)]))
                for nsn, name, _ in st["reg"]])


# ------------------------------------------------------------------ the real wire path
def wire(d: dict):
    """the dict produced by serialize() through the websocket RPC's JSON text and back to a dict"""
    from fastapi_websocket_rpc.schemas import RpcRequest, RpcMessage
    from fastapi_websocket_rpc.utils import pydantic_serialize, pydantic_parse
    txt = pydantic_serialize(RpcMessage(request=RpcRequest(method="dispatch_message_async", arguments={"message_json": d})))
    m = pydantic_parse(RpcMessage, json.loads(txt))
    return m.request.arguments["message_json"]


def find_sets(v, t, out):
    k = t[0]
    if v is None:
        return
    if k == "TOpt":
        find_sets(v, t[1], out)
    elif k == "TSet":
        out.extend(list(v))
    elif k == "TList":
        for x in v:
            find_sets(x, t[1], out)
    elif k == "TDict":
        for x in v.values():
            find_sets(x, t[2], out)
    elif k == "TModel":
        for _, n, ft in t[1]:
            find_sets(getattr(v, n), ft, out)


def sets_in_dump(x, out):
    if isinstance(x, (set, frozenset)):
        out.extend(list(x))
    elif isinstance(x, dict):
        for y in x.values():
            sets_in_dump(y, out)
    elif isinstance(x, (list, tuple)):
        for y in x:
            sets_in_dump(y, out)


def gen_case(rng):
    st = setup()
    r = rng.random()
    k = rng.randrange(len(st["reg"]))
    nsn, name, c = st["reg"][k]
    t = st["schemas"][(nsn, name)]
    dirty = r > 0.80 and r <= 0.90
    # values are kept as JSON-able python data in the case (floats as hex, sets as lists) and rebuilt before use
    val = gen_value(t, rng, dirty)
    case = dict(kind="msg", cls=k, value=freeze(val), dirty=dirty)
    if r > 0.90:
        mut = rng.choice(["no_type", "no_ns", "bad_ns", "bad_type", "attr_type", "num_type", "num_ns", "null_type", "cross"])
        case = dict(kind="env", cls=k, value=freeze(gen_value(t, rng, False)), mut=mut,
                    other=rng.randrange(len(st["reg"])))
    return case


def freeze(v):
    if isinstance(v, float):
        return {"$f": v.hex()}
    if isinstance(v, enum.Enum):
        return {"$e": v.value}
    if isinstance(v, set):
        return {"$s": [freeze(x) for x in sorted(v, key=str)]}
    if isinstance(v, list):
        return [freeze(x) for x in v]
    if isinstance(v, dict):
        return {"$d": [[freeze(kk), freeze(x)] for kk, x in v.items()]}
    return v


def thaw(v):
    if isinstance(v, list):
        return [thaw(x) for x in v]
    if isinstance(v, dict):
        if "$f" in v:
            return float.fromhex(v["$f"])
        if "$e" in v:
            return v["$e"]
        if "$s" in v:
            return set(thaw(x) for x in v["$s"])
        return {thaw(kk): thaw(x) for kk, x in v["$d"]}
    return v


def observe(case):
    st = setup()
    Ser = st["Ser"]
    nsn, name, c = st["reg"][case["cls"]]
    t = st["schemas"][(nsn, name)]
    msg = c.model_validate(thaw(case["value"]))
    d = Ser.serialize(msg)
    out = dict(kind=case["kind"])
    if case["kind"] == "msg":
        order = []
        sets_in_dump(d, order)       # the set objects of the dump are the ones the encoder iterates
        try:
            wired = wire(d)
        except Exception as ex:
            return dict(kind="msg", input=pv_coq(msg, t, order), json=None, result=None, note="wire raised " + repr(ex)[:120])
        out.update(input=pv_coq(msg, t, order), json=jv_coq(wired))
    else:
        wired = wire(d)
        mut = case["mut"]
        o_ns, o_name, _ = st["reg"][case["other"]]
        if mut == "no_type":
            del wired["_type"]
        elif mut == "no_ns":
            del wired["_ns"]
        elif mut == "bad_ns":
            wired["_ns"] = "x y"
        elif mut == "bad_type":
            wired["_type"] = "a"
        elif mut == "attr_type":
            wired["_type"] = "inf"          # a string that names nothing
        elif mut == "num_type":
            wired["_type"] = 1
        elif mut == "num_ns":
            wired["_ns"] = 2.5
        elif mut == "null_type":
            wired["_type"] = None
        elif mut == "cross":
            # a class name of another namespace: rejected unless that namespace happens to export the name too
            wired["_ns"] = o_ns
            if (o_ns, wired["_type"]) in st["schemas"]:
                wired["_type"] = "a"
        out.update(json=jv_coq(wired))
        order = None
    try:
        back = Ser.deserialize(wired)
        bt = None
        for nsn2, name2, c2 in st["reg"]:
            if type(back) is c2 and type(back).__module__ == nsn2 and type(back).__qualname__ == name2:
                bt = (nsn2, name2)
        if bt is None:
            bt = (type(back).__module__, type(back).__qualname__)
        # the class deserialize picked is the one _type / _ns name (the same class object may be reachable under two names)
        key = (wired.get("_ns"), wired.get("_type"))
        t2 = st["schemas"].get(key) or st["schemas"][bt]
        rn = key if key in st["schemas"] else bt
        tab = st["tab"]
        out["result"] = "(Some (%s, %s, %s))" % (nat(tab.id(rn[0])), nat(tab.id(rn[1])), pv_coq(back, t2, order))
        out["equal"] = bool(case["kind"] == "msg" and back == msg and type(back) is type(msg))
    except Exception as ex:
        out["result"] = None
        out["error"] = type(ex).__name__
    return out


class C26(Prop):
    ID = "C26"
    DESIGN_REF = "DESIGN.md §7 C26"
    COQ_IMPORTS = "From OP Require Import gen.MsgSchema."
    SHARD = 60
    QUICK_N = 600
    THOROUGH_N = 12000
    LEVEL_TEXT = ("Coq theorems about a model of the codec (serialize = model_dump + _type / _ns, the JSON encoder of the "
                  "websocket RPC, deserialize = class lookup + pydantic validation): for EVERY annotation built from scalars, "
                  "enums / literals, optionals, smart unions of scalars, lists, sets, dicts and nested models, and EVERY value "
                  "that is well-typed and clean for it (finite floats, string dict keys), decode t (encode v) = Some v, by "
                  "nested induction over types of any depth; lifted to the envelope for every registry (the message comes back "
                  "as the same class with the same fields); unknown _type / _ns and missing keys are rejected. The side "
                  "conditions are proved of the message classes of the current source (registry regenerated on every run). "
                  "'With any field values' is refuted for two kinds of values (known findings with Coq-evaluated witnesses): "
                  "non-finite floats and non-string dict keys.")
    LEVEL_NOTE = ("Theorems are about coq/model/C26.v; gen/MsgSchema.v (every MessageBase subclass reachable as an attribute of "
                  "a message namespace, with the schema read from its pydantic fields) is regenerated on every run. Strings "
                  "and finite floats are opaque (ids, bit patterns); pydantic's validation is modelled for the JSON the "
                  "encoder produces, not its lax coercions. Tie: values are generated from the schemas, the real message "
                  "object is built, sent through the real path -- serialization.serialize, the RpcMessage JSON text of "
                  "fastapi_websocket_rpc (pydantic_serialize), json.loads, pydantic_parse, serialization.deserialize -- and "
                  "both the JSON tree on the wire and the deserialized object (class and every field) are compared with the "
                  "model's; malformed envelopes (missing / unknown / non-string _type and _ns, a class name of another "
                  "namespace) are handed to the real deserialize. The Coq monitor states the property on the observation. The "
                  "HTTP registration path and the replies (json.dumps; no floats, sets or dicts in those messages) are not "
                  "modelled separately.")
    TECHNIQUE = "Coq proof (round trip for all types and all clean values by nested induction; envelope theorem; side conditions of the regenerated registry by evaluation) + schema translator from the pydantic models + correspondence with the real serialize / RPC JSON / deserialize path + Coq monitor"
    RULE = ("80% clean messages: one of the 29 registered classes, field values generated from its schema (strings from a pool "
            "of 15 incl. empty, numeric-looking, unicode, quotes, newlines, '_type'; ints incl. 2^31, -2^63, 10^30; finite "
            "floats incl. -0.0, 5e-324, 1.797e308, random bit patterns; lists of 0-3, sets of 0-3, dicts of 0-2, optionals "
            "None 30%); 10% dirty: the same with non-finite floats (25% of the floats) and int / float dict keys where the "
            "annotation allows them; 10% malformed envelopes (9 mutations); non-trivial = a clean message whose value has more "
            "than 120 characters of JSON; distinct by canonical JSON")

    def classify(self, case, obs):
        """known: the value holds a non-finite float, or a dict key that is not a string"""
        if case["kind"] != "msg":
            return None
        keys = []
        txt = json.dumps(case["value"])
        if '"$f": "inf"' in txt or '"$f": "-inf"' in txt or '"$f": "nan"' in txt:
            keys.append("C26-nonfinite-float-becomes-null")

        def numkey(v):
            if isinstance(v, list):
                return any(numkey(x) for x in v)
            if isinstance(v, dict):
                if "$d" in v:
                    return any((not isinstance(k, str)) or numkey(x) for k, x in v["$d"])
                if "$s" in v:
                    return any(numkey(x) for x in v["$s"])
            return False
        if numkey(case["value"]):
            # field names are strings; only dict-typed values can have other keys
            keys.append("C26-numeric-dict-key-becomes-string")
        return "+".join(keys) if keys else None

    def __init__(self):
        self._obs = {}

    def translators(self):
        return [("msgschema", translate)]

    def gen_cases(self, rng, n, tier):
        return [gen_case(rng) for _ in range(n)]

    def run_impl(self, case):
        o = observe(case)
        self._obs[json.dumps(case, sort_keys=True)] = o
        return o

    def case_to_coq(self, case):
        st = setup()
        o = self._obs.get(json.dumps(case, sort_keys=True)) or self.run_impl(case)
        nsn, name, _ = st["reg"][case["cls"]]
        tab = st["tab"]
        if case["kind"] == "msg":
            # the class as serialize() names it: its own module and qualified name
            cl = st["reg"][case["cls"]][2]
            key = (cl.__module__, cl.__qualname__)
            c = "{| c_ns := %s; c_name := %s; c_ty := %s |}" % (nat(tab.id(key[0])), nat(tab.id(key[1])), ty_coq(st["schemas"][key]))
            return f"(IMsg registry {c} {o['input']})"
        return f"(IEnv registry {o['json']})"

    def obs_to_coq(self, obs):
        j = "None" if obs.get("json") is None or obs["kind"] == "env" else f"(Some {obs['json']})"
        return f"({j}, {obs['result'] or 'None'})"

    def nontrivial(self, case, obs):
        return case["kind"] == "msg" and not case["dirty"] and len(json.dumps(case["value"])) > 120

    def kind(self, case, obs):
        st = setup()
        return f"{case['kind']},{st['reg'][case['cls']][1]},{'ok' if obs.get('result') else 'error'}"

    def size(self, case):
        return len(json.dumps(case["value"]))


PROP = C26()
