from harness.common import Prop, lst, tup, b, s as cs
from harness.translate_grammar import translate

NAMES = ["Mark", "Block", "End block", "Watch", "Wait", "Foo bar", "X_1", "a", "Call macro", "0x", "Inc run counter"]
ARGS = ["A", "a b", "X > 1", "1.5 s", "é ü", "x:y", ":", "a: b", "Run Time >= 3 min", "  padded", "'q'", '"'] 
COMMENTS = ["c", "", "note # more", "é", "x: y", "  lead"]
THRS = ["1", "1.0", "12.50", "0", "007", "3.25"]
TAGS = ["A", "Run Time", "TT01", "Block Time", "x_y", "é", "Tag 1"]
VALUES = ["5", "1.5", "-3", "0.25", "10", "+2", ".5", "5.", "1e3", "2E-2", "abc", "Running", "1 2", "٣"]
WS = [" ", "\t", " ", " ", " "]


def ostr(x):
    return "None" if x is None else f"(Some {cs(x)})"


class C18(Prop):
    ID = "C18"
    COQ_IMPORTS = "From OP Require Import gen.Grammar."
    DESIGN_REF = "DESIGN.md §7 C18"
    LEVEL_TEXT = ("Coq theorems about executable recognisers for the instruction-line regex and the tag-operator-value "
                  "parser: a general round-trip theorem for every well-formed line, and a finite Coq sweep proves the round trip for every operator spelling x every supported unit "
                  "(regenerated from units.py), and the model is run against the real _parse_line / "
                  "_parse_tag_operator_value on well-formed renderings (where the Coq monitor demands exactly the "
                  "generating parts) and on near-misses. The general round-trip theorem over all well-formed parts is "
                  "not proved (partial).")
    LEVEL_NOTE = ("Theorems are about coq/model/C18.v, hand-written recognisers for these regex shapes; the character "
                  "classes of \\d, \\s and the condition unit class, the operator lists and the supported units are "
                  "regenerated from the source; tie = the real parser on the same lines/arguments. No axioms.")
    TECHNIQUE = "Coq finite sweep (vm_compute over operators x units) + translator tables + correspondence against the real parser"
    RULE = ("lines rendered from well-formed parts (indent, threshold, name, argument, comment) and arbitrary near-miss "
            "lines; conditions rendered from tag/operator/value/unit over all 7 operator spellings and all supported "
            "units plus near-misses (operators sharing characters, repeated operators, exponents, Unicode digits and "
            "spaces); non-trivial = well-formed rendering with at least three parts; distinct by canonical JSON")
    QUICK_N = 4000
    THOROUGH_N = 150000
    TRUSTED = ["Python re for the parts outside the two modelled shapes"]
    ASSUMPTIONS = ["names contain no ':' or '#', do not look like '<digits> <name>', arguments contain no '#' and are "
                   "stripped, tags contain no operator characters"]

    def translators(self):
        return [("grammar", translate)]

    def gen_cases(self, rng, n, tier):
        from openpectus.lang.exec.units import QUANTITY_UNIT_MAP
        units = [u for v in QUANTITY_UNIT_MAP.values() for u in v]
        cond_ops = ["<=", ">=", "==", "!=", "<", ">", "="]
        out = []
        # every operator x every unit once
        for op in cond_ops:
            for u in units:
                out.append(["tovwf", False, "TT01", op, "5", u])
        for _ in range(n):
            r = rng.random()
            if r < 0.3:
                name = rng.choice(NAMES)
                thr = rng.choice(THRS) if rng.random() < 0.4 else None
                arg = rng.choice(ARGS).strip() if rng.random() < 0.7 else None
                if arg is not None and ("#" in arg or arg == ""):
                    arg = None
                com = rng.choice(COMMENTS).lstrip() if rng.random() < 0.4 else None
                if thr is None and name[0].isdigit() and " " in name:
                    name = "Mark"
                out.append(["linewf", rng.choice([0, 0, 4, 8, 3]), thr, name, arg, com])
            elif r < 0.55:
                line = rng.choice(["", " ", "    "]) + rng.choice(THRS + ["", "", "1.", "1.5.2", "٣"]) + rng.choice(["", " ", "  "]) \
                    + rng.choice(NAMES + ["", "é", ":x", "#c", "_"]) + rng.choice(["", ":", ": ", ":  ", " : ", ":#"]) \
                    + rng.choice(ARGS + [""]) + rng.choice(["", " ", "#", " # c", "#  "]) + rng.choice(["", "x"])
                if rng.random() < 0.2:
                    k = rng.randrange(len(line) + 1)
                    line = line[:k] + rng.choice(WS + ["#", ":", "1"]) + line[k:]
                out.append(["line", line.replace("\n", " ")])
            elif r < 0.8:
                assign = rng.random() < 0.25
                op = "=" if assign else rng.choice(cond_ops)
                val = rng.choice(["5", "1.5", "-3", "0.25", "10", "+2", ".5", "5.", "1e3", "2E-2", "1e23", "7E3"])
                unit = rng.choice(units + [None, None])
                out.append(["tovwf", assign, rng.choice(TAGS), op, val, unit])
            else:
                assign = rng.random() < 0.25
                part = rng.choice(TAGS + ["", " "]) + rng.choice(["", " ", "  "]) + rng.choice(cond_ops + ["", "=>", "<>", "= =", "=="]) \
                    + rng.choice(["", " "]) + rng.choice(VALUES + [""]) + rng.choice(["", " ", "  "]) \
                    + rng.choice(units + ["", "", "e3", "xx", "L /h", "°", "2"]) + rng.choice(["", " ", " <"])
                out.append(["tov", assign, part])
        return out

    def _line_obs(self, line):
        import openpectus.lang.model.ast as p
        from openpectus.lang.model.parser import PcodeParser, Grammar
        nd = PcodeParser()._parse_line(line, 0)
        if isinstance(nd, p.BlankNode):
            return ["line", ["blank", nd.position.character]]
        if isinstance(nd, p.CommentNode):
            return ["line", ["comment", nd.position.character]]
        if Grammar.instruction_line_pattern.match(line) is None:
            return ["line", ["nomatch"]]
        return ["line", ["inst", nd.position.character, nd.threshold_part or None, nd.instruction_part,
                         nd.arguments_part or None, bool(nd.has_argument),
                         nd.comment_part if nd.has_comment else None]]

    def _tov_obs(self, assign, part):
        import openpectus.lang.model.ast as p
        from openpectus.lang.model.parser import PcodeParser
        nd = p.SimulateNode() if assign else p.WatchNode()
        nd.arguments_part = part
        PcodeParser._parse_tag_operator_value(nd)
        c = nd.tag_operator_value
        return ["tov", [c.op, c.lhs, c.rhs, c.tag_name, c.tag_value, c.tag_unit, bool(c.error)]]

    def _render_line(self, case):
        _, ind, thr, name, arg, com = case
        return " " * ind + (thr + " " if thr else "") + name + (": " + arg if arg is not None else "") \
            + (" # " + com if com is not None else "")

    def run_impl(self, case):
        k = case[0]
        if k == "line":
            return self._line_obs(case[1])
        if k == "linewf":
            return self._line_obs(self._render_line(case))
        if k == "tov":
            return self._tov_obs(case[1], case[2])
        _, assign, tag, op, val, unit = case
        return self._tov_obs(assign, f"{tag} {op} {val}" + (f" {unit}" if unit is not None else ""))

    def case_to_coq(self, case):
        k = case[0]
        if k == "line":
            return f"QLine {cs(case[1])}"
        if k == "linewf":
            _, ind, thr, name, arg, com = case
            return f"QLineWF {ind}%nat {ostr(thr)} {cs(name)} {ostr(arg)} {ostr(com)}"
        if k == "tov":
            return f"QTov {b(case[1])} {cs(case[2])}"
        _, assign, tag, op, val, unit = case
        return f"QTovWF {b(assign)} {cs(tag)} {cs(op)} {cs(val)} {ostr(unit)}"

    def obs_to_coq(self, obs):
        k, v = obs
        if k == "line":
            if v[0] == "blank":
                return f"ALine (PBlank {v[1]}%nat)"
            if v[0] == "comment":
                return f"ALine (PComment {v[1]}%nat)"
            if v[0] == "nomatch":
                return "ALine PNoMatch"
            return f"ALine (PInst {v[1]}%nat {ostr(v[2])} {cs(v[3])} {ostr(v[4])} {b(v[5])} {ostr(v[6])})"
        op, lhs, rhs, name, val, unit, err = v
        return ("ATov {| t_op := %s; t_lhs := %s; t_rhs := %s; t_name := %s; t_value := %s; t_unit := %s; t_error := %s |}"
                % (cs(op), cs(lhs), cs(rhs), ostr(name), ostr(val), ostr(unit), b(err)))

    def nontrivial(self, case, obs):
        if case[0] == "linewf":
            return sum(x is not None for x in case[2:]) >= 3
        return case[0] == "tovwf" and case[5] is not None

    def kind(self, case, obs):
        return case[0]


PROP = C18()
