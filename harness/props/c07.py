from harness.props.c06 import EngineProp, gen_engine_case


def gen_clock_case(rng):
    """clock-heavy sequences: runs with Hold / Pause / Restart / Stop-Start in between, ticks with varying increments,
    faults (error pauses)"""
    base = gen_engine_case(rng, faults=True, uods=rng.random() < 0.3, setouts=False, n_ops=rng.randint(2, 6))
    ops = base["ops"]
    for _ in range(rng.randint(4, 30)):
        r = rng.random()
        if r < 0.35:
            ops.append(["user", rng.choice(["Hold", "Unhold", "Pause", "Unpause", "Restart", "Stop", "Start", "Hold", "Unhold"])])
        else:
            reqs = []
            x = rng.random()
            if x < 0.15:
                reqs.append([rng.choice(["Pause", "Hold"]), rng.choice([None, 1, 2, 3])])
            elif x < 0.22:
                reqs.append([rng.choice(["Stop", "Restart"])])
            ops.append(["tick", rng.choice([1, 1, 2, 3, 5]), rng.random() >= 0.04, rng.random() >= 0.04, reqs, rng.random() < 0.03])
    ops.append(["tick", 1, True, True, [], False])
    return dict(cfg=base["cfg"], ops=ops)


class C07(EngineProp):
    ID = "C07"
    DESIGN_REF = "DESIGN.md §7 C07"
    FAULTS = True
    LEVEL_TEXT = ("Coq theorems about the engine-core model (coq/model/Eng.v) for ALL operation sequences without exception: "
                  "in every reachable state the event trace obeys the clock discipline and its tracked values are the "
                  "Process Time and Run Time tags -- zero at every run start (Start and Restart), moved by nothing but "
                  "update_calculated_tags, Process Time advanced by exactly the increment iff Running, Run Time iff a run is "
                  "active, Block Time and Scope Time unchanged by any update made while not Running (Paused, Holding, "
                  "Restarting, error pause); non-decreasing for non-negative increments. Invariant proved preserved by each "
                  "primitive of the engine step and lifted by invariant_by_prims. Block/Scope Time are modelled for the "
                  "root block/scope only (nested blocks belong to the interpreter model).")
    LEVEL_NOTE = ("Theorems are about coq/model/Eng.v. Tie: operation-by-operation correspondence with the real Engine on all "
                  "observables including the four clock tags and a clock event logged by a wrapper around "
                  "Engine.update_calculated_tags (System State at that moment, increment, clock tags before/after; no source "
                  "hook); the Coq monitor (mon7/walk) runs on the real event stream. Increments are whole multiples of the "
                  "model's time unit so float addition is exact. The /repo fix for C07 is mirrored in the model. No axioms.")
    TECHNIQUE = "Coq proof (invariant preserved by every primitive of the engine step, lifted to all executions) + operation-by-operation correspondence with the real Engine + Coq monitor on the real clock events"
    RULE = ("clock-heavy operation sequences of 8-45 operations: runs interleaved with Hold/Unhold/Pause/Unpause/Restart/"
            "Stop/Start by the user and by the method (timed or not), ticks with increments 1,2,3,5, hardware faults (4%) and "
            "interpreter errors (3%), mixed with general engine sequences; non-trivial = clock updates seen in Running and "
            "in at least one of Paused/Holding/Restarting, and at least two runs or one Restart; distinct by canonical JSON")
    QUICK_N = 300
    THOROUGH_N = 15000

    def gen_cases(self, rng, n, tier):
        return [gen_clock_case(rng) if rng.random() < 0.8 else gen_engine_case(rng, True) for _ in range(n)]

    def _states(self, obs):
        return {e[1] for v in obs["views"] for e in v["events"] if e[0] == "clock"}

    def nontrivial(self, case, obs):
        st = self._states(obs)
        runs = sum(1 for v in obs["views"] for e in v["events"] if e[0] == "runstart")
        return "Running" in st and bool(st & {"Paused", "Holding", "Restarting"}) and runs >= 2

    def kind(self, case, obs):
        return "updates-in=" + "".join(sorted(s[0] + s[1] for s in self._states(obs)))


PROP = C07()
