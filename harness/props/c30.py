from harness.common import Prop
from harness import agg_driver as AD


class C30(Prop):
    ID = "C30"
    DESIGN_REF = "DESIGN.md §7 C30"
    LEVEL_TEXT = ("Coq invariants over ALL histories of register/disconnect/run-started/run-stopped/tag messages and "
                  "aggregator restarts and crashes: a run never gets a second plot log (proved for the repaired code), "
                  "and a run gets exactly one recent-run record on histories in which a run-started notification is "
                  "not replayed after that run was stored; the unrestricted statement is refuted in Coq and the "
                  "witness is a known finding.")
    LEVEL_NOTE = ("Theorems are about coq/model/Agg.v (tables as row lists); tie = real Aggregator, message handlers and "
                  "repositories on in-memory SQLite run on the same histories, engine map and table contents "
                  "compared after every operation. No axioms.")
    TECHNIQUE = "Coq proof (table invariants by induction over histories, refutation witness) + correspondence"
    RULE = ("histories of 2-20 operations over 2 engines with duplicated/resent/reordered notifications, disconnects, "
            "graceful restarts and crashes; non-trivial = at least one duplicated notification or a reconnect during "
            "a run; distinct by canonical JSON")
    QUICK_N = 1000
    THOROUGH_N = 25000
    TRUSTED = ["SQLAlchemy/SQLite tables behave as insertion-ordered row lists",
               "a new Aggregator object over the same database stands for a restarted process"]
    ASSUMPTIONS = ["run ids are the strings the engine sends; engines identified by (computer, uod) names"]

    def gen_cases(self, rng, n, tier):
        return [AD.gen_case(rng) for _ in range(n)]

    def run_impl(self, case):
        return AD.run_impl(case)

    def case_to_coq(self, case):
        return AD.case_to_coq(case)

    def obs_to_coq(self, obs):
        return AD.obs_to_coq(obs)

    def nontrivial(self, case, obs):
        ops = case[2]
        seen = []
        for o in ops:
            if o[0] in ("RunStarted", "RunStopped"):
                if o in seen:
                    return True
                seen.append(o)
        return any(o[0] in ("Disconnect", "Restart", "Crash") for o in ops)

    def kind(self, case, obs):
        return "crash" if any(o[0] == "Crash" for o in case[2]) else ("restart" if any(o[0] == "Restart" for o in case[2]) else "plain")

    def classify(self, case, obs):
        """known finding: a run id that was ALREADY stored as recent run is installed again (run-started replayed
        after its stop, or a stale recent-engine row restored after a crash) and is then stored a second time.
        Duplicate plot logs, or duplicate recent runs without such a re-opening, are never known."""
        ops = case[2]
        reopened = set()
        prev = [[], [], [], []]
        for o, v in zip(ops, obs):
            pl = [tuple(x) for x in v[2]]
            if len(set(pl)) != len(pl):
                return None
            stored_before = {tuple(x) for x in prev[1]}
            cur_runs = {e: r for e, r in v[0]}
            prev_runs = {e: r for e, r in prev[0]}
            if o[0] in ("RunStarted", "Register"):
                e = o[1]
                now = cur_runs.get(e)
                before = prev_runs.get(e)
                if now is not None and (before is None or before[0] != now[0]) and (e, now[0]) in stored_before:
                    reopened.add((e, now[0]))
            prev = v
        rr = [tuple(x) for x in obs[-1][1]]
        dups = {x for x in rr if rr.count(x) > 1}
        if dups and dups <= reopened:
            return "C30-run-reopened-after-stored"
        return None


PROP = C30()
