"""C19: the real ConditionCheckAnalyzer / SimulateCheckAnalyzer / CommandCheckAnalyzer on generated method lines and
generated tag / command collections vs the Coq model of their decision logic. The facts the model takes as input are
computed from the real parsed nodes and the real collections (with the library functions the analyzers call)."""
import json

from harness.common import Prop, lst, b

TAGS = [("Foo", None), ("Temp", "degC"), ("Flow", "L/h"), ("X", None), ("Pressure", "bar"), ("Conc", "%"), ("Ab", None)]
UNITS = ["degC", "L/h", "mL/min", "bar", "%", "vol%", "kg", "s", "xyz", "°C"]
CMDS = ["CmdA", "CmdB", "Wait", "Stop", "Pause", "Base", "Notify"]


def gen_case(rng):
    tags = [t for t in TAGS if rng.random() < 0.75]
    lines = []
    for _ in range(rng.randint(1, 8)):
        r = rng.random()
        # mostly-valid stream: defined name, operator, number, fitting unit; each part perturbed with small probability
        if tags and rng.random() < 0.65:
            name, tunit = rng.choice(tags)
        else:
            name, tunit = rng.choice(["Fo", "Fooo", "Tempp", "Flwo", "Zzzzzz", "Q", "Pressur", "Unknown", "", "  ", "Foo", "Temp"]), None
        op = rng.choice([">", "<", "=", ">=", "!=", "=", "="]) if rng.random() < 0.9 else ""
        val = rng.choice(["2", "2.5", "1e3", "0"]) if rng.random() < 0.85 else rng.choice(["", "abc"])
        u = rng.random()
        if u < 0.5:
            unit = tunit or ""
        elif u < 0.7:
            unit = {"degC": "°C", "L/h": "mL/min", "bar": "bar", "%": "vol%"}.get(tunit or "", "")
        elif u < 0.85:
            unit = ""
        else:
            unit = rng.choice(UNITS)
        rhs = rng.choice([f"{val} {unit}".strip(), f"{val} {unit}".strip(), f"{val}{unit}", unit, val])
        cond = f"{name} {op} {rhs}".strip() if rng.random() < 0.92 else rng.choice(["", name, f"{op} {rhs}", "> >"])
        if r < 0.40:
            lines.append(f"{rng.choice(['Watch', 'Alarm'])}: {cond}")
            lines.append("    Mark: a")
        elif r < 0.62:
            lines.append(f"Simulate: {cond}")
        elif r < 0.72:
            lines.append(f"Simulate off: {name}")
        else:
            cname = rng.choice(CMDS + CMDS + ["CmdAA", "Cmd", "Wiat", "Stopp", "Frobnicate", "Xy", "Notfy"])
            arg = rng.choice(["", "", "1 s", "5", "abc", "d=1", "2.5 min"])
            lines.append(f"{cname}: {arg}" if arg else cname)
    if rng.random() < 0.3:
        lines = wild(rng, lines)
    return dict(tags=tags, lines=lines)


WILD = ["Block: B", "End block", "End blocks", "Macro: M", "Call macro: M", "Call macro: N", "Call macro:", "Macro:", "# comment", "",
        "   ", "Mark", "Mark:", "Base: s", "Base: xx", "Wait: 1 s", "Wait", "Batch: b", "Watch", "Watch:", "Alarm:", "Simulate", "Simulate:",
        "Simulate off", "Simulate off:", "Info: i", "Warning: w", "Error: e", "Stop", "Restart", "Increment run counter", "Block:",
        "Watch: Run Time > 3 s", "Alarm: Block Time < 1 min", "Noop", "Foo bar baz", ":", ": :", "1.0", "1.0 ", "x: y: z", "Mark: a # c",
        "Watch: Foo > 2 # c", "Ünicode: é", "Watch: Ünicode > 1", "Simulate: Foo = ", "Simulate off:   ", "\tMark: tab"]


def wild(rng, lines):
    """malformed stream: structure keywords, thresholds, odd indentation, comments, unicode mixed into the line stream"""
    out = []
    ind = 0
    for ln in lines + [rng.choice(WILD) for _ in range(rng.randint(1, 8))]:
        if rng.random() < 0.5:
            ln = rng.choice(WILD) if rng.random() < 0.5 else ln
        if ln.startswith("    "):
            out.append(ln)
            continue
        thr = rng.choice(["", "", "", "1.0 ", "0.5 ", "2 ", "-1 ", "1.0", "1,0 ", "a "])
        r = rng.random()
        if r < 0.2:
            ind = max(0, ind - 1)
        elif r < 0.4:
            ind = min(3, ind + 1)
        pad = "    " * ind if rng.random() < 0.85 else " " * rng.randint(0, 9)
        out.append(pad + thr + ln)
    rng.shuffle(out) if rng.random() < 0.15 else None
    return out


def lookup_facts(name, names, has):
    from Levenshtein import ratio
    long_ = len(name) > 2
    any_ = bool(names)
    similar = any_ and max(ratio(name, n) for n in names) > 0.7
    return dict(defined=bool(has), long=long_, any=any_, similar=bool(similar))


COND_IDS = {"ConditionMissing", "MissingTag", "UndefinedTag", "MissingOperator", "MissingValue", "UnexpectedUnit", "MissingUnit",
            "InvalidUnit", "IncompatibleUnits"}
SIM_IDS = (COND_IDS - {"ConditionMissing"}) | {"AssignmentMissing"}
CMD_IDS = {"UndefinedCommand", "CommandNoArguments", "CommandArgsInvalid"}


def node_facts(node, tags, commands):
    from openpectus.lang.exec.units import get_compatible_unit_names, are_comparable
    from openpectus.lang.exec.argument_specification import ArgSpec
    cls = type(node).__name__
    if cls in ("WatchNode", "AlarmNode", "SimulateNode"):
        c = node.tag_operator_value
        f = dict(kind="cond" if cls != "SimulateNode" else "sim", present=c is not None)
        if c is not None:
            name = c.tag_name
            f["tag_blank"] = name is None or name.strip() == ""
            if not f["tag_blank"]:
                f["lookup"] = lookup_facts(name, tags.names, tags.has(name))
                f["op_ok"] = (c.op != "") if cls != "SimulateNode" else (c.op == "=")
                f["value_empty"] = c.rhs == "" or c.tag_value == ""
                if f["lookup"]["defined"]:
                    tag = tags.get(name)
                    f["tag_unit"] = tag.unit is not None
                    f["cond_unit"] = c.tag_unit is not None
                    valid = get_compatible_unit_names(tag.unit)
                    f["rhs_is_unit"] = bool(c.rhs) and c.rhs.strip() in valid
                    if tag.unit is not None and c.tag_unit is not None:
                        try:
                            f["comparable"] = bool(are_comparable(tag.unit, c.tag_unit))
                        except ValueError:
                            f["unit_error"] = True
        return f, (COND_IDS if cls != "SimulateNode" else SIM_IDS)
    if cls == "SimulateOffNode":
        name = node.arguments
        f = dict(kind="simoff", blank=name is None or name == "")
        if not f["blank"]:
            f["lookup"] = lookup_facts(name, tags.names, tags.has(name))
        return f, {"MissingTag", "UndefinedTag"}
    if cls in ("InterpreterCommandNode", "EngineCommandNode", "UodCommandNode", "ErrorInstructionNode"):
        name = node.instruction_name
        if name == "" and cls == "ErrorInstructionNode":
            name = node.line
        f = dict(kind="cmd", lookup=lookup_facts(name, commands.names, commands.has(name)))
        if f["lookup"]["defined"]:
            cmd = commands.get(name)
            f["noargs_with_arg"] = bool(cmd.arg_parser and node.has_argument
                                        and cmd.arg_parser.regex == ArgSpec.NoArgsInstance.regex)
            f["args_valid"] = bool(cmd.validate_args(node.arguments))
        return f, CMD_IDS
    return None, None


def item_diag(it, node):
    from openpectus.lang.exec.analyzer import AnalyzerItemType
    # "reported as an error on the offending line"
    if it.type != AnalyzerItemType.ERROR or it.range.start.line != node.position.line:
        return "DMisplaced"
    if it.id in ("UndefinedTag", "UndefinedCommand") and it.data and it.data.get("type") == "fix-typo":
        return "DSuggestTag" if it.id == "UndefinedTag" else "DSuggestCommand"
    return "D" + it.id


def all_nodes(n):
    for c in (getattr(n, "children", None) or []):
        yield c
        yield from all_nodes(c)


class Doc:
    """what lsp_analysis.analyze reads of a pylsp Document"""
    def __init__(self, text):
        self.source = text
        self.version = 1
        self.uri = "file:///m.pcode"


def observe(case):
    """the editor's analysis (lsp_analysis.analyze: parse + SemanticCheckAnalyzer) of the whole text; per modelled line the
    diagnostic it carries. If the analysis raises, the visitors are run node by node to find the line that raises."""
    import logging
    logging.disable(logging.CRITICAL)
    from openpectus.lang.model.parser import ParserMethod, create_method_parser
    from openpectus.lang.exec.tags import TagValue, TagValueCollection
    from openpectus.lang.exec.analyzer import ConditionCheckAnalyzer, SimulateCheckAnalyzer, CommandCheckAnalyzer
    from openpectus.lsp.lsp_analysis import analyze, AnalysisInput
    tags = TagValueCollection([TagValue(n, unit=u) for n, u in case["tags"]])
    commands = get_commands()
    text = "\n".join(case["lines"])
    out = []
    try:
        result = analyze(AnalysisInput(commands, tags, "e"), Doc(text))
        crashed = None
    except Exception as ex:
        crashed = repr(ex)[:200]
    if crashed is None:
        for node in all_nodes(result.program):
            f, ids = node_facts(node, tags, commands)
            if f is None:
                continue
            mine = [it for it in result.items if it.node is node and it.id in ids]
            d = item_diag(mine[0], node) if mine else "DNone"
            out.append(dict(facts=f, diag=d, line=node.position.line, n_items=len(mine)))
        return out
    method = ParserMethod.from_pcode(text)
    program = create_method_parser(method, uod_command_names=[]).parse_method(method)
    located = False
    for node in all_nodes(program):
        f, ids = node_facts(node, tags, commands)
        if f is None:
            continue
        an = {"cond": ConditionCheckAnalyzer(tags), "sim": SimulateCheckAnalyzer(tags), "simoff": SimulateCheckAnalyzer(tags),
              "cmd": CommandCheckAnalyzer(commands)}[f["kind"]]
        try:
            r = getattr(an, "visit_" + type(node).__name__)(node)
            if r is not None:
                for _ in r:
                    pass
            mine = [it for it in an.items if it.id in ids]
            d = item_diag(mine[0], node) if mine else "DNone"
        except Exception:
            d = "DCrash"
            located = True
        out.append(dict(facts=f, diag=d, line=node.position.line, crash=crashed))
    if not located:                      # the analysis raised somewhere outside the modelled visitors
        out.append(dict(facts=dict(kind="simoff", blank=True), diag="DCrash", line=-1, crash=crashed))
    return out


_CMDS = None


def get_commands():
    """command collection built by the language server's own build_commands from definitions of the three validator kinds"""
    global _CMDS
    if _CMDS is None:
        from openpectus.lsp.lsp_analysis import build_commands
        import openpectus.protocol.models as M
        from openpectus.lang.exec.regex import RegexNumber, RegexText
        from openpectus.lang.exec.argument_specification import ArgSpec
        defs = [("CmdA", RegexNumber(units=None)), ("CmdB", RegexText(allow_empty=True)), ("Notify", None),
                ("Wait", RegexNumber(units=["s", "min", "h"])), ("Stop", ArgSpec.NoArgsInstance.regex),
                ("Pause", ArgSpec.NoArgsInstance.regex), ("Base", RegexText(allow_empty=False))]
        _CMDS = build_commands(M.UodDefinition(
            commands=[M.CommandDefinition(name=n, validator=None if v is None else "RNAP-v1-" + v, docstring=None)
                      for n, v in defs[:3]],
            system_commands=[M.CommandDefinition(name=n, validator="RNAP-v1-" + v, docstring=None) for n, v in defs[3:]],
            tags=[]))
    return _CMDS


def lk(l):
    return "{| l_defined := %s; l_long := %s; l_any := %s; l_similar := %s |}" % (b(l["defined"]), b(l["long"]), b(l["any"]), b(l["similar"]))


NOLK = dict(defined=False, long=False, any=False, similar=False)


class C19(Prop):
    ID = "C19"
    DESIGN_REF = "DESIGN.md §7 C19"
    COQ_IMPORTS = ""
    SHARD = 300
    QUICK_N = 800
    THOROUGH_N = 30000
    LEVEL_TEXT = ("Coq theorems about a model of the decision logic of ConditionCheckAnalyzer.analyze_condition, "
                  "SimulateCheckAnalyzer (Simulate / Simulate off) and CommandCheckAnalyzer.check_command_node: for EVERY "
                  "combination of the facts these test (name defined or not, length, collection empty or not, close spelling "
                  "match or not, operator / value / unit facts, argument facts) the resulting diagnostic is not a crash, is an "
                  "'undefined' error whenever the referenced tag / command is undefined, and is an error whenever the "
                  "condition / assignment is incomplete; lifted to methods of any length. PARTIAL in that the facts themselves "
                  "(parser extraction, Levenshtein ratio, unit tables, regex validation) and the six other analyzers are inputs "
                  "/ not modelled: for those the check observes on every generated text that lsp_analysis.analyze does not raise.")
    LEVEL_NOTE = ("Theorems are about coq/model/C19.v. Tie: every generated method text is analysed by the real "
                  "lsp_analysis.analyze (real parser + SemanticCheckAnalyzer with all nine analyzers) against generated tag "
                  "collections and a command collection built by the language server's own build_commands; for every Watch / "
                  "Alarm / Simulate / Simulate off / command node the harness computes the fact record from the real node and "
                  "collections with the library functions the analyzers call, and the diagnostic carried by that node (id, "
                  "suggestion or not; 'misplaced' when it is not an ERROR starting on the node's line; 'crash' located by "
                  "running the visitors node by node when the analysis raises) is compared with the model's; the Coq monitor "
                  "holds_b checks the property on the observed diagnostics independently of the model's decision tree. The "
                  "/repo fix (long undefined tag without a close match fell through to tags.get, which raises; Simulate off "
                  "reported nothing) is mirrored by the model variant analyze_condition_old with a crash witness.")
    TECHNIQUE = "Coq proof (exhaustive case analysis of the analyzers' decision logic over all fact combinations, lifted by induction to all methods) + node-level correspondence and Coq monitor on the real lsp_analysis.analyze over generated texts and collections"
    RULE = ("texts of 1-8 items: 40% Watch/Alarm conditions, 22% Simulate, 10% Simulate off, 28% commands; tag names 65% from the "
            "case's collection (a random 75% subset of 7 tags, 4 with units), else near-misses / far names / short / blank; "
            "operator present 90%; numeric value 85%; unit matching / compatible / none / random; command names defined or "
            "near-miss / far / short, arguments of 7 shapes against number / text / no-argument / unvalidated commands; 30% of "
            "the texts are passed through the malformed stream (structure keywords, thresholds, odd indentation, comments, "
            "unicode, shuffling); non-trivial = at least 3 distinct diagnostics in the text; distinct by canonical JSON")

    def __init__(self):
        self._obs = {}

    def gen_cases(self, rng, n, tier):
        return [gen_case(rng) for _ in range(n)]

    def run_impl(self, case):
        o = observe(case)
        self._obs[json.dumps(case, sort_keys=True)] = o
        return o

    def case_to_coq(self, case):
        o = self._obs.get(json.dumps(case, sort_keys=True)) or self.run_impl(case)
        return lst(self.case_to_coq_rows(o))

    def case_to_coq_rows(self, o):
        rows = []
        for x in o:
            f = x["facts"]
            if f["kind"] in ("cond", "sim"):
                c = ("{| c_present := %s; c_tag_blank := %s; c_lookup := %s; c_op_ok := %s; c_value_empty := %s; c_tag_unit := %s; "
                     "c_cond_unit := %s; c_rhs_is_unit := %s; c_unit_error := %s; c_comparable := %s |}"
                     % (b(f["present"]), b(f.get("tag_blank", False)), lk(f.get("lookup", NOLK)), b(f.get("op_ok", False)),
                        b(f.get("value_empty", False)), b(f.get("tag_unit", False)), b(f.get("cond_unit", False)),
                        b(f.get("rhs_is_unit", False)), b(f.get("unit_error", False)), b(f.get("comparable", False))))
                rows.append(("LCond " if f["kind"] == "cond" else "LSim ") + c)
            elif f["kind"] == "simoff":
                rows.append("LSimOff {| o_blank := %s; o_lookup := %s |}" % (b(f["blank"]), lk(f.get("lookup", NOLK))))
            else:
                rows.append("LCmd {| k_lookup := %s; k_noargs_with_arg := %s; k_args_valid := %s |}"
                            % (lk(f["lookup"]), b(f.get("noargs_with_arg", False)), b(f.get("args_valid", False))))
        return rows

    def obs_to_coq(self, obs):
        return lst([x["diag"] for x in obs])

    def nontrivial(self, case, obs):
        ds = {x["diag"] for x in obs}
        return len(ds) >= 3

    def kind(self, case, obs):
        return ",".join(sorted({x["diag"][1:5] for x in obs}))[:60]

    def size(self, case):
        return len(case["lines"])


PROP = C19()
