"""C40: controlled two-thread interleavings of Engine.tick with a request, no source hook:
yield points are method wrappers installed on the engine instance / classes for the duration of a case and
the engine's lock is replaced by a proxy that reports when a thread has to wait."""
import json
import threading

from harness.common import Prop, b
from harness.translate_sites import translate
from harness.engine_env import Env, gen_method

REQS = ["set_method", "inject_code", "control", "cancel", "force"]
COQ_REQ = dict(set_method="RSetMethod", inject_code="RInject", control="RControl", cancel="RCancel", force="RForce")
TICK_POINTS = ["tracking", "interpreter", "calculated", "commands", "notify", "write"]
KT = len(TICK_POINTS)
KR = 2


class Sched:
    def __init__(self, pause_thread, pause_point):
        self.pause_thread = pause_thread
        self.pause_point = pause_point
        self.paused = threading.Event()
        self.resume = threading.Event()
        self.blocked = threading.Event()
        self.done = {"T": threading.Event(), "R": threading.Event()}
        self.trace = []
        self.hit = False

    def point(self, k):
        name = threading.current_thread().name
        self.trace.append((name, k))
        if name == self.pause_thread and k == self.pause_point and not self.hit:
            self.hit = True
            self.paused.set()
            self.resume.wait(20)


class LockProxy:
    def __init__(self, real, sched):
        self.real = real
        self.sched = sched

    def __enter__(self):
        if not self.real.acquire(blocking=False):
            self.sched.trace.append((threading.current_thread().name, "wait"))
            self.sched.blocked.set()
            self.real.acquire()
        self.sched.trace.append((threading.current_thread().name, "lock"))
        return self

    def __exit__(self, *a):
        self.sched.trace.append((threading.current_thread().name, "unlock"))
        self.real.release()

    def acquire(self, *a, **k):
        return self.real.acquire(*a, **k)

    def release(self):
        return self.real.release()

    def locked(self):
        return self.real.locked()


def _digest(env):
    e = env.engine
    ms = e.method_manager.get_method_state()
    tags = {}
    for t in e._iter_all_tags():
        if str(t.name) in ("Run Id", "Clock"):
            continue
        v = t.get_value()
        tags[str(t.name)] = v if not isinstance(v, float) else round(v, 6)
    items = []
    try:
        for it in e.tracking.get_runlog().items:
            items.append([it.name, str(it.state), it.cancellable, it.forcible, it.cancelled, it.forced])
    except Exception as ex:
        items = ["runlog-error", type(ex).__name__]
    cm = e._command_manager
    return dict(started=sorted(ms.started_line_ids), executed=sorted(ms.executed_line_ids), failed=sorted(ms.failed_line_ids),
                injected=len(ms.injected_line_ids), tags=tags, runlog=items,
                flags=[e._runstate_started, e._runstate_paused, e._runstate_holding, e._runstate_stopping],
                queue=[r.name for r in list(cm.cmd_queue.queue)] if hasattr(cm.cmd_queue, "queue") else [],
                executing=[r.name for r in cm.cmd_executing],
                method=e.method_manager._method.as_pcode(), error=e.has_error_state(),
                uod_cmds=[x[:2] for x in env.cmd_log])


class Runner:
    """one engine prepared up to the tick at which the request arrives"""

    def __init__(self, case):
        self.case = case
        self.env = Env("\n".join(case["method"]) + "\n", t0=1000.0, dt=0.5)
        self.env.start()
        pre = {}
        for t, cmd in case.get("pre", []):
            pre.setdefault(t, []).append(cmd)
        for k in range(case["pre_ticks"]):
            for cmd in pre.get(k, []):
                try:
                    self.env.user(cmd)
                except Exception:
                    pass
            self.env.tick()
        for cmd in pre.get(case["pre_ticks"], []):      # requested just before the tick that runs concurrently
            try:
                self.env.user(cmd)
            except Exception:
                pass
        self.result = None
        # cancel / force name a run-log item: it is chosen from the run log as it is BEFORE the tick (the user clicks on
        # what the frontend shows), identically in the interleaved and in both serial runs
        self.item = None
        if case["req"] in ("cancel", "force"):
            try:
                items = [it for it in self.env.engine.tracking.get_runlog().items
                         if (it.cancellable if case["req"] == "cancel" else it.forcible)]
            except Exception:
                items = []
            if items:
                it = items[case["arg"] % len(items)]
                self.item = (it.id, it.name)

    def request(self):
        c = self.case
        e = self.env.engine
        kind = c["req"]
        try:
            if kind == "set_method":
                lines = list(c["method"]) + c["arg"]
                r = self.env.set_method("\n".join(lines) + "\n")
            elif kind == "inject_code":
                r = e.inject_code(c["arg"])
            elif kind == "control":
                r = e.execute_control_command_from_user(c["arg"])
            else:
                if self.item is None:
                    self.result = ["no-item"]
                    return
                r = e.cancel_instruction(self.item[0]) if kind == "cancel" else e.force_instruction(self.item[0])
                self.result = ["ok", self.item[1]]
                return
            self.result = ["ok", str(r)]
        except Exception as ex:
            self.result = ["raise", type(ex).__name__]

    def tick(self):
        try:
            self.env.tick()
            self.tick_result = ["ok"]
        except Exception as ex:
            self.tick_result = ["raise", type(ex).__name__]


def _install_points(runner, sched):
    """wrappers that call sched.point before each phase of the tick body and inside each request body"""
    from openpectus.lang.exec.pinterpreter import PInterpreter
    from openpectus.lang.exec.tracking import Tracking
    from openpectus.engine.command_manager import CommandManager
    from openpectus.engine.method_manager import MethodManager
    e = runner.env.engine
    saved = []

    def patch(obj, name, k, after=False):
        orig = getattr(obj, name)
        is_cls = isinstance(obj, type)

        def w(*a, **kw):
            if not after:
                sched.point(k)
            try:
                return orig(*a, **kw)
            finally:
                if after:
                    sched.point(k)
        saved.append((obj, name, orig, is_cls))
        setattr(obj, name, w)

    patch(Tracking, "tick", 0)
    patch(PInterpreter, "tick", 1)
    patch(e, "update_calculated_tags", 2)
    patch(CommandManager, "tick", 3)
    patch(e, "notify_tag_updates", 4)
    patch(e, "write_process_image", 5)
    # request bodies: point 0 just before the mutation, point 1 just after it
    for cls, name in ((MethodManager, "merge_method"), (MethodManager, "set_method"), (PInterpreter, "inject_node"),
                      (CommandManager, "schedule"), (CommandManager, "cancel_instruction"),
                      (CommandManager, "force_instruction")):
        orig = getattr(cls, name)

        def mk(orig):
            def w(*a, **kw):
                if threading.current_thread().name == "R":
                    sched.point(0)
                try:
                    return orig(*a, **kw)
                finally:
                    if threading.current_thread().name == "R":
                        sched.point(1)
            return w
        saved.append((cls, name, orig, True))
        setattr(cls, name, mk(orig))
    e._lock = LockProxy(e._lock, sched)

    def undo():
        for obj, name, orig, is_cls in reversed(saved):
            if is_cls:
                setattr(obj, name, orig)
            else:
                try:
                    delattr(obj, name)
                except AttributeError:
                    setattr(obj, name, orig)
    return undo


def run_interleaved(case):
    runner = Runner(case)
    pt = "T" if case["pause_tick"] else "R"
    sched = Sched(pt, case["pos"])
    undo = _install_points(runner, sched)
    try:
        first = threading.Thread(target=runner.tick if pt == "T" else runner.request, name=pt, daemon=True)
        other_name = "R" if pt == "T" else "T"
        second = threading.Thread(target=runner.request if pt == "T" else runner.tick, name=other_name, daemon=True)
        first.start()
        # wait until the first thread is paused at its point, or finished without reaching it
        while not sched.paused.wait(0.005):
            if not first.is_alive():
                break
        reached = sched.paused.is_set()
        waited = False
        if reached:
            second.start()
            # wait until the second thread is done or has to wait for the lock
            while second.is_alive() and not sched.blocked.wait(0.002):
                pass
            waited = sched.blocked.is_set() and second.is_alive()
            sched.resume.set()
            first.join(30)
            second.join(30)
        else:
            first.join(30)
            second.start()
            second.join(30)
        stuck = first.is_alive() or second.is_alive()
        order = [n for n, k in sched.trace if k == "unlock"]
        return dict(reached=reached, waited=waited, stuck=stuck, digest=_digest(runner.env), req=runner.result,
                    tick=getattr(runner, "tick_result", None),
                    order=[0 if n == "T" else 1 for n in order], trace=[[n, k] for n, k in sched.trace][:60])
    finally:
        sched.resume.set()
        undo()
        runner.env.close()


def run_serial(case, tick_first):
    runner = Runner(case)
    try:
        if tick_first:
            runner.tick()
            runner.request()
        else:
            runner.request()
            runner.tick()
        return dict(digest=_digest(runner.env), req=runner.result, tick=runner.tick_result)
    finally:
        runner.env.close()


class C40(Prop):
    ID = "C40"
    COQ_IMPORTS = "From OP Require Import model.Ser."
    DESIGN_REF = "DESIGN.md §7 C40"
    LEVEL_TEXT = ("Coq theorem for ANY threads, sections, micro-steps and schedules: if every section runs under one lock, the "
                  "final state is that of a serial execution of whole sections in completion order, each thread's sections "
                  "in program order (invariant by induction over the schedule); the hypothesis is discharged on the table of "
                  "Engine's request entry points and tick body regenerated from the source (all under self._lock). The real "
                  "Engine is then driven by two real threads through every pause point of the tick body and of each request "
                  "body; the observed waiting, completion order and final state must equal the model's and one of the two "
                  "serial runs. Partial: pre-emption is explored only at phase boundaries; the GIL and threading.Lock are trusted.")
    LEVEL_NOTE = ("Theorems are about coq/model/Ser.v (generic lock machine). Ties: gen/Sites.v (AST of engine.py: which "
                  "entry points wrap their whole body in `with self._lock`, which phases of tick are inside the lock); "
                  "two-thread runs of the real engine with wrappers as yield points and a lock proxy (no source hook). "
                  "No axioms.")
    TECHNIQUE = "Coq proof (serialisability from mutual exclusion, induction over schedules) + regenerated lock-site table + controlled two-thread runs of the real Engine"
    RULE = ("generated methods x a request (set_method edit, inject_code, control command, cancel, force) x the thread that is "
            "paused (tick at one of 6 phase boundaries inside its body, or the request before/after its mutation) while the "
            "other thread runs; compared with the two serial orders on fresh engines; non-trivial = the pause point was "
            "reached and the other thread had to wait; distinct by canonical JSON")
    QUICK_N = 300
    THOROUGH_N = 3000
    SHARD = 200
    TRUSTED = ["CPython's GIL and threading.Lock; pre-emption only at the wrapped phase boundaries",
               "the state digest (method state, tag values, run log, run-state flags, command queues, UOD call log)"]
    ASSUMPTIONS = ["requests arrive on one other thread (the aggregator's message handlers are awaited one at a time)"]

    def __init__(self):
        self._obs = {}

    def translators(self):
        return [("sites", translate)]

    def gen_cases(self, rng, n, tier):
        out = []
        for _ in range(n):
            lines = gen_method(rng, max_lines=rng.randint(3, 9), allow=("mark", "block", "watch", "cmd", "wait", "misc", "alarm"))
            req = rng.choice(REQS)
            if req == "set_method":
                arg = gen_method(rng, max_lines=2, allow=("mark", "cmd", "misc"))
            elif req == "inject_code":
                arg = "\n".join(gen_method(rng, max_lines=2, allow=("mark", "cmd", "misc"))) + "\n"
            elif req == "control":
                arg = rng.choice(["Pause", "Hold", "Stop", "Restart", "Unpause", "Start"])
            else:
                arg = rng.randint(0, 5)
            pause_tick = rng.random() < 0.65
            pre_ticks = rng.randint(1, 12)
            pre = []
            if rng.random() < 0.5:       # a Stop / Restart / Pause ... in progress when the request arrives
                for _ in range(rng.randint(1, 2)):
                    pre.append([max(0, pre_ticks - rng.randint(0, 2)), rng.choice(["Stop", "Restart", "Stop", "Pause", "Hold"])])
            out.append(dict(method=lines, pre_ticks=pre_ticks, pre=pre, req=req, arg=arg, pause_tick=pause_tick,
                            pos=rng.randrange(KT) if pause_tick else rng.randrange(KR)))
        return out

    def run_impl(self, case):
        inter = run_interleaved(case)
        a = run_serial(case, True)
        c = run_serial(case, False)

        def same(x):
            return (json.dumps(x["digest"], sort_keys=True, default=str) == json.dumps(inter["digest"], sort_keys=True, default=str)
                    and x["req"] == inter["req"] and x["tick"] == inter["tick"])
        serial = same(a) or same(c)
        diff = None
        if not serial:
            diff = {k: [inter["digest"].get(k), a["digest"].get(k), c["digest"].get(k)] for k in inter["digest"]
                    if not (inter["digest"].get(k) == a["digest"].get(k) or inter["digest"].get(k) == c["digest"].get(k))}
            diff["req"] = [inter["req"], a["req"], c["req"]]
        obs = dict(reached=inter["reached"], waited=inter["waited"], order=inter["order"], serial=serial,
                   stuck=inter["stuck"], req=inter["req"], diff=diff, trace=inter["trace"][:30])
        self._obs[json.dumps(case, sort_keys=True)] = obs
        return obs

    @staticmethod
    def _reached(obs):
        return bool(obs["reached"]) and not obs["stuck"] and obs["req"] != ["no-item"]

    def case_to_coq(self, case):
        obs = self._obs[json.dumps(case, sort_keys=True)]
        return ("{| kt := %d; kr := %d; req := %s; pause_tick := %s; pos := %d; reached := %s |}"
                % (KT, KR, COQ_REQ[case["req"]], b(case["pause_tick"]), case["pos"], b(self._reached(obs))))

    def obs_to_coq(self, obs):
        # cases whose pause point is never reached (e.g. the interpreter does not tick while stopped, or the request is
        # rejected before its mutation) run serially: the model's prediction for them is the serial one
        if not self._reached(obs):
            return "{| o_waited := false; o_order := []; o_serial := %s |}" % b(obs["serial"] and not obs["stuck"])
        order = obs["order"]
        return "{| o_waited := %s; o_order := [%s]; o_serial := %s |}" % (
            b(obs["waited"]), "; ".join(f"{x}%nat" for x in order), b(obs["serial"]))

    def nontrivial(self, case, obs):
        return self._reached(obs) and obs["waited"]

    def kind(self, case, obs):
        return f"{case['req']},{'tick' if case['pause_tick'] else 'req'}@{case['pos']},reached={obs['reached']}"


PROP = C40()
