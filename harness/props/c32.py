"""C32: every route of the aggregator x (required roles, user roles) over a three-role universe, through the real
FastAPI application (AggregatorServer) with an in-process test client."""
import itertools
import json
import os
import re
from unittest.mock import AsyncMock

from harness.common import Prop, b, BUILD
from harness.translate_routes import translate, _routes_of, ROUTERS
from harness import agg_env

ROLES = ["ra", "rb", "rc"]
SUBSETS = [list(c) for k in range(4) for c in itertools.combinations(range(3), k)]     # 8 subsets of {0,1,2}


def nl(xs):
    return "[" + "; ".join(f"{x}%nat" for x in xs) + "]"


class C32(Prop):
    ID = "C32"
    COQ_IMPORTS = "From OP Require Import gen.Routes."
    DESIGN_REF = "DESIGN.md §7 C32"
    LEVEL_TEXT = ("Coq theorems about an executable model of has_access, the two guard functions and guarded / filtered "
                  "handlers: a user lacking every required role gets 403 before the handler body runs, listings omit the "
                  "object, objects requiring no role are open (for ALL role sets); the table of ALL routes of "
                  "process_unit.py, recent_runs.py and lsp.py is regenerated from their ASTs on every run and every route "
                  "that takes a unit or run is proved guarded except the two LSP endpoints (full statement refuted; "
                  "known findings). Every route x every (required, user) pair over three roles is then sent through the "
                  "real FastAPI application (exhaustive) and compared with the model.")
    LEVEL_NOTE = ("Theorems are about coq/model/C32.v. Ties: gen/Routes.v (fail-closed AST scan: the first effective "
                  "statement of each handler must be the role-aware guard; has_access is compared with its transcription); "
                  "the real AggregatorServer app under fastapi.testclient with the role dependency overridden, engines "
                  "and recent runs created through the real message handlers on SQLite, the dispatcher's rpc_call mocked "
                  "to count what reaches an engine. The LSP websocket is exercised through lsp_analysis's fetch functions, "
                  "not over a socket. No axioms.")
    TECHNIQUE = "Coq proof (access predicate and guard semantics) + regenerated route table + exhaustive route x role-pair correspondence through the real FastAPI app"
    RULE = ("every route of the three routers x 8 required-role sets x 8 user-role sets over {ra, rb, rc}, plus a missing "
            "unit/run per route; listings with all 8 objects present; exhaustive; non-trivial = a route that takes a unit "
            "or run with a non-empty required set; distinct by canonical JSON")
    QUICK_N = 0
    THOROUGH_N = 0
    SHARD = 400
    TRUSTED = ["FastAPI dependency injection and dependency_overrides; starlette TestClient",
               "AggregatorServer.setup_fastapi mounts the routers as in production"]
    ASSUMPTIONS = ["user roles come from the validated token (auth.user_roles); token validation is outside the model"]

    def translators(self):
        return [("routes", translate)]

    # ------------------------------------------------------------------ fixture
    def setup(self):
        import logging
        logging.disable(logging.CRITICAL)
        os.makedirs(BUILD / "C32", exist_ok=True)
        dbp = BUILD / "C32" / "agg.sqlite3"
        if dbp.exists():
            dbp.unlink()
        from openpectus.aggregator.aggregator_server import AggregatorServer
        from openpectus.aggregator.data import database
        import openpectus.aggregator.data.models as DMdl
        import openpectus.aggregator.routers.auth as auth
        import openpectus.protocol.aggregator_messages as AM
        from fastapi.testclient import TestClient
        self.srv = AggregatorServer(db_path=str(dbp), webpush_keys_path=str(BUILD / "C32" / "keys"))
        DMdl.DBModel.metadata.create_all(database._engine)
        self.app = self.srv.fastapi
        self.roles_now = set()
        self.app.dependency_overrides[auth.user_roles] = lambda: set(self.roles_now)
        self.client = TestClient(self.app)
        self.agg = self.srv.aggregator
        self.rpc = AsyncMock(return_value=AM.SuccessMessage())
        self.agg.dispatcher.rpc_call = self.rpc
        agg_env.in_loop(self._populate)
        self.route_table = []
        for m in ROUTERS:
            r, _ = _routes_of(m)
            self.route_table += r

    def _populate(self):
        import openpectus.protocol.engine_messages as EM
        import openpectus.aggregator.models as Mdl
        import openpectus.protocol.models as PM
        from openpectus import __version__
        from openpectus.aggregator.aggregator_message_handlers import AggregatorMessageHandlers
        handlers = AggregatorMessageHandlers(self.agg)

        def call(coro):
            try:
                coro.send(None)
            except StopIteration as si:
                return si.value
            raise RuntimeError("handler suspended")
        self.engine_ids, self.run_ids, self.offline_ids = {}, {}, {}
        for k, sub in enumerate(SUBSETS):
            roles = {ROLES[i] for i in sub}
            for kind in ("live", "offline"):
                uod = f"{kind}{k}"
                msg = EM.RegisterEngineMsg(computer_name="c", uod_name=uod, uod_author_name="a", uod_author_email="m",
                                           uod_filename="f", location="l", engine_version=__version__)
                call(handlers.handle_RegisterEngineMsg(msg))
                eid = f"c_{uod}"
                ed = self.agg._engine_data_map[eid]
                ed.required_roles = set(roles)
                ed.readings = [agg_env.reading("T0")]
                ed.data_log_interval_seconds = 0.0
                ed.uod_definition = PM.UodDefinition(commands=[], system_commands=[], tags=[PM.TagDefinition(name="T0")]) \
                    if hasattr(PM, "TagDefinition") else None
                if kind == "offline":
                    call(handlers.handle_EngineDisconnected(eid))
                    self.offline_ids[k] = eid
                    continue
                self.engine_ids[k] = eid
                # a finished run (-> RecentRun with these roles) and then an active one
                for run, stop in ((f"r{k}", True), (f"a{k}", False)):
                    m = EM.RunStartedMsg(run_id=run, started_tick=1.0)
                    m.engine_id = eid
                    call(handlers.handle_RunStartedMsg(m))
                    t = EM.TagsUpdatedMsg(tags=[agg_env.tag_value("T0", 1, 2.0), agg_env.tag_value("Run Time", 1.0, 2.0)], run_id=run)
                    t.engine_id = eid
                    call(handlers.handle_TagsUpdatedMsg(t))
                    if stop:
                        s = EM.RunStoppedMsg(run_id=run, runlog=Mdl.RunLog.empty(), method_state=Mdl.MethodState.empty(),
                                             archive="x", archive_filename="x.csv")
                        s.engine_id = eid
                        call(handlers.handle_RunStoppedMsg(s))
                        self.run_ids[k] = run

    def teardown(self):
        try:
            self.client.close()
        except Exception:
            pass

    # ------------------------------------------------------------------ cases
    def gen_cases(self, rng, n, tier):
        routes, _ = [], None
        table = []
        for m in ROUTERS:
            r, _ = _routes_of(m)
            table += r
        out = []
        for i, (name, verb, path, tu, tr, kind) in enumerate(table):
            if kind in ("ListingFiltered", "ListingUnfiltered"):
                for u in SUBSETS:
                    out.append(["list", i, u])
            else:
                for k in range(len(SUBSETS)):
                    for u in SUBSETS:
                        out.append(["route", i, k, u])
                for u in (SUBSETS[0], SUBSETS[7]):
                    out.append(["route", i, None, u])
        return out

    BODIES = {
        "process_unit.execute_command": dict(command="Mark: a", source="manually_entered"),
        "process_unit.execute_control_button_command": dict(command="Start", source="unit_button"),
        "process_unit.save_method": dict(lines=[dict(id="1", content="Mark: a")], version=0, last_author=""),
    }

    def _request(self, name, verb, path, obj_id):
        url = "/api" + re.sub(r"\{(unit_id|engine_id|run_id)\}", obj_id, path)
        url = re.sub(r"\{line_id\}", "x", url)
        if verb == "GET":
            return self.client.get(url)
        body = self.BODIES.get(name)
        return self.client.post(url, json=body) if body is not None else self.client.post(url)

    def run_impl(self, case):
        name, verb, path, tu, tr, kind = self.route_table[case[1]]
        self.roles_now = {ROLES[i] for i in case[-1]}
        if case[0] == "list":
            r = self._request(name, verb, path, "")
            assert r.status_code == 200, (name, r.status_code, r.text[:200])
            data = r.json()
            if name == "recent_runs.get_recent_runs":
                ids = {d["run_id"] for d in data}
                return ["list", [self.run_ids[k] in ids for k in range(len(SUBSETS))]]
            if name == "process_unit.get_units":
                ids = {d["id"] for d in data}
                return ["list", [self.engine_ids[k] in ids for k in range(len(SUBSETS))]
                        + [self.offline_ids[k] in ids for k in range(len(SUBSETS))]]
            ids = {d["process_unit"]["id"] for d in data}
            return ["list", [self.engine_ids[k] in ids for k in range(len(SUBSETS))]]
        k = case[2]
        if verb == "WEBSOCKET":
            # the LSP server answers per-engine queries through these functions (no user in sight)
            from openpectus.lsp import lsp_analysis
            eid = "c_missing" if k is None else self.engine_ids[k]
            got = lsp_analysis.fetch_process_value(eid, "T0")
            return ["resp", "pass" if got is not None else "404", False]
        if k is None:
            obj = "missing"
        else:
            obj = self.run_ids[k] if tr else self.engine_ids[k]
        self.rpc.reset_mock()
        r = self._request(name, verb, path, obj)
        reached = self.rpc.await_count > 0 or self.rpc.call_count > 0
        if r.status_code == 422:
            raise AssertionError(f"{name}: request body not accepted: {r.text[:300]}")
        if r.status_code == 403:
            cls = "403"
        elif k is None and r.status_code == 404:
            cls = "404"
        else:
            cls = "pass"          # the guard let the request through (whatever the handler then answered)
        return ["resp", cls, bool(reached), r.status_code]

    def case_to_coq(self, case):
        if case[0] == "list":
            n = 2 if self.route_table[case[1]][0] == "process_unit.get_units" else 1
            objs = "[" + "; ".join(nl(s) for s in SUBSETS * n) + "]"
            return f"QList {case[1]}%nat {objs} {nl(case[2])}"
        obj = "None" if case[2] is None else f"(Some {nl(SUBSETS[case[2]])})"
        return f"QRoute {case[1]}%nat {obj} {nl(case[3])}"

    def obs_to_coq(self, obs):
        if obs[0] == "list":
            return "AList [" + "; ".join(b(x) for x in obs[1]) + "]"
        cls = {"403": "R403", "404": "R404", "pass": "RPass"}[obs[1]]
        return f"AResp {cls} {b(obs[2])}"

    def nontrivial(self, case, obs):
        if case[0] == "list":
            return True
        name, verb, path, tu, tr, kind = self.route_table[case[1]]
        return (tu or tr) and case[2] is not None and len(SUBSETS[case[2]]) > 0

    def classify(self, case, obs):
        name = self.route_table[case[1]][0]
        if name == "lsp.get_pcode_tm_grammar":
            return "C32-lsp-grammar-route-unguarded"
        if name == "lsp.lsp_server_endpoint":
            return "C32-lsp-websocket-unguarded"
        return None

    def kind(self, case, obs):
        return f"{self.route_table[case[1]][5]},{obs[1] if obs[0] == 'resp' else 'list'}"

    def size(self, case):
        return len(json.dumps(case))


PROP = C32()
