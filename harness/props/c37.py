from unittest.mock import Mock

from harness.common import Prop, lst, tup, b
from harness import agg_env


def nl(xs):
    return lst([f"{x}%nat" for x in xs])


class C37(Prop):
    ID = "C37"
    DESIGN_REF = "DESIGN.md §7 C37"
    LEVEL_TEXT = ("Coq invariant over ALL histories of subscribe/register/unregister/disconnect (any number of earlier "
                  "connections): a listed user has a live connection, and the last disconnect removes the user from "
                  "every unit. Proved for the repaired code (fix recorded); model and the real FromFrontend are run on "
                  "the same histories.")
    LEVEL_NOTE = ("Theorems are about coq/model/C37.v on the domain where users register while connected and one "
                  "connection carries one user's dead-man switch; tie = real FromFrontend methods with a mocked "
                  "publisher, active-user lists compared after every operation. No axioms.")
    TECHNIQUE = "Coq proof (history invariant by induction) + model/implementation correspondence"
    RULE = ("histories of <= 12 operations over 3 users, 4 connections, 2 existing units and 1 missing unit; 70% follow "
            "the frontend protocol (subscribe before register), 30% arbitrary; non-trivial = some user connects at "
            "least twice and disconnects; distinct by canonical JSON")
    QUICK_N = 2500
    THOROUGH_N = 60000
    TRUSTED = ["fastapi_websocket_pubsub subscribe/disconnect callbacks are invoked directly with connection ids"]
    ASSUMPTIONS = ["users register while holding a live connection (the monitor is only applied to such histories; "
                   "all histories are compared with the model)"]

    def gen_cases(self, rng, n, tier):
        out = []
        for _ in range(n):
            ops = []
            proto = rng.random() < 0.7
            live = {}
            for _ in range(rng.randint(1, 12)):
                r = rng.random()
                if r < 0.3:
                    c = rng.randrange(4)
                    u = live.get(c, rng.randrange(3)) if proto else rng.randrange(3)
                    live[c] = u
                    ops.append(["Sub", c, u])
                elif r < 0.55:
                    if proto and live:
                        u = rng.choice(list(live.values()))
                    else:
                        u = rng.randrange(3)
                    ops.append(["Reg", rng.choice([0, 0, 1, 1, 2]), u])
                elif r < 0.7:
                    ops.append(["Unreg", rng.choice([0, 1, 2]), rng.randrange(3)])
                else:
                    c = rng.choice(list(live)) if (live and rng.random() < 0.8) else rng.randrange(4)
                    live.pop(c, None)
                    ops.append(["Disc", c])
            out.append([2, ops])
        return out

    def run_impl(self, case):
        from openpectus.aggregator.aggregator import FromFrontend
        nunits, ops = case
        edm = {f"E{i}": agg_env.engine_data(f"E{i}") for i in range(nunits)}
        ff = FromFrontend(edm, Mock(), agg_env.publisher_mock(), Mock())
        out = []
        for o in ops:
            if o[0] == "Sub":
                agg_env.run(ff.user_subscribed_pubsub(f"c{o[1]}", ["x/y", f"dead_man_switch/U{o[2]}"]))
                r = True
            elif o[0] == "Reg":
                r = bool(agg_env.run(ff.register_active_user(f"E{o[1]}", f"U{o[2]}", "name")))
            elif o[0] == "Unreg":
                r = bool(agg_env.run(ff.unregister_active_user(f"E{o[1]}", f"U{o[2]}")))
            else:
                try:
                    agg_env.run(ff.on_ws_disconnect(f"c{o[1]}"))
                    r = True
                except KeyError:
                    r = False     # the request raised
            out.append([r, [[int(k[1:]) for k in edm[f"E{i}"].active_users.keys()] for i in range(nunits)]])
        return out

    def case_to_coq(self, case):
        return tup(f"{case[0]}%nat", lst([f"{o[0]} " + " ".join(f"{x}%nat" for x in o[1:]) for o in case[1]]))

    def obs_to_coq(self, obs):
        return lst([tup(b(r), lst([nl(us) for us in act])) for r, act in obs])

    def nontrivial(self, case, obs):
        subs = {}
        for o in case[1]:
            if o[0] == "Sub":
                subs.setdefault(o[2], set()).add(o[1])
        return any(len(v) >= 2 for v in subs.values()) and any(o[0] == "Disc" for o in case[1])

    def kind(self, case, obs):
        return f"ops={len(case[1])}"


PROP = C37()
