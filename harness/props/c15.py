"""C15: RuntimeInfo.get_runlog on synthetic runtime records vs the Coq model of the distillation, plus the run logs the
real engine produces during executions (monitor only)."""
import json

from harness.common import Prop, z, lst, b

SN = ["Created", "AwaitingThreshold", "AwaitingCondition", "Started", "UodCommandSet", "InternalEngineCommandSet",
      "Cancelled", "Forced", "Completed", "Failed"]
SNC = {"Created": "SCreated", "AwaitingThreshold": "SAwaitingThreshold", "AwaitingCondition": "SAwaitingCondition",
       "Started": "SStarted", "UodCommandSet": "SUodCommandSet", "InternalEngineCommandSet": "SInternalCommandSet",
       "Cancelled": "SCancelled", "Forced": "SForced", "Completed": "SCompleted", "Failed": "SFailed"}
CLS = {"ProgramNode": "CSkipped", "BlankNode": "CSkipped", "CommentNode": "CSkipped", "InjectedNode": "CSkipped",
       "NullNode": "CNull", "ErrorInstructionNode": "CError", "MarkNode": "COther", "UodCommandNode": "COther",
       "WatchNode": "COther", "AlarmNode": "COther"}
IST = {"unknown": "IUnknown", "awaitingthreshold": "IAwaitingThreshold", "started": "IStarted", "cancelled": "ICancelled",
       "forced": "IForced", "completed": "ICompleted", "failed": "IFailed"}


def nat(x):
    return f"{int(x)}%nat"


def gen_records(rng):
    recs = []
    inst = 0
    t = 0
    for _ in range(rng.randint(1, 6)):
        cls = rng.choice(["MarkNode", "UodCommandNode", "UodCommandNode", "AlarmNode", "WatchNode", "MarkNode", "BlankNode",
                          "NullNode", "ErrorInstructionNode", "ProgramNode"])
        name = rng.choice(["n", "n", "n", "n", None, "Stop"])
        states = []
        ninv = rng.choice([1, 1, 1, 2, 3])
        insts = list(range(inst, inst + ninv))
        inst += ninv
        plausible = rng.random() < 0.6
        for k in insts:
            if plausible:
                seq = ["Created"] + rng.choice([[], ["AwaitingThreshold"], ["AwaitingCondition"]]) \
                      + rng.choice([[], ["Forced"]]) + rng.choice([[], ["Started"], ["Started", "UodCommandSet"],
                                                                       ["Started", "InternalEngineCommandSet"]]) \
                      + rng.choice([[], [], ["Completed"], ["Failed"], ["Cancelled"], ["Cancelled", "Failed"],
                                    ["Cancelled", "Completed"], ["Completed", "Cancelled"]])
            else:
                seq = [rng.choice(SN) for _ in range(rng.randint(1, 6))]
            for nm in seq:
                if rng.random() < 0.93:
                    t += rng.choice([0, 0, 1, 2])
                    tt = t
                else:
                    tt = max(0, t - rng.randint(1, 3))       # out of order
                states.append(dict(name=nm, inst=k, time=tt, tick=tt, cancellable=rng.random() < 0.4, cancelled=rng.random() < 0.2,
                                   forcible=rng.random() < 0.3, forced=rng.random() < 0.2))
        if ninv > 1 and rng.random() < 0.5:
            rng.shuffle(states)          # interleaved invocations (alarm bodies)
            states.sort(key=lambda s: s["time"]) if rng.random() < 0.7 else None
        recs.append(dict(cls=cls, name=name, states=states))
    return recs


def real_runlog(recs):
    import logging
    logging.disable(logging.CRITICAL)
    from openpectus.lang.exec.runlog import RuntimeInfo, RuntimeRecord, RuntimeRecordState, RuntimeRecordStateEnum
    from openpectus.lang.exec.uod import UodCommand
    from openpectus.engine.internal_commands import InternalEngineCommand

    class FU(UodCommand):
        def __init__(self):
            pass

        def get_progress(self):
            return None

    class FI(InternalEngineCommand):
        def __init__(self):
            pass

        def get_progress(self):
            return None
    info = RuntimeInfo()
    for k, r in enumerate(recs):
        rec = RuntimeRecord(node_id=str(k), name=r["name"], node_class_name=r["cls"])
        for s in r["states"]:
            st = RuntimeRecordState(str(s["inst"]), RuntimeRecordStateEnum(s["name"].lower()) if False else
                                    getattr(RuntimeRecordStateEnum, s["name"]), float(s["time"]), int(s["tick"]), None)
            st.name = "n"
            st.cancellable, st.cancelled, st.forcible, st.forced = s["cancellable"], s["cancelled"], s["forcible"], s["forced"]
            if s["name"] == "UodCommandSet":
                st.command = FU()
            if s["name"] == "InternalEngineCommandSet":
                st.command = FI()
            rec.states.append(st)
        info._add_record(rec)
    try:
        rl = info.get_runlog()
    except Exception as ex:
        return dict(raised=type(ex).__name__)
    return dict(items=[item_tuple(it) for it in rl.items])


def item_tuple(it):
    return [int(it.id) if str(it.id).isdigit() else str(it.id), str(it.state).lower(), it.start, it.end,
            bool(it.cancellable), bool(it.cancelled), bool(it.forcible), bool(it.forced), bool(it.failed)]


def exec_runlogs(case):
    """an engine-core operation sequence on the real Engine; the run log after every operation"""
    from harness import eng_driver as D
    logs = []
    orig = D.Run.view

    def view(self, accepted):
        v = orig(self, accepted)
        try:
            rl = self.env.engine.tracking.get_runlog()
            logs.append([item_tuple(it) for it in rl.items])
        except Exception as ex:
            logs.append("RAISE:" + type(ex).__name__)
        return v
    D.Run.view = view
    try:
        D.run_case(case)
    finally:
        D.Run.view = orig
    # instance ids are uuids: number them by first appearance; times relative
    ids = {}
    out = []
    for lg in logs:
        if isinstance(lg, str):
            out.append(lg)
            continue
        row = []
        for it in lg:
            it = list(it)
            it[0] = ids.setdefault(it[0], len(ids))
            row.append(it)
        out.append(row)
    return out


def zq(x):
    """times: floats with exact binary fractions -> scaled integers"""
    v = float(x) * 1024
    assert v == int(v), x
    return z(int(v))


def item_coq(it):
    end = "None" if it[3] is None else f"(Some {zq(it[3])})"
    return ("{| i_id := %s; i_state := %s; i_start := %s; i_end := %s; i_cancellable := %s; i_cancelled := %s; "
            "i_forcible := %s; i_forced := %s; i_failed := %s |}"
            % (nat(it[0]), IST[it[1]], zq(it[2]), end, b(it[4]), b(it[5]), b(it[6]), b(it[7]), b(it[8])))


class C15(Prop):
    ID = "C15"
    DESIGN_REF = "DESIGN.md §7 C15"
    COQ_IMPORTS = ""
    SHARD = 200
    QUICK_N = 1200
    THOROUGH_N = 40000
    LEVEL_TEXT = ("Coq theorems about an executable model of the run-log distillation (get_runlog, "
                  "_get_record_runlog_items, _split_states_by_instance_id, _check_record_states_ordered, the sort): for "
                  "EVERY list of runtime records with ANY state sequences whose invocations are time-ordered a run log is "
                  "produced (it is refused only for states that go back in time), every produced run log is sorted by start "
                  "time, and every item is well formed (does not end before it starts; completed / failed / cancelled items "
                  "have an end time and are neither cancellable nor forcible); one invocation yields at most one item with "
                  "its instance id. PARTIAL: uniqueness of ids across records (uuid4) and which states an execution records "
                  "are outside the model; they are checked on the run logs of real executions.")
    LEVEL_NOTE = ("Theorems are about coq/model/C15.v (progress and tag values not modelled). Tie: (90%) synthetic records -- "
                  "plausible and arbitrary state sequences, interleaved invocations, out-of-order times, skipped / null / "
                  "error classes, missing and Stop names -- are built as real RuntimeRecord / RuntimeRecordState objects "
                  "(with real UodCommand / InternalEngineCommand subclasses as commands), passed through the real "
                  "RuntimeInfo.get_runlog and compared item by item with the model; (10%) engine-core executions with "
                  "failing and overlapping UOD commands and faults on the real Engine, get_runlog after every operation, "
                  "checked by the Coq monitor (never raises, sorted, distinct ids, well-formed items). The /repo fix (a "
                  "state after a conclusive state re-opens the emitted item instead of raising) is mirrored. No axioms.")
    TECHNIQUE = "Coq proof (totality and well-formedness of the run-log distillation for all record lists) + item-level correspondence through the real RuntimeInfo.get_runlog + Coq monitor on the run logs of real executions"
    RULE = ("90%: 1-6 records of 1-3 invocations each, 60% plausible state sequences (Created, optional awaiting, Forced, "
            "Started, command set, then none / one / two conclusive states), 40% arbitrary sequences of 1-6 states, 7% of "
            "the times out of order, shuffled invocations; 10%: UOD-heavy / fault-heavy engine executions of 10-45 "
            "operations; non-trivial = at least two items, or an execution with a run log of three items; distinct by "
            "canonical JSON")

    def gen_cases(self, rng, n, tier):
        from harness.props.c11 import gen_uod_case
        from harness.props.c13 import gen_fault_case
        out = []
        for _ in range(n):
            if rng.random() < 0.9:
                out.append(dict(kind="records", records=gen_records(rng)))
            else:
                c = gen_uod_case(rng) if rng.random() < 0.5 else gen_fault_case(rng)
                out.append(dict(kind="exec", case=c))
        return out

    def run_impl(self, case):
        if case["kind"] == "records":
            return dict(kind="records", **real_runlog(case["records"]))
        return dict(kind="exec", logs=exec_runlogs(case["case"]))

    def case_to_coq(self, case):
        if case["kind"] == "exec":
            return "IExec 0%nat"
        rs = []
        for r in case["records"]:
            sts = lst(["{| s_name := %s; s_inst := %s; s_time := %s; s_tick := %s; s_cancellable := %s; s_cancelled := %s; "
                       "s_forcible := %s; s_forced := %s |}" % (SNC[s["name"]], nat(s["inst"]), z(s["time"] * 1024), z(s["tick"]),
                                                               b(s["cancellable"]), b(s["cancelled"]), b(s["forcible"]), b(s["forced"]))
                       for s in r["states"]])
            nm = "NNone" if r["name"] is None else ("NStop" if r["name"] == "Stop" else "NName")
            rs.append("{| r_class := %s; r_name := %s; r_states := %s |}" % (CLS[r["cls"]], nm, sts))
        return "IRecords " + lst(rs)

    def obs_to_coq(self, obs):
        if obs["kind"] == "exec":
            return "OExec " + lst(["None" if isinstance(lg, str) else "(Some %s)" % lst([item_coq(it) for it in lg])
                                   for lg in obs["logs"]])
        if "raised" in obs:
            return "ORunlog None"
        return "ORunlog (Some %s)" % lst([item_coq(it) for it in obs["items"]])

    def nontrivial(self, case, obs):
        if obs["kind"] == "exec":
            return any(not isinstance(lg, str) and len(lg) >= 3 for lg in obs["logs"])
        return "items" in obs and len(obs["items"]) >= 2

    def kind(self, case, obs):
        if obs["kind"] == "exec":
            return "exec,raised=%d" % int(any(isinstance(lg, str) for lg in obs["logs"]))
        return "records,raised=%d" % int("raised" in obs)

    def size(self, case):
        return len(json.dumps(case))


PROP = C15()
