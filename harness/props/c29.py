import math

from harness.common import Prop, z, lst, tup, b, opt
from harness import agg_env


class C29(Prop):
    ID = "C29"
    DESIGN_REF = "DESIGN.md §7 C29"
    LEVEL_TEXT = ("Coq invariant over ALL streams of tag-update messages (any order, duplicates, late tags) and every "
                  "non-negative data-log interval: recorded batches are strictly increasing and more than one interval "
                  "apart, per tag a recorded value is never older than one recorded before, and every recorded value "
                  "was reported with an engine time at or before the recorded time.")
    LEVEL_NOTE = ("Theorems are about coq/model/C29.v (TagsInfo.upsert + _persist_tag_values + store_tag_values with "
                  "plot-log entries); tie = real FromEngine.tag_values_changed on in-memory SQLite, the "
                  "PlotLogEntryValue rows compared after the stream. No axioms.")
    TECHNIQUE = "Coq proof (invariant by induction over message streams) + model/implementation correspondence"
    RULE = ("streams of 1-12 messages of 0-4 tag values over 4 tags (3 with plot-log entries), times 0..12 mostly "
            "increasing with out-of-order and duplicate deliveries, intervals inf/0/1/3; non-trivial = at least two "
            "persisted batches or an out-of-order delivery; distinct by canonical JSON")
    QUICK_N = 1200
    THOROUGH_N = 30000
    TRUSTED = ["SQLAlchemy/SQLite store and return rows in insertion (id) order", "tick times are integral floats"]
    ASSUMPTIONS = ["data-log interval >= 0", "integer tag values", "one engine, one active run, run ids match"]

    def gen_cases(self, rng, n, tier):
        out = []
        for _ in range(n):
            interval = rng.choice([None, 0, 1, 1, 3])
            msgs = []
            t = 0
            v = 0
            for _ in range(rng.randint(1, 12)):
                if rng.random() < 0.75:
                    t += rng.choice([0, 1, 1, 2])
                    base = t
                else:
                    base = rng.randint(0, max(t, 1))     # late / duplicate delivery
                m = []
                for name in rng.sample(range(4), rng.choice([0, 1, 1, 2, 3, 4])):
                    v += 1
                    m.append([name, v, base if rng.random() < 0.8 else max(0, base - rng.randint(0, 2))])
                msgs.append(m)
            out.append([interval, [0, 1, 2], msgs])
        return out

    def run_impl(self, case):
        return agg_env.in_loop(self._run_impl, case)

    def _run_impl(self, case):
        import datetime
        import openpectus.aggregator.models as Mdl
        interval, entries, msgs = case
        agg_env.fresh_db()
        dispatcher, aggregator, _h = agg_env.make_aggregator()
        ed = agg_env.engine_data("E", data_log_interval_seconds=math.inf if interval is None else float(interval))
        ed.readings = [agg_env.reading(f"T{i}") for i in entries]
        aggregator._engine_data_map["E"] = ed
        import openpectus.protocol.engine_messages as EM
        msg = EM.RunStartedMsg(run_id="R", started_tick=0.0)
        msg.engine_id = "E"
        aggregator.from_engine.run_started(msg)
        raised = False
        for m in msgs:
            try:
                aggregator.from_engine.tag_values_changed("E", [agg_env.tag_value(f"T{n}", v, t) for n, v, t in m], "R")
            except ValueError:
                raised = True
                break
        rows = [[int(name[1:]), val, int(tt)] for _rid, name, val, tt in agg_env.plot_rows()]
        return [rows, raised]

    def case_to_coq(self, case):
        interval, entries, msgs = case
        return tup(opt(interval), lst([f"{e}%nat" for e in entries]),
                   lst([lst([tup(f"{n}%nat", z(v), z(t)) for n, v, t in m]) for m in msgs]))

    def obs_to_coq(self, obs):
        return tup(lst([tup(f"{n}%nat", z(v), z(t)) for n, v, t in obs[0]]), b(obs[1]))

    def nontrivial(self, case, obs):
        times = sorted({t for _, _, t in obs[0]})
        flat = [t for m in case[2] for _, _, t in m]
        ooo = any(flat[i] > flat[i + 1] for i in range(len(flat) - 1))
        return len(times) >= 2 or ooo

    def kind(self, case, obs):
        return f"interval={case[0]},batches={min(len({t for _, _, t in obs[0]}), 6)}"


PROP = C29()
