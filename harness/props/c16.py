from harness.props.c36 import C36


class C16(C36):
    ID = "C16"
    DESIGN_REF = "DESIGN.md §7 C16"
    EVERY_TICK = True
    LEVEL_TEXT = ("Coq theorems about the executable tag model: if every stamping call passes the engine clock of the "
                  "current tick, then over ALL runs every reported stamp is the engine time of a tick, lies in [start, "
                  "now], never decreases per tag, and a value change carries the time of the tick in which it happened "
                  "(induction over operations). The hypothesis is discharged on the table of ALL stamping call sites, "
                  "regenerated from the source on every run: every site passes the tick time except seven wall-clock "
                  "sites that are listed as known findings (C16_sites_partial; the full statement is refuted).")
    LEVEL_NOTE = ("Theorems are about coq/model/Tags.v. Ties: gen/Sites.v (every call of set_value/simulate_value/"
                  "set_value_and_unit/simulate_value_and_unit in openpectus/engine and openpectus/lang/exec with the "
                  "time-stamp expression classified); operation-stream correspondence with the real Engine under a "
                  "virtual clock; the Coq monitor checks the stamps of the real tag update stream at every tick. "
                  "The wall-clock sites are not reachable with the harness UOD except AccumulatorTag.reset on a "
                  "second run. No axioms.")
    TECHNIQUE = "Coq proof (stamp invariants over tag operations) + regenerated call-site table + operation-stream correspondence"
    RULE = ("as C36 but the tag update stream is read after every tick; non-trivial = at least 3 reports and a changed tag "
            "other than the clocks; distinct by canonical JSON of the case")
    ASSUMPTIONS = ["tick times never decrease", "values set before the first tick (engine start-up) and initial values "
                   "are not 'set in a tick' and are not judged", "tags that are or were simulated are only required to "
                   "carry an engine tick time in range (simulate/stop re-stamp semantics)"]

    WALLCLOCK_TAGS = {"Block Time", "Scope Time", "Accumulated Volume", "Block Volume", "Mark", "Connection Status",
                      "Accumulated CV"}

    def classify(self, case, obs):
        """re-run the monitor's test in Python to find the offending entries: the case belongs to the known finding
        only if EVERY offending entry is a wall-clock stamp on a tag written by one of the listed wall-clock sites"""
        import json
        import time
        full = self._obs[json.dumps(case, sort_keys=True)]
        names = full["names"]
        last = [x[1] if x[2] else x[0] for x in full["init"]]
        lastst = [x[3] for x in full["init"]]
        simd = {i for i, x in enumerate(full["init"]) if x[2]}
        ticks, prev, now = set(), -1, -1
        reps = iter(full["reports"])
        offending = []
        for o in full["ops"]:
            if o[0] == "tick":
                ticks.add(o[1])
                now = o[1]
            elif o[0] in ("sim", "rawflag"):
                simd.add(o[1])
            elif o[0] == "collect":
                es, _ = next(reps)
                for i, v, st in es:
                    if v != last[i]:
                        ok = st in ticks and st <= now and (i in simd or prev <= st) and lastst[i] <= st
                        if not ok:
                            offending.append((names[i], st))
                    last[i] = v
                    lastst[i] = st
                prev = now
        wall = time.time() * 4
        if offending and all(n in self.WALLCLOCK_TAGS and abs(st - wall) < 4 * 86400 for n, st in offending):
            return "C16-wallclock-sites"
        return None


PROP = C16()
