"""C01: live method edits on the real MethodManager / PInterpreter vs the Coq model (model/C01.v over model/Interp.v).
Methods are lists of (line id, text); an edit is a new such list handed to the real manager the way Engine.set_method does
(merge_method while program_is_started, else set_method)."""
import json

from harness.common import Prop, lst, b
from harness import interp_driver as ID
from harness.interp_common import gen_lines, program_coq, ticks_coq, view_coq, nat


def method_of(lines):
    import openpectus.protocol.models as Mdl
    return Mdl.Method(version=0, lines=[Mdl.MethodLine(id=i, content=t) for i, t in lines])


def node_ids(run):
    return [n.id for n, _ in run.table]


def run_case(case):
    from openpectus.lang.exec.errors import MethodEditError
    lines = case["lines"]
    run = ID.Run([t for _, t in lines])        # Method.from_pcode numbers the lines id_1, id_2, ...
    try:
        e = run.env.engine
        mm = e.method_manager
        cur = [[f"id_{k + 1}", t] for k, (_, t) in enumerate(lines)]
        out = []
        tables = [ID.describe(run.table)]
        for seg in case["segs"]:
            accepted = None
            info = None
            if seg.get("edit") is not None:
                new_lines = seg["edit"]
                old_ids = node_ids(run)
                old_text = dict(cur)
                detached = mm.program is not mm.interpreter._program
                try:
                    if mm.program_is_started:
                        mm.merge_method(method_of(new_lines))
                    else:
                        mm.set_method(method_of(new_lines))
                    accepted = True
                except MethodEditError:
                    accepted = False
                if accepted:
                    run.wire()
                    new_ids = node_ids(run)
                    omap = [old_ids.index(i) if i in old_ids else None for i in new_ids]
                    changed = [old_ids.index(i) for i, t in new_lines if i in old_text and old_text[i] != t and i in old_ids]
                    cur = [list(x) for x in new_lines]
                    tables.append(ID.describe(run.table))
                    info = dict(table=tables[-1], omap=omap, changed=changed, detached=detached)
                else:
                    # the model needs the rejected method too: parse it with the real parser (no state involved)
                    prog = mm._parse(mm._to_parser_method(method_of(new_lines)))
                    mm._apply_analysis(prog)
                    tab = ID.node_table(prog)
                    new_ids = [n.id for n, _ in tab]
                    omap = [old_ids.index(i) if i in old_ids else None for i in new_ids]
                    changed = [old_ids.index(i) for i, t in new_lines if i in old_text and old_text[i] != t and i in old_ids]
                    info = dict(table=ID.describe(tab), omap=omap, changed=changed, detached=detached)
            # the tick's scripted environment names lines by id: translate to the current node indices
            ids = node_ids(run)
            op = dict(dt=seg["dt"], thr_wait=[ids.index(i) for i in seg["thr_wait"] if i in ids],
                      cond_true=[ids.index(i) for i in seg["cond_true"] if i in ids],
                      cond_err=[], complete=[ids.index(i) for i in seg["complete"] if i in ids])
            view = run.tick(op)
            st = mm.get_method_state()
            state = [sorted(ids.index(i) for i in st.started_line_ids if i in ids), sorted(ids.index(i) for i in st.executed_line_ids if i in ids)]
            out.append(dict(view=view, accepted=accepted, state=state, edit=info, op=op))
        return dict(table=tables[0], ticks=out)
    finally:
        run.close()


def gen_case(rng):
    from harness import interp_common as IC
    IC._blk[0] = 0
    items = gen_lines(rng, 0, rng.randint(2, 7))
    lines = [[f"id_{k + 1}", ("    " * d) + t if t else ""] for k, (d, t) in enumerate(items)]
    nticks = rng.randint(10, 45)
    fresh = [0]

    def new_id():
        fresh[0] += 1
        return f"n{fresh[0]}"
    cur = [list(x) for x in lines]
    ptrue = {}
    release = {}
    segs = []
    edits_left = rng.choice([1, 1, 2, 3])
    for t in range(nticks):
        edit = None
        if edits_left and t >= 2 and rng.random() < 0.12:
            edits_left -= 1
            new = [list(x) for x in cur]
            r = rng.random()
            if r < 0.45:          # append lines at the end of the method
                for _ in range(rng.choice([1, 2])):
                    new.append([new_id(), rng.choice(["Mark: X", "Wait: 0.5 s", "CmdA: d=0", "Mark: Y", ""])])
            elif r < 0.80 and new:  # change the text of one line (started or not)
                k = rng.randrange(len(new))
                txt = new[k][1]
                ind = txt[:len(txt) - len(txt.lstrip())]
                body = txt.strip()
                if body.startswith("Mark"):
                    new[k][1] = ind + "Mark: Z" + str(fresh[0])
                elif body.startswith("Wait"):
                    new[k][1] = ind + rng.choice(["Wait: 0 s", "Wait: 1 s", "Wait: 2 s"])
                elif body == "":
                    new[k][1] = ind + "Mark: W"
                else:
                    new[k][1] = ind + "Mark: V"
            else:                 # insert a line after a random line, at that line's indentation
                k = rng.randrange(len(new)) if new else 0
                ind = new[k][1][:len(new[k][1]) - len(new[k][1].lstrip())] if new else ""
                new.insert(k + 1, [new_id(), ind + rng.choice(["Mark: I", "Wait: 0.5 s"])])
            edit = new
            cur = new
        ids_thr = [i for i, tx in cur if tx.strip()[:1].isdigit()]
        ids_cond = [i for i, tx in cur if tx.strip().lstrip("0123456789. ").startswith(("Watch", "Alarm"))]
        ids_cmd = [i for i, tx in cur if tx.strip().lstrip("0123456789. ").startswith(("CmdA", "CmdB", "CmdC"))]
        for i in ids_thr:
            release.setdefault(i, rng.randint(0, nticks))
        for i in ids_cond:
            ptrue.setdefault(i, rng.choice([0.0, 0.1, 0.3, 0.6, 1.0]))
        segs.append(dict(edit=edit, dt=rng.choice([1, 1, 1, 2]), thr_wait=[i for i in ids_thr if t < release[i]],
                         cond_true=[i for i in ids_cond if rng.random() < ptrue[i]],
                         complete=[i for i in ids_cmd if rng.random() < 0.3]))
    return dict(lines=lines, segs=segs)


def opt_nat(x):
    return "None" if x is None else f"(Some {nat(x)})"


class C01(Prop):
    ID = "C01"
    DESIGN_REF = "DESIGN.md §7 C01"
    COQ_IMPORTS = "From OP Require Import model.Interp model.InterpRun."
    SHARD = 40
    QUICK_N = 240
    THOROUGH_N = 6000
    LEVEL_TEXT = ("REFUTED (known finding) with a validated model of what the code does. The Coq model of a live edit mirrors the "
                  "implementation: validation of started / completed lines, then a merge that carries NO node state over "
                  "(HotSwapVisitor stops at the root), re-registers the old interrupts and leaves the manager with a stateless "
                  "program, so that the next edit reloads the method without validation. Coq-evaluated witnesses show the "
                  "property failing on the model (a completed line runs again; the reported method state is empty after an "
                  "edit; a started line can be edited at the second edit); the same runs fail on the real code. Proved about "
                  "the model: a rejected edit changes nothing; the first edit of a run is rejected exactly when it changes a "
                  "started or completed line.")
    LEVEL_NOTE = ("Model: coq/model/C01.v over model/Interp.v (stage-A constructs; macros and injected code not modelled). Tie: "
                  "generated methods with line ids run on the real PInterpreter under a scripted environment; at generated "
                  "ticks an edited method (lines appended, inserted, changed -- started or not) is handed to the real "
                  "MethodManager the way Engine.set_method does (merge_method while program_is_started, else set_method); the "
                  "new program is parsed by the real parser, nodes are matched by line id, and after EVERY tick all node "
                  "states, the interrupt map, the Block tag, whether the edit was accepted and the method state reported by "
                  "the manager are compared with the model. The Coq monitor states the property on the observations (no "
                  "started / completed line loses its progress, the method state only grows, an edit is rejected iff it "
                  "changes a started line). A candidate repair is kept in findings/C01_candidate_repair.diff; it cannot be "
                  "committed because six existing tests read their expected marks from the run log that a merge replaces, "
                  "i.e. they pass only when the method is re-run.")
    TECHNIQUE = "Coq model of the implemented merge validated tick by tick against the real MethodManager / PInterpreter + Coq-evaluated refutation witnesses + theorems about rejection + Coq monitor with a classifier for the known finding"
    RULE = ("methods of 2-7 top-level items over the stage-A constructs with line ids, 10-45 ticks, 1-3 edits at random ticks "
            "(45% append 1-2 lines, 35% change the text of a random line, 20% insert a line after a random line), conditions and "
            "thresholds scripted per line id; non-trivial = an accepted edit and a completed line at the end; distinct by "
            "canonical JSON")

    def classify(self, case, obs):
        """known: an accepted live edit discards all run progress (and detaches the manager's program, so the next edit is
        not validated). NOT explained: a started line edited while the manager still had the state; a rejection of an edit
        that touches no started line."""
        prev = None
        seen = False
        for t in obs["ticks"]:
            if t["accepted"] is not None:
                ei = t["edit"]
                nodes = prev["view"]["nodes"] if prev is not None else None
                touched = any(nodes is not None and j < len(nodes) and not nodes[j][2] and (nodes[j][0] or nodes[j][1]) for j in ei["changed"])
                if t["accepted"] and touched and not ei["detached"]:
                    return None
                if not t["accepted"] and not touched:
                    return None
                if t["accepted"]:
                    seen = True
            prev = t
        return "C01-live-edit-discards-run-progress" if seen else None

    def __init__(self):
        self._obs = {}

    def gen_cases(self, rng, n, tier):
        return [gen_case(rng) for _ in range(n)]

    def run_impl(self, case):
        o = run_case(case)
        self._obs[json.dumps(case, sort_keys=True)] = o
        return o

    def case_to_coq(self, case):
        o = self._obs.get(json.dumps(case, sort_keys=True)) or self.run_impl(case)
        segs = []
        for t in o["ticks"]:
            tick = ticks_coq([t["op"]])[1:-1]
            if t["edit"] is None:
                ed = "None"
            else:
                ei = t["edit"]
                ed = "(Some {| e_prog := %s; e_old := %s; e_changed := %s |})" % (
                    program_coq(ei["table"]), lst([opt_nat(x) for x in ei["omap"]]), lst([nat(x) for x in ei["changed"]]))
            segs.append("{| g_edit := %s; g_tick := %s |}" % (ed, tick))
        return f"({program_coq(o['table'])}, {lst(segs)})"

    def obs_to_coq(self, obs):
        rows = []
        for t in obs["ticks"]:
            acc = "None" if t["accepted"] is None else f"(Some {b(t['accepted'])})"
            rows.append("{| ev_view := %s; ev_accepted := %s; ev_state := (%s, %s) |}"
                        % (view_coq(t["view"]), acc, lst([nat(x) for x in t["state"][0]]), lst([nat(x) for x in t["state"][1]])))
        return lst(rows)

    def nontrivial(self, case, obs):
        return any(t["accepted"] for t in obs["ticks"]) and any(n[1] for n in obs["ticks"][-1]["view"]["nodes"])

    def kind(self, case, obs):
        acc = [t["accepted"] for t in obs["ticks"] if t["accepted"] is not None]
        return f"edits={len(acc)},accepted={sum(1 for a in acc if a)}"

    def size(self, case):
        return len(case["lines"]) + len(case["segs"])


PROP = C01()
