"""C27: the real EngineRunner with a scripted dispatcher vs the Coq model of its recovery state machine."""
import json

from harness.common import Prop, z, lst, b


def nat(x):
    return f"{int(x)}%nat"
from harness import runner_driver as RD

RES = {"ok": "Ok", "lost": "Lost", "dup": "Dup"}
KIND = {"data": "KData", "stop": "KStop", "other": "KOther"}


def gen_case(rng, dups=True):
    ops = []
    label = 0
    run = 0
    n = rng.randint(4, 40)
    bad = rng.choice([0.05, 0.15, 0.35])          # how bad the network is

    def results(k):
        out = []
        for _ in range(k):
            x = rng.random()
            out.append("ok" if x >= bad else ("dup" if dups and rng.random() < 0.25 else "lost"))
        while out and out[-1] == "ok":
            out.pop()
        return out
    ops.append(dict(op="tick", results=results(2)))
    for _ in range(n):
        r = rng.random()
        if r < 0.45:
            ops.append(dict(op="tick", results=results(rng.randint(1, 8))))
        elif r < 0.85:
            label += 1
            kind = "data"
            if rng.random() < 0.12:
                kind = "stop"
            ops.append(dict(op="post", label=label, run=run, kind=kind, results=results(1)))
            if kind == "stop":
                run += 1
        else:
            label += 1
            ops.append(dict(op="buf", label=label, run=run, kind="data"))
    for _ in range(6):
        ops.append(dict(op="tick", results=[]))
    return dict(ops=ops)


def py_monitor(case, obs, strict_order):
    """classifier only (the decision is the Coq monitor's): the same clauses with the order clause switchable"""
    acc, dlv = [], []
    prev = dict(state="Started", task="none")
    nodup = not any("dup" in op.get("results", []) for op in case["ops"])
    for op, v in zip(case["ops"], obs["views"]):
        if op["op"] == "post" and prev["state"] not in ("Started", "Stopped"):
            acc.append((op["label"], op["run"], op["kind"]))
        if op["op"] == "buf" and prev["task"] == "buf":
            acc.append((op["label"], op["run"], op["kind"]))
        dlv += [tuple(x) for x in v["delivered"] if x[0] >= 0]
        if v["error"] is not None:
            return False
        if v["state"] in ("Connected", "Reconnected") and v["buf"]:
            return False
        dl = [x[0] for x in dlv]
        bl = [x[0] for x in v["buf"]]
        if any(a[0] not in dl and a[0] not in bl for a in acc):
            return False
        allp = dlv + [tuple(x) for x in v["buf"]]
        first = {}
        for lab, sq in dlv:
            first.setdefault(lab, sq)
        if any(lab in first and first[lab] != sq for lab, sq in allp):
            return False
        if any(p[1] == q[1] and p[0] != q[0] for p in allp for q in allp):
            return False
        if nodup and any(dl.count(x) > 1 for x in dl):
            return False
        if strict_order:
            for k, (lab, run, kind) in enumerate(acc):
                if kind == "stop" and lab in dl:
                    upto = dl[:dl.index(lab)]
                    if any(k2 == "data" and r2 == run and l2 not in upto for (l2, r2, k2) in acc[:k]):
                        return False
        prev = v
    return True


class C27(Prop):
    ID = "C27"
    DESIGN_REF = "DESIGN.md §7 C27"
    COQ_IMPORTS = ""
    SHARD = 150
    QUICK_N = 600
    THOROUGH_N = 30000
    LEVEL_TEXT = ("Coq theorems about an executable model of EngineRunner's recovery state machine (_post_async, "
                  "_buffer_message, _set_state with its hooks and nested failures, _tick, _connect_async, "
                  "_send_buffered_batch) for ALL operation sequences and ALL patterns of connect / transmission failures: "
                  "in every reachable state a transmission is only attempted with an engine id, the buffer is empty in the "
                  "Connected and Reconnected states (nothing stranded once caught up), buffered messages carry their sequence "
                  "number; every accepted message is transmitted or buffered when its operation ends and a buffered "
                  "message is transmitted or still buffered after any further operation (no loss, by induction). The ORDER "
                  "clause is REFUTED by a Coq-evaluated witness (known finding: a message posted while CatchingUp overtakes "
                  "the buffer). PARTIAL: duplicate / sequence-number clauses are monitor clauses, not theorems.")
    LEVEL_NOTE = ("Theorems are about coq/model/C27.v. Tie: the real EngineRunner driven operation by operation with a "
                  "scripted dispatcher (every connect and transmission takes its outcome -- delivered / lost / delivered but "
                  "reported failed -- from the operation's result list) and compared with the model after every operation "
                  "on state, buffer (labels and sequence numbers), transmissions that reached the aggregator, live task, "
                  "sequence counter and escaped exceptions; the Coq monitor (no loss, nothing stranded, one sequence number "
                  "per message, distinct numbers, no duplicate without a failed-but-delivered attempt, order) runs on the "
                  "real observations. Modelled, not verified: the two periodic producer loops are replaced by idle loops "
                  "and their messages are part of the operation alphabet; asyncio.gather over the batch is sequential "
                  "(the scripted dispatcher has no suspension point); the AsyncTimer is replaced by explicit _tick calls. "
                  "No axioms.")
    TECHNIQUE = "Coq proof (inductive invariant and step-wise no-loss over the recovery state machine; order clause refuted by witness) + operation-by-operation correspondence with the real EngineRunner under scripted network failures + Coq monitor on the real transmissions"
    RULE = ("sequences of 10-50 operations: posts (data / run-stop notifications over successive runs), buffer-loop "
            "messages, ticks; per connect / transmission an outcome drawn with failure probability 5%, 15% or 35% (a quarter "
            "of the failures delivered-but-reported-failed in half of the cases); non-trivial = the runner reached "
            "Reconnected after having buffered; distinct by canonical JSON")

    def gen_cases(self, rng, n, tier):
        return [gen_case(rng, dups=rng.random() < 0.5) for _ in range(n)]

    def run_impl(self, case):
        return RD.run_case(case)

    def case_to_coq(self, case):
        out = []
        for op in case["ops"]:
            rs = lst([RES[x] for x in op.get("results", [])])
            if op["op"] == "post":
                out.append(f"OPost {z(op['label'])} {z(op['run'])} {KIND[op['kind']]} {rs}")
            elif op["op"] == "buf":
                out.append(f"OBuf {z(op['label'])} {z(op['run'])} {KIND[op['kind']]}")
            else:
                out.append(f"OTick {rs}")
        return lst(out)

    def obs_to_coq(self, obs):
        def v(x):
            pairs = lambda l: lst([f"({z(a)}, {nat(c)})" for a, c in l])
            task = {"none": "TNone", "buf": "TBuf", "steady": "TSteady"}[x["task"]]
            return ("{| v_st := %s; v_buf := %s; v_out := %s; v_task := %s; v_seq := %s; v_crash := %s |}"
                    % (x["state"], pairs(x["buf"]), pairs(x["delivered"]), task, nat(x["seq"]), b(x["error"] is not None)))
        return lst([v(x) for x in obs["views"]])

    def nontrivial(self, case, obs):
        states = [v["state"] for v in obs["views"]]
        return "Reconnected" in states and any(v["buf"] for v in obs["views"])

    def kind(self, case, obs):
        states = {v["state"] for v in obs["views"]}
        return f"reconnected={int('Reconnected' in states)},failed={int('Failed' in states)}"

    def classify(self, case, obs):
        if py_monitor(case, obs, True):
            return None
        if py_monitor(case, obs, False):
            return "C27-direct-post-overtakes-buffer-while-catching-up"
        return None

    def size(self, case):
        return len(case["ops"])


PROP = C27()
