from harness.common import Prop
from harness import agg_driver as AD


class C28(Prop):
    ID = "C28"
    DESIGN_REF = "DESIGN.md §7 C28"
    LEVEL_TEXT = ("Coq theorems over the aggregator bookkeeping model: an engine that disconnects during a run and "
                  "re-registers after ANY operations not involving it (aggregator restarts and crashes included) "
                  "continues the same run id and start time; the same after a graceful restart; accepted tag data is "
                  "recorded in that run's plot log only. The statement for a crash without shutdown is refuted in Coq "
                  "(known finding).")
    LEVEL_NOTE = ("Theorems are about coq/model/Agg.v; tie = real Aggregator, handlers and repositories on in-memory "
                  "SQLite (a new Aggregator over the same database = restarted process) run on the same histories. "
                  "No axioms.")
    TECHNIQUE = "Coq proof (stability of the recorded run under all non-interfering histories) + correspondence"
    RULE = ("histories of 2-20 operations over 2 engines incl. disconnect/re-register, graceful restart and crash at any "
            "point of a run; non-trivial = an engine re-registers after a disconnect/restart/crash that happened "
            "during its run; distinct by canonical JSON")
    QUICK_N = 1000
    THOROUGH_N = 25000
    TRUSTED = ["SQLAlchemy/SQLite tables behave as insertion-ordered row lists",
               "a new Aggregator object over the same database stands for a restarted process"]
    ASSUMPTIONS = ["engine-side buffering of messages during the outage is C27's subject, not modelled here"]

    def gen_cases(self, rng, n, tier):
        return [AD.gen_case(rng) for _ in range(n)]

    def run_impl(self, case):
        return AD.run_impl(case)

    def case_to_coq(self, case):
        return AD.case_to_coq(case)

    def obs_to_coq(self, obs):
        return AD.obs_to_coq(obs)

    def _events(self, case, obs):
        """(kind, engine) for every re-registration after a loss during a run"""
        ops = case[2]
        lost = {}
        prev = [[], [], [], []]
        ev = []
        for o, v in zip(ops, obs):
            pr = {e: r for e, r in prev[0]}
            if o[0] == "Disconnect" and o[1] in pr:
                lost[o[1]] = ("Disconnect", pr[o[1]])
            elif o[0] in ("Restart", "Crash"):
                for e, r in pr.items():
                    lost[e] = (o[0], r)
            elif o[0] == "Register" and o[1] not in pr and o[1] in lost:
                how, r = lost.pop(o[1])
                cur = {e: rr for e, rr in v[0]}.get(o[1])
                ev.append((how, o[1], r, cur))
            prev = v
        return ev

    def nontrivial(self, case, obs):
        return any(e[2] is not None for e in self._events(case, obs))

    def kind(self, case, obs):
        ev = self._events(case, obs)
        return "+".join(sorted({e[0] for e in ev})) or "none"

    def classify(self, case, obs):
        """known finding: the run is not continued after an aggregator CRASH (no shutdown) during the run; a run lost
        after a disconnect or graceful restart, or tag rows in a foreign plot log, are never known"""
        ev = self._events(case, obs)
        bad = [e for e in ev if e[3] != e[2]]
        if bad and all(e[0] == "Crash" for e in bad):
            # make sure the row check of the monitor is not what failed
            prev_rows = 0
            for o, v in zip(case[2], obs):
                new = v[3][prev_rows:]
                if o[0] == "Tags" and o[2] is not None and any((w[0], w[1]) != (o[1], o[2]) for w in new):
                    return None
                prev_rows = len(v[3])
            return "C28-crash-without-shutdown-loses-run"
        return None


PROP = C28()
