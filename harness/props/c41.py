"""C41 (recursion clause): MacroNode.macro_calling_macro on parsed methods vs the Coq model of the search."""
import json

from harness.common import Prop, lst


def nat(x):
    return f"{int(x)}%nat"


NAMES = ["A", "B", "C", "D", "E"]


def gen_method(rng):
    """macro definitions (also redefinitions and nested definitions) whose bodies call macros directly and inside
    blocks / watches / alarms; some calls name undefined macros"""
    lines = []
    nm = rng.randint(1, 5)
    names = NAMES[:nm]

    def body(ind, depth, inside):
        out = []
        for _ in range(rng.randint(0, 4)):
            r = rng.random()
            if r < 0.5:
                out.append(f"{ind}Call macro: {rng.choice(names + ['Z'])}")
            elif r < 0.65:
                out.append(f"{ind}Mark: m")
            elif r < 0.85 and depth < 2:
                kind = rng.choice(["Block: b", "Watch: Run Time > 0 s", "Alarm: Run Time > 0 s"])
                out.append(f"{ind}{kind}")
                inner = body(ind + "    ", depth + 1, inside)
                out += inner if inner else [f"{ind}    Mark: x"]
                if kind.startswith("Block"):
                    out.append(f"{ind}    End block")
            elif depth < 1:
                n2 = rng.choice(names)
                out.append(f"{ind}Macro: {n2}")
                inner = body(ind + "    ", depth + 1, n2)
                out += inner if inner else [f"{ind}    Mark: y"]
        return out
    order = [rng.choice(names) for _ in range(rng.randint(nm, nm + 2))]
    for n in order:
        lines.append(f"Macro: {n}")
        b = body("    ", 0, n)
        lines += b if b else ["    Mark: e"]
    for n in names:
        if rng.random() < 0.5:
            lines.append(f"Call macro: {n}")
    return lines


def analyse(lines):
    """parse with the real parser; collect the macro dict as the analyzer / interpreter build it (definitions in source
    order, later ones replace earlier ones) and, independently of macro_calling_macro, the calls of every body"""
    import openpectus.lang.model.ast as p
    from openpectus.lang.model.parser import ParserMethod, ParserMethodLine, create_method_parser
    method = ParserMethod([ParserMethodLine(str(k), ln) for k, ln in enumerate(lines)])
    program = create_method_parser(method, []).parse_method(method)
    macros = {}

    def defs(node):
        for ch in node.children:
            if isinstance(ch, p.MacroNode):
                macros[ch.name] = ch
            if isinstance(ch, p.NodeWithChildren):
                defs(ch)
    defs(program)

    def calls(node):
        out = []
        for ch in node.children:
            if isinstance(ch, p.CallMacroNode):
                out.append(ch.name)
            elif isinstance(ch, p.NodeWithChildren) and not isinstance(ch, p.MacroNode):
                out += calls(ch)
        return out
    return program, macros, {n: calls(m) for n, m in macros.items()}


def gen_run_method(rng):
    """definitions first (flat bodies, calls also inside blocks), then top-level calls, then a final Mark"""
    nm = rng.randint(1, 4)
    names = NAMES[:nm]
    lines = []
    for n in names:
        lines.append(f"Macro: {n}")
        k = 0
        for _ in range(rng.randint(1, 4)):
            r = rng.random()
            if r < 0.45:
                lines.append(f"    Call macro: {rng.choice(names + (['Z'] if rng.random() < 0.15 else []))}")
            elif r < 0.7:
                lines.append(f"    Mark: {n.lower()}{k}")
                k += 1
            else:
                # (no Block here: a Block inside a macro that is called from inside another Block can never acquire the
                # block lock -- its static ancestors do not include the caller's block -- and the run stalls; that is a
                # block-nesting matter (C05), noted in DESIGN.md, not a recursion matter)
                lines.append(f"    Mark: {n.lower()}x")
        if rng.random() < 0.15:
            lines[-1:] = lines[-1:]         # keep
    calls = [rng.choice(names) for _ in range(rng.randint(1, 3))]
    lines += [f"Call macro: {c}" for c in calls]
    lines.append("Mark: END")
    return lines, calls


def run_method(lines, ticks=400):
    import logging
    logging.disable(logging.CRITICAL)
    from harness.engine_env import Env
    env = Env("\n".join(lines) + "\n")
    try:
        env.start()
        error = ended = False
        for _ in range(ticks):
            try:
                env.tick()
            except Exception:
                return dict(error=True, ended=False, crashed=True)
            e = env.engine
            if str(e._system_tags["Method Status"].get_value()) == "Error":
                error = True
                break
            mark = e.tags["Mark"].get_value()
            if mark is not None and str(mark).split("; ")[-1] == "END":
                ended = True
                break
        return dict(error=error, ended=ended, crashed=False)
    finally:
        env.close()


class C41(Prop):
    ID = "C41"
    DESIGN_REF = "DESIGN.md §7 C41"
    COQ_IMPORTS = "From OP Require Import model.Interp model.InterpRun."
    SHARD = 300
    QUICK_N = 1500
    THOROUGH_N = 60000
    LEVEL_TEXT = ("PARTIAL (recursion clause). Coq theorems about an executable model of MacroNode.macro_calling_macro (the "
                  "search both the interpreter and the analyzer use) for ALL macro tables: the call is refused / the macro "
                  "flagged IF AND ONLY IF some chain of calls starting in the macro's body leads back to the macro (soundness: "
                  "every reported chain is genuine and ends with the macro; completeness: no chain is missed, by a closure "
                  "argument over the visited set; termination within recursion depth = number of macros, proved by a "
                  "measure, so no fuel hypothesis remains). For the interpreter model (coq/model/Interp.v): a definition replaces "
                  "the registry entry of its name and no other, ONLY the execution of a not yet registered definition line changes the "
                  "registry, in every state of every run every entry is a Macro line of the entry's name, so a call either fails "
                  "(undefined name, refused by the search) or runs the children of the definition registered last under the "
                  "called name. 'The body a call runs is the most recently defined one' and 'an undefined call fails' and 'once per call' (completed calls never outnumber started runs) are decided "
                  "on the real PInterpreter by a Coq monitor over the observed node states -- 'once per call' is refuted for two "
                  "calls of one macro that overlap in time (known finding); 'lines in order' "
                  "rests on the interpreter correspondence; 'a started macro may not be edited' belongs to C01.")
    LEVEL_NOTE = ("Theorems are about coq/model/MacroSearch.v (the search) and coq/model/Interp.v (registry, failing calls). Tie: generated methods are parsed by the real parser; the macro table "
                  "(per macro the calls of its body in source order, nested blocks/watches/alarms included, nested "
                  "definitions excluded) is extracted from the AST independently of the function under test, and "
                  "macro_calling_macro(macros) of every defined macro is compared with the model's search (same chain). A "
                  "second stream runs methods of macro calls on the real Engine and compares 'fails / reaches the end' with "
                  "the model (a run never stalls; it fails exactly when an executed call is undefined or would recurse). "
                  "A third stream runs methods with macro definitions, redefinitions between calls, calls in blocks and "
                  "watches and undefined calls tick by tick on the real PInterpreter and on the interpreter model (all node "
                  "state fields, is_registered and run_started_count included) and feeds the observed states to the "
                  "monitor, which rebuilds the registry from the order in which definition lines are visited. "
                  "The Coq monitor decides reachability with an independent naive bounded search. The /repo fix is mirrored "
                  "by the model (the pre-fix search followed only the first resolvable direct child). No axioms.")
    TECHNIQUE = "Coq proof (soundness, completeness and termination of the recursion search for all macro tables; registry and failing-call lemmas of the interpreter model) + function-level correspondence on parsed methods + run-level correspondence on the real Engine + tick-by-tick correspondence of the interpreter model on methods with redefinitions + independent Coq monitors"
    RULE = ("80%: methods of 1-5 macros with redefinitions, nested definitions, bodies of 0-4 items (calls of defined and "
            "undefined macros, marks, blocks / watches / alarms containing calls), every defined macro queried; 8%: the "
            "interpreter harness's macro shape (1-3 macros, redefinitions before and between calls, calls at top level, in "
            "blocks and watch bodies, undefined names) under scripted 10-70 tick environments; 12%: flat "
            "macro definitions followed by 1-3 top-level calls and a final Mark, run for up to 400 ticks on the real engine; "
            "non-trivial = a table with a recursive and a non-recursive macro, an interpreter run in which a macro body ran, or any engine run; distinct by canonical JSON")

    def __init__(self):
        self._obs = {}

    def gen_cases(self, rng, n, tier):
        out = []
        for _ in range(n):
            r = rng.random()
            if r < 0.8:
                out.append(dict(kind="fun", lines=gen_method(rng)))
            elif r < 0.88:
                from harness.interp_common import gen_interp_case
                out.append(dict(kind="interp", **gen_interp_case(rng, shape="macros")))
            else:
                lines, calls = gen_run_method(rng)
                out.append(dict(kind="run", lines=lines, calls=calls))
        return out

    def _table(self, case):
        import logging
        logging.disable(logging.CRITICAL)
        program, macros, table = analyse(case["lines"])
        ids = {n: k for k, n in enumerate(sorted(set(list(table) + [c for b in table.values() for c in b] + case.get("calls", []))))}
        return macros, table, ids

    def run_impl(self, case):
        if case["kind"] == "interp":
            from harness import interp_driver
            o = interp_driver.run_case(dict(lines=case["lines"], ticks=case["ticks"]))
            o["kind"] = "interp"
            self._obs[json.dumps(case, sort_keys=True)] = o
            return o
        macros, table, ids = self._table(case)
        tab = [[ids[n], [ids[c] for c in b]] for n, b in table.items()]
        if case["kind"] == "run":
            r = run_method(case["lines"])
            return dict(kind="run", table=tab, calls=[ids[c] for c in case["calls"]], error=r["error"], ended=r["ended"],
                        crashed=r["crashed"])
        res = {}
        for n, m in macros.items():
            try:
                res[n] = [ids[x] for x in m.macro_calling_macro(macros)]
            except RecursionError:
                res[n] = "RecursionError"
        return dict(kind="fun", table=tab, query=[ids[n] for n in macros], result=[res[n] for n in macros])

    def case_to_coq(self, case):
        if case["kind"] == "interp":
            from harness.interp_common import program_coq, ticks_coq
            key = json.dumps(case, sort_keys=True)
            o = self._obs.get(key) or self.run_impl(case)
            return f"IInterp ({program_coq(o['table'])}, {ticks_coq(case['ticks'])})"
        obs = self.run_impl(case) if case["kind"] == "fun" else None
        if case["kind"] == "run":
            macros, table, ids = self._table(case)
            t = lst([f"({nat(ids[n])}, {lst([nat(ids[c]) for c in b])})" for n, b in table.items()])
            return f"IRun {t} {lst([nat(ids[c]) for c in case['calls']])}"
        t = lst([f"({nat(n)}, {lst([nat(c) for c in b])})" for n, b in obs["table"]])
        return f"IFun {t} {lst([nat(q) for q in obs['query']])}"

    def obs_to_coq(self, obs):
        if obs["kind"] == "interp":
            from harness.interp_common import view_coq
            return "OInterp " + lst([view_coq(v) for v in obs["views"]])
        if obs["kind"] == "run":
            from harness.common import b
            return f"ORun {b(obs['error'] or obs['crashed'])} {b(obs['ended'])}"
        return "OFun " + lst([lst([nat(x) for x in (r if r != "RecursionError" else [999999])]) for r in obs["result"]])

    def nontrivial(self, case, obs):
        if obs["kind"] == "interp":     # some macro body ran
            return any(r["kind"][0] == "KMacro" and obs["views"][-1]["nodes"][k][9] > 0 for k, r in enumerate(obs["table"]))
        if obs["kind"] == "run":
            return True
        return any(r for r in obs["result"]) and any(not r for r in obs["result"]) and len(obs["table"]) >= 2

    def kind(self, case, obs):
        if obs["kind"] == "interp":
            names = [r["kind"][1] for r in obs["table"] if r["kind"][0] == "KMacro"]
            return f"interp,redefined={int(len(names) != len(set(names)))},raised={int(any(v['raised'] or v['last_error'] is not None for v in obs['views']))}"
        if obs["kind"] == "run":
            return f"run,error={int(obs['error'])},ended={int(obs['ended'])}"
        return f"fun,macros={len(obs['table'])},recursive={sum(1 for r in obs['result'] if r)}"

    def classify(self, case, obs):
        """known: two Call macro lines of one name executing at the same time (both started, neither completed nor failed,
        in one view): the second joins the run of the first, so the body runs once for two calls"""
        if obs.get("kind") != "interp":
            return None
        tab = obs["table"]
        calls = [(k, t["kind"][1]) for k, t in enumerate(tab) if t["kind"][0] == "KCallMacro"]
        for v in obs["views"]:
            nd = v["nodes"]
            running = {}
            for c, nm in calls:
                if nd[c][0] and not nd[c][1] and not nd[c][2]:
                    running[nm] = running.get(nm, 0) + 1
            if any(k >= 2 for k in running.values()):
                return "C41-concurrent-calls-of-one-macro-share-one-run"
        return None

    def size(self, case):
        return len(case["lines"])


PROP = C41()
