"""C41 (recursion clause): MacroNode.macro_calling_macro on parsed methods vs the Coq model of the search."""
from harness.common import Prop, lst


def nat(x):
    return f"{int(x)}%nat"


NAMES = ["A", "B", "C", "D", "E"]


def gen_method(rng):
    """macro definitions (also redefinitions and nested definitions) whose bodies call macros directly and inside
    blocks / watches / alarms; some calls name undefined macros"""
    lines = []
    nm = rng.randint(1, 5)
    names = NAMES[:nm]

    def body(ind, depth, inside):
        out = []
        for _ in range(rng.randint(0, 4)):
            r = rng.random()
            if r < 0.5:
                out.append(f"{ind}Call macro: {rng.choice(names + ['Z'])}")
            elif r < 0.65:
                out.append(f"{ind}Mark: m")
            elif r < 0.85 and depth < 2:
                kind = rng.choice(["Block: b", "Watch: Run Time > 0 s", "Alarm: Run Time > 0 s"])
                out.append(f"{ind}{kind}")
                inner = body(ind + "    ", depth + 1, inside)
                out += inner if inner else [f"{ind}    Mark: x"]
                if kind.startswith("Block"):
                    out.append(f"{ind}    End block")
            elif depth < 1:
                n2 = rng.choice(names)
                out.append(f"{ind}Macro: {n2}")
                inner = body(ind + "    ", depth + 1, n2)
                out += inner if inner else [f"{ind}    Mark: y"]
        return out
    order = [rng.choice(names) for _ in range(rng.randint(nm, nm + 2))]
    for n in order:
        lines.append(f"Macro: {n}")
        b = body("    ", 0, n)
        lines += b if b else ["    Mark: e"]
    for n in names:
        if rng.random() < 0.5:
            lines.append(f"Call macro: {n}")
    return lines


def analyse(lines):
    """parse with the real parser; collect the macro dict as the analyzer / interpreter build it (definitions in source
    order, later ones replace earlier ones) and, independently of macro_calling_macro, the calls of every body"""
    import openpectus.lang.model.ast as p
    from openpectus.lang.model.parser import ParserMethod, ParserMethodLine, create_method_parser
    method = ParserMethod([ParserMethodLine(str(k), ln) for k, ln in enumerate(lines)])
    program = create_method_parser(method, []).parse_method(method)
    macros = {}

    def defs(node):
        for ch in node.children:
            if isinstance(ch, p.MacroNode):
                macros[ch.name] = ch
            if isinstance(ch, p.NodeWithChildren):
                defs(ch)
    defs(program)

    def calls(node):
        out = []
        for ch in node.children:
            if isinstance(ch, p.CallMacroNode):
                out.append(ch.name)
            elif isinstance(ch, p.NodeWithChildren) and not isinstance(ch, p.MacroNode):
                out += calls(ch)
        return out
    return program, macros, {n: calls(m) for n, m in macros.items()}


def gen_run_method(rng):
    """definitions first (flat bodies, calls also inside blocks), then top-level calls, then a final Mark"""
    nm = rng.randint(1, 4)
    names = NAMES[:nm]
    lines = []
    for n in names:
        lines.append(f"Macro: {n}")
        k = 0
        for _ in range(rng.randint(1, 4)):
            r = rng.random()
            if r < 0.45:
                lines.append(f"    Call macro: {rng.choice(names + (['Z'] if rng.random() < 0.15 else []))}")
            elif r < 0.7:
                lines.append(f"    Mark: {n.lower()}{k}")
                k += 1
            else:
                # (no Block here: a Block inside a macro that is called from inside another Block can never acquire the
                # block lock -- its static ancestors do not include the caller's block -- and the run stalls; that is a
                # block-nesting matter (C05), noted in DESIGN.md, not a recursion matter)
                lines.append(f"    Mark: {n.lower()}x")
        if rng.random() < 0.15:
            lines[-1:] = lines[-1:]         # keep
    calls = [rng.choice(names) for _ in range(rng.randint(1, 3))]
    lines += [f"Call macro: {c}" for c in calls]
    lines.append("Mark: END")
    return lines, calls


def run_method(lines, ticks=400):
    import logging
    logging.disable(logging.CRITICAL)
    from harness.engine_env import Env
    env = Env("\n".join(lines) + "\n")
    try:
        env.start()
        error = ended = False
        for _ in range(ticks):
            try:
                env.tick()
            except Exception:
                return dict(error=True, ended=False, crashed=True)
            e = env.engine
            if str(e._system_tags["Method Status"].get_value()) == "Error":
                error = True
                break
            mark = e.tags["Mark"].get_value()
            if mark is not None and str(mark).split("; ")[-1] == "END":
                ended = True
                break
        return dict(error=error, ended=ended, crashed=False)
    finally:
        env.close()


class C41(Prop):
    ID = "C41"
    DESIGN_REF = "DESIGN.md §7 C41"
    COQ_IMPORTS = ""
    SHARD = 300
    QUICK_N = 1500
    THOROUGH_N = 60000
    LEVEL_TEXT = ("PARTIAL (recursion clause). Coq theorems about an executable model of MacroNode.macro_calling_macro (the "
                  "search both the interpreter and the analyzer use) for ALL macro tables: the call is refused / the macro "
                  "flagged IF AND ONLY IF some chain of calls starting in the macro's body leads back to the macro (soundness: "
                  "every reported chain is genuine and ends with the macro; completeness: no chain is missed, by a closure "
                  "argument over the visited set; termination within recursion depth = number of macros, proved by a "
                  "measure, so no fuel hypothesis remains). Not covered: 'runs the most recently defined body once per call "
                  "in order' and 'a started macro may not be edited' (interpreter / merge).")
    LEVEL_NOTE = ("Theorems are about coq/model/C41.v. Tie: generated methods are parsed by the real parser; the macro table "
                  "(per macro the calls of its body in source order, nested blocks/watches/alarms included, nested "
                  "definitions excluded) is extracted from the AST independently of the function under test, and "
                  "macro_calling_macro(macros) of every defined macro is compared with the model's search (same chain). A "
                  "second stream runs methods of macro calls on the real Engine and compares 'fails / reaches the end' with "
                  "the model (a run never stalls; it fails exactly when an executed call is undefined or would recurse). "
                  "The Coq monitor decides reachability with an independent naive bounded search. The /repo fix is mirrored "
                  "by the model (the pre-fix search followed only the first resolvable direct child). No axioms.")
    TECHNIQUE = "Coq proof (soundness, completeness and termination of the recursion search for all macro tables) + function-level correspondence on parsed methods + run-level correspondence on the real Engine + independent Coq monitor"
    RULE = ("85%: methods of 1-5 macros with redefinitions, nested definitions, bodies of 0-4 items (calls of defined and "
            "undefined macros, marks, blocks / watches / alarms containing calls), every defined macro queried; 15%: flat "
            "macro definitions followed by 1-3 top-level calls and a final Mark, run for up to 400 ticks on the real engine; "
            "non-trivial = a table with a recursive and a non-recursive macro, or any run; distinct by canonical JSON")

    def gen_cases(self, rng, n, tier):
        out = []
        for _ in range(n):
            if rng.random() < 0.85:
                out.append(dict(kind="fun", lines=gen_method(rng)))
            else:
                lines, calls = gen_run_method(rng)
                out.append(dict(kind="run", lines=lines, calls=calls))
        return out

    def _table(self, case):
        import logging
        logging.disable(logging.CRITICAL)
        program, macros, table = analyse(case["lines"])
        ids = {n: k for k, n in enumerate(sorted(set(list(table) + [c for b in table.values() for c in b] + case.get("calls", []))))}
        return macros, table, ids

    def run_impl(self, case):
        macros, table, ids = self._table(case)
        tab = [[ids[n], [ids[c] for c in b]] for n, b in table.items()]
        if case["kind"] == "run":
            r = run_method(case["lines"])
            return dict(kind="run", table=tab, calls=[ids[c] for c in case["calls"]], error=r["error"], ended=r["ended"],
                        crashed=r["crashed"])
        res = {}
        for n, m in macros.items():
            try:
                res[n] = [ids[x] for x in m.macro_calling_macro(macros)]
            except RecursionError:
                res[n] = "RecursionError"
        return dict(kind="fun", table=tab, query=[ids[n] for n in macros], result=[res[n] for n in macros])

    def case_to_coq(self, case):
        obs = self.run_impl(case) if case["kind"] == "fun" else None
        if case["kind"] == "run":
            macros, table, ids = self._table(case)
            t = lst([f"({nat(ids[n])}, {lst([nat(ids[c]) for c in b])})" for n, b in table.items()])
            return f"IRun {t} {lst([nat(ids[c]) for c in case['calls']])}"
        t = lst([f"({nat(n)}, {lst([nat(c) for c in b])})" for n, b in obs["table"]])
        return f"IFun {t} {lst([nat(q) for q in obs['query']])}"

    def obs_to_coq(self, obs):
        if obs["kind"] == "run":
            from harness.common import b
            return f"ORun {b(obs['error'] or obs['crashed'])} {b(obs['ended'])}"
        return "OFun " + lst([lst([nat(x) for x in (r if r != "RecursionError" else [999999])]) for r in obs["result"]])

    def nontrivial(self, case, obs):
        if obs["kind"] == "run":
            return True
        return any(r for r in obs["result"]) and any(not r for r in obs["result"]) and len(obs["table"]) >= 2

    def kind(self, case, obs):
        if obs["kind"] == "run":
            return f"run,error={int(obs['error'])},ended={int(obs['ended'])}"
        return f"fun,macros={len(obs['table'])},recursive={sum(1 for r in obs['result'] if r)}"

    def size(self, case):
        return len(case["lines"])


PROP = C41()
