from harness.props.c06 import EngineProp, gen_engine_case


def gen_output_case(rng):
    """sequences that drive outputs: long-running method UOD commands assigning an output on every execution, user output
    changes (before and during pauses), Pause/Unpause/Stop/Start/Restart at arbitrary ticks, hardware faults"""
    base = gen_engine_case(rng, faults=rng.random() < 0.5, uods=True, setouts=True, n_ops=rng.randint(2, 8))
    nout = len(base["cfg"]["outs0"])
    ops = base["ops"]
    for _ in range(rng.randint(4, 25)):
        r = rng.random()
        if r < 0.25:
            ops.append(["user", rng.choice(["Pause", "Unpause", "Stop", "Start", "Pause", "Unpause", "Restart", "Hold", "Unhold"])])
        elif r < 0.40:
            ops.append(["setout", rng.randrange(nout), rng.randint(10, 14)])
        else:
            reqs = []
            x = rng.random()
            if x < 0.30:
                reqs.append(["uod", rng.randrange(3), [rng.randint(0, 6), None, [rng.randrange(nout), rng.randint(6, 9)]]])
            elif x < 0.40:
                reqs.append(["Pause", rng.choice([None, 1, 2, 3])])
            elif x < 0.45:
                reqs.append([rng.choice(["Stop", "Restart"])])
            ops.append(["tick", 1, rng.random() >= 0.03, rng.random() >= 0.03, reqs, rng.random() < 0.02])
    ops.append(["tick", 1, True, True, [], False])
    return dict(cfg=base["cfg"], ops=ops)


def py_monitor(safe, views, method_exempt, error_covered):
    """classifier only (the decision is the Coq monitor's): the same discipline with two switches"""
    def safe_vals(ex, vals):
        return all(s is None or i in ex or v == s for i, (s, v) in enumerate(zip(safe, vals)))
    active, idle_ok, pausing = False, True, None
    for v in views:
        for e in v["events"]:
            k = e[0]
            if k == "hw":
                if not active:
                    if not safe_vals(set(), e[1]):
                        return False
                    idle_ok = True
                elif pausing is not None:
                    if not safe_vals(pausing[0], e[1]):
                        return False
                    pausing = (pausing[0], True)
            elif k == "runstart":
                active, idle_ok, pausing = True, False, None
            elif k == "runstop":
                active, idle_ok, pausing = False, False, None
            elif k == "pause":
                if pausing is None:
                    pausing = (set(), False)
            elif k == "unpause":
                pausing = None
            elif k == "out":
                if pausing is not None and (e[1] or method_exempt):
                    pausing = (pausing[0] | {e[2]}, pausing[1])
            elif k == "error":
                if error_covered and active and pausing is None:
                    pausing = (set(), False)
        hw = [None if x is None else x for x in v["hw"]]
        if idle_ok and not all(s is None or h == s for s, h in zip(safe, hw)):
            return False
        if pausing is not None and pausing[1] and not all(s is None or i in pausing[0] or h == s
                                                          for i, (s, h) in enumerate(zip(safe, hw))):
            return False
    return True


class C08(EngineProp):
    ID = "C08"
    DESIGN_REF = "DESIGN.md §7 C08"
    FAULTS = True
    LEVEL_TEXT = ("Coq theorems about the engine-core model for ALL operation sequences (faults included). The full property "
                  "(strict discipline at the hardware write boundary: safe values on every image written while no run is "
                  "active, safe values on every image of a pause -- Pause- or error-begun -- except outputs the USER "
                  "assigned, safe hardware from engine start and after every Stop) is REFUTED for the faithful model by two "
                  "witnesses evaluated in Coq (method-started UOD command assigning an output during a pause; error pause "
                  "applies no safe state): known findings. PROVED (partial): in every reachable state the trace obeys the "
                  "discipline in which any assignment exempts an output and error pauses are not covered; the hardware "
                  "memory is safe whenever the last image was written with no run active (engine start -- after the fix -- "
                  "or a Stop whose write succeeded); during a Pause-begun pause every output nothing assigned holds its safe "
                  "value in the tag and on the hardware once written; _apply_safe_state makes every such output safe.")
    LEVEL_NOTE = ("Theorems are about coq/model/Eng.v. Tie: operation-by-operation correspondence with the real Engine incl. "
                  "the hardware memory of a recording hardware layer, every write_batch image, output assignments (user vs "
                  "method-issued UOD command) and set_error_state calls logged by wrappers (no source hook); the STRICT Coq "
                  "monitor runs on the real event stream and hardware memory. Violations are classified (Python re-run of "
                  "the discipline with one switch relaxed) into the two known findings; anything else is reported. The "
                  "engine-start fix in /repo is mirrored by the model's boot. No axioms.")
    TECHNIQUE = "Coq proof (invariant preserved by every primitive of the engine step, lifted to all executions; strict statement refuted by Coq-evaluated witnesses) + operation-by-operation correspondence with the real Engine at the hardware write boundary + strict Coq monitor on the real event stream"
    RULE = ("output-driving operation sequences of 8-45 operations: method UOD commands running 0-6 ticks and assigning an "
            "output on every execution, user output assignments, Pause/Unpause/Stop/Start/Restart/Hold by user and "
            "method, hardware faults (3%), mixed with general engine sequences; non-trivial = an image written during a "
            "pause and a Stop or second run; distinct by canonical JSON")
    QUICK_N = 300
    THOROUGH_N = 15000

    def gen_cases(self, rng, n, tier):
        return [gen_output_case(rng) if rng.random() < 0.8 else gen_engine_case(rng, True) for _ in range(n)]

    def nontrivial(self, case, obs):
        paused_write = any(v["flags"][1] and any(e[0] == "hw" for e in v["events"]) for v in obs["views"])
        ends = sum(1 for v in obs["views"] for e in v["events"] if e[0] in ("runstop",))
        return paused_write and ends >= 1

    def classify(self, case, obs):
        safe = case["cfg"]["safe"]
        vs = obs["views"]
        if py_monitor(safe, vs, False, True):
            return None                      # the classifier sees no violation: do not call it known
        if py_monitor(safe, vs, True, True):
            return "C08-method-uod-writes-output-during-pause"
        if py_monitor(safe, vs, False, False):
            return "C08-error-pause-applies-no-safe-state"
        if py_monitor(safe, vs, True, False):
            return "C08-method-uod-writes-output-during-pause+C08-error-pause-applies-no-safe-state"
        return None

    def kind(self, case, obs):
        pw = sum(1 for v in obs["views"] if v["flags"][1] and any(e[0] == "hw" for e in v["events"]))
        err = any(e[0] == "error" for v in obs["views"] for e in v["events"])
        mo = any(e[0] == "out" and not e[1] for v in obs["views"] for e in v["events"])
        return f"paused-writes={min(pw, 3)},error={int(err)},method-out={int(mo)}"


PROP = C08()
