from harness.common import Prop
from harness import recovery_driver as RD
from harness.translate_recovery import translate


class C23(Prop):
    ID = "C23"
    COQ_IMPORTS = "From OP Require Import gen.RecoveryConst."
    DESIGN_REF = "DESIGN.md §7 C23"
    LEVEL_TEXT = ("Coq theorems about an executable model of ErrorRecoveryDecorator for ALL operation sequences and "
                  "hardware outcomes: every step keeps the state or takes a documented edge under its documented "
                  "condition, the Connection Status tag is Disconnected exactly in Disconnected/Error in every "
                  "reachable state, reads/writes never raise outside those states and always raise inside them, and "
                  "masked reads return the table that only successful reads modify.")
    LEVEL_NOTE = ("Theorems are about coq/model/Recovery.v; timeouts, back-off ticks and the state sets of "
                  "is_connected/_update_connection_status/tick are regenerated from hardware_recovery.py; tie = the "
                  "real decorator over scripted hardware and a patched clock compared per operation. No axioms.")
    TECHNIQUE = "Coq proof (case analysis per step, reachability induction) + translator tables + correspondence"
    RULE = ("fault sequences of 3-40 operations (reads, batches, writes, tick bursts crossing back-off ticks, connects, "
            "time advances across both timeouts); non-trivial = at least three different recovery states visited; "
            "distinct by canonical JSON")
    QUICK_N = 2500
    THOROUGH_N = 80000
    TRUSTED = ["fake hardware: a failing call has no effect; time.time patched in the module"]
    ASSUMPTIONS = ["integer register values", "HardwareLayerException is the only exception the hardware raises"]

    def translators(self):
        return [("recovery", translate)]

    def gen_cases(self, rng, n, tier):
        return [RD.gen_case(rng, long=(i % 3 == 0)) for i in range(n)]

    def run_impl(self, case):
        return RD.run_impl(case)

    def case_to_coq(self, case):
        return RD.case_to_coq(case)

    def obs_to_coq(self, obs):
        return RD.obs_to_coq(obs)

    def nontrivial(self, case, obs):
        return len({s for _, s, _ in obs[0]}) >= 3

    def kind(self, case, obs):
        states = {s for _, s, _ in obs[0]}
        return "states=" + "".join(sorted(x[0] for x in states))


PROP = C23()
