import csv
import io
import os
import shutil
import tempfile

from harness.common import Prop, lst, tup, s as cs

ALPHA = ["a", "b", "1", ",", ";", "\\", '"', "#", " ", "é", "µ", "'", ":", "\t"]


class FakeTag:
    def __init__(self, name, archived=True):
        self.name = name
        self.unit = None
        self.val = ""
        self.archived = archived

    def archive(self):
        return self.val if self.archived else None


class C39(Prop):
    ID = "C39"
    DESIGN_REF = "DESIGN.md §7 C39"
    LEVEL_TEXT = ("Coq theorem about executable models of the archive's csv writer (QUOTE_NONE, delimiter ',', escape "
                  "'\\\\', terminator CRLF) and of the matching reader: for ALL rows without CR/LF in a field, reading "
                  "the written file back returns the rows unchanged (induction over rows, fields and characters); "
                  "header and data rows have the same number of columns.")
    LEVEL_NOTE = ("Theorems are about coq/model/C39.v, a hand model of CPython's csv writer/reader for this dialect; tie "
                  "= the real ArchiverTag.prepare_tags_file/write_tags_row writing to a temporary directory and the "
                  "real csv.reader reading the file back, compared with the model row by row and on the per-row text. "
                  "No axioms.")
    TECHNIQUE = "Coq proof (reader state machine inverts the escaping writer) + model/implementation correspondence"
    RULE = ("1-4 tags (one of them sometimes not archived) x 1-5 rows of Mark-like texts over an alphabet with comma, "
            "semicolon, backslash, quotes, hash, space, tab and non-ASCII letters; non-trivial = some field needs "
            "escaping; distinct by canonical JSON")
    QUICK_N = 1500
    THOROUGH_N = 40000
    TRUSTED = ["CPython csv module (modelled, validated by correspondence)", "file I/O with newline=''"]
    ASSUMPTIONS = ["archived values contain no CR or LF (Mark texts are single P-code lines)"]

    def setup(self):
        self.tmp = tempfile.mkdtemp(prefix="verif_c39_")

    def teardown(self):
        shutil.rmtree(self.tmp, ignore_errors=True)

    def gen_cases(self, rng, n, tier):
        out = []

        def text():
            return "".join(rng.choice(ALPHA) for _ in range(rng.choice([0, 1, 2, 3, 5])))
        for _ in range(n):
            k = rng.randint(1, 4)
            names = [f"T{i}" + (text() if rng.random() < 0.2 else "") for i in range(k)]
            archived = [rng.random() < 0.9 for _ in range(k)]
            rows = [[text() for _ in range(k)] for _ in range(rng.randint(1, 5))]
            out.append([names, archived, rows])
        return out

    def _rows(self, case):
        names, archived, rows = case
        header = ["Datetime (UTC)"] + [n for n, a in zip(names, archived) if a]
        data = [["now"] + [v for v, a in zip(r, archived) if a] for r in rows]
        return [header] + data

    def run_impl(self, case):
        import openpectus.engine.archiver as A
        names, archived, rows = case
        arch = A.ArchiverTag.__new__(A.ArchiverTag)
        tags = [FakeTag(n, a) for n, a in zip(names, archived)]
        arch.tags = tags
        arch.file_ready = False
        fd, path = tempfile.mkstemp(dir=self.tmp, suffix=".txt")
        os.close(fd)
        os.unlink(path)
        arch.file_path = path
        arch.prepare_tags_file()
        for r in rows:
            for t, v in zip(tags, r):
                t.val = v
            arch.write_tags_row()
        with open(path, "r", newline="", encoding=A.encoding) as f:
            back = list(csv.reader(f, delimiter=A.delimiter, quoting=A.quoting, escapechar=A.escapechar))
        os.unlink(path)
        back = [back[0]] + [["now"] + r[1:] for r in back[1:]]
        texts = []
        for r in self._rows(case):
            buf = io.StringIO(newline="")
            try:
                csv.writer(buf, delimiter=A.delimiter, quoting=A.quoting, escapechar=A.escapechar).writerow(r)
                texts.append(buf.getvalue())
            except csv.Error:
                texts.append(None)
        return [texts, back]

    def case_to_coq(self, case):
        return lst([lst([cs(f) for f in r]) for r in self._rows(case)])

    def obs_to_coq(self, obs):
        texts, back = obs
        return tup(lst(["None" if t is None else f"(Some {cs(t)})" for t in texts]),
                   lst([lst([cs(f) for f in r]) for r in back]))

    def nontrivial(self, case, obs):
        return any(ch in f for r in self._rows(case) for f in r for ch in ',\\"')

    def kind(self, case, obs):
        return f"tags={len(case[0])},rows={len(case[2])}"


PROP = C39()
