"""C12 (node level): cancel / force requests issued through the real Engine.cancel_instruction / force_instruction for items
of the real run log, between ticks of the real PInterpreter, vs the Coq model (model/C12.v over model/Interp.v)."""
import json

from harness.common import Prop, lst, b
from harness import interp_driver as ID
from harness.interp_common import gen_interp_case, program_coq, ticks_coq, view_coq, nat


def run_case(case):
    run = ID.Run(case["lines"])
    try:
        e = run.env.engine
        tracking = run.interp.tracking
        flags = [[bool(n._cancellable), bool(n._forcible)] for n, _ in run.table]
        out = []
        for op in case["ticks"]:
            # the command manager's completions come first (as in Run.tick), then the requests, then the tick
            for k in op.get("complete", []):
                node = run.table[k][0]
                if node.started and not node.completed and type(node).__name__ in ("UodCommandNode", "EngineCommandNode"):
                    tracking.mark_completed(node)
            resolved, accepted, offered = [], [], []
            for it in op.get("requests", []):
                items = tracking.get_runlog().items
                if not items:
                    continue
                item = items[it["pick"] % len(items)]
                rec = tracking.get_record_by_instance_id(item.id)
                node = tracking.get_known_node_by_id(rec.node_id) if rec is not None else None
                if node is None or node.id not in run.byid:
                    continue
                idx = run.byid[node.id]
                offered.append(bool(item.cancellable if it["cancel"] else item.forcible))
                try:
                    (e.cancel_instruction if it["cancel"] else e.force_instruction)(item.id)
                    accepted.append(True)
                except Exception:
                    accepted.append(False)
                resolved.append([bool(it["cancel"]), idx])
            view = run.tick(dict(op, complete=[]))
            cf = [[bool(n.cancelled), bool(n.forced)] for n, _ in run.table]
            out.append(dict(view=view, cf=cf, accepted=accepted, offered=offered, resolved=resolved))
        return dict(table=ID.describe(run.table), flags=flags, ticks=out)
    finally:
        run.close()


def gen_case(rng):
    c = gen_interp_case(rng)
    nreq = 0
    for op in c["ticks"]:
        op["requests"] = []
        if rng.random() < 0.25:
            for _ in range(rng.choice([1, 1, 2])):
                op["requests"].append(dict(cancel=rng.random() < 0.5, pick=rng.randrange(1000)))
                nreq += 1
    return c


class C12(Prop):
    ID = "C12"
    DESIGN_REF = "DESIGN.md §7 C12"
    COQ_IMPORTS = "From OP Require Import model.Interp model.InterpRun."
    SHARD = 50
    QUICK_N = 300
    THOROUGH_N = 8000
    LEVEL_TEXT = ("PARTIAL (node level). Coq theorems about requests on the interpreter model: a request the run log does not "
                  "offer is refused; a refused request changes nothing; a request that is carried out was offered and allowed "
                  "by the node and sets exactly its flag; in EVERY tick a cancelled instruction outside Alarms stays cancelled "
                  "and, if not yet activated, is not activated; over WHOLE RUNS with any cancel / force requests at any ticks: a line "
                  "cancelled before its activation is never activated (no later request is carried out on it, no tick activates "
                  "it), a started line of a Watch body has an activated Watch (stack invariant carried through the requests), "
                  "hence from the state in which a Watch is cancelled and not activated on no line of its body ever starts; "
                  "the states of the run function are the node tables the correspondence observes; a forced Wait "
                  "completes, a forced instruction passes its threshold and a forced Watch / Alarm is activated at the next "
                  "transition of its generator. Not covered: the run-log items (what is offered is an observed oracle), timed "
                  "Pause / Hold, the command manager's side of UOD commands (C11).")
    LEVEL_NOTE = ("Theorems are about coq/model/C12.v over model/Interp.v (which gained the cancelled test of _try_activate_node). "
                  "Tie: generated methods run on the real PInterpreter under a scripted environment as for C02-C05; between "
                  "ticks, requests are issued through the real Engine.cancel_instruction / force_instruction for items picked "
                  "from the real run log (offered or not); the item's node, whether the run log offered the request and "
                  "whether it raised are recorded. The model is given the node, the offer and the static _cancellable / "
                  "_forcible flags of every node, and is compared after EVERY tick on all node states, the cancelled / forced "
                  "flags of every node, the interrupt map and which requests were carried out. The Coq monitor decides on the "
                  "real observations: carried out iff offered; a cancelled Watch is never activated and its body never "
                  "starts; a forced Wait completes and a forced Watch is activated within the ticks its generator needs "
                  "(unless dropped with its block); a refused request leaves the flags. Two /repo fixes are mirrored.")
    TECHNIQUE = "Coq proof (request semantics; per-node update relation closed under every frame transition: cancelled is never activated; one-step effects of forced) + tick-by-tick correspondence with the real PInterpreter and the real cancel / force API + Coq monitor"
    RULE = ("methods and environments as for C05; in 25% of the ticks 1-2 requests (cancel / force 50:50) for a run-log item picked "
            "uniformly among all items of the current run log, whatever it offers; non-trivial = at least one request carried "
            "out and one refused; distinct by canonical JSON")

    def __init__(self):
        self._obs = {}

    def gen_cases(self, rng, n, tier):
        return [gen_case(rng) for _ in range(n)]

    def run_impl(self, case):
        o = run_case(case)
        self._obs[json.dumps(case, sort_keys=True)] = o
        return o

    def case_to_coq(self, case):
        o = self._obs.get(json.dumps(case, sort_keys=True)) or self.run_impl(case)
        fl = lst([f"({b(c)}, {b(f)})" for c, f in o["flags"]])
        one = ticks_coq([dict(t, complete=t.get("complete", [])) for t in case["ticks"]])
        # ticks_coq gives a list literal of tick_in records; pair each with its resolved requests
        ticks = []
        for t, ot in zip(case["ticks"], o["ticks"]):
            ti = ticks_coq([t])[1:-1]
            reqs = lst(["{| r_cancel := %s; r_node := %s; r_offered := %s |}" % (b(c), nat(n), b(off))
                        for (c, n), off in zip(ot["resolved"], ot["offered"])])
            ticks.append("{| q_tick := %s; q_reqs := %s |}" % (ti, reqs))
        return f"({program_coq(o['table'])}, {fl}, {lst(ticks)})"

    def obs_to_coq(self, obs):
        rows = []
        for t in obs["ticks"]:
            rows.append("{| tv_view := %s; tv_cf := %s; tv_accepted := %s; tv_offered := %s |}"
                        % (view_coq(t["view"]), lst([f"({b(c)}, {b(f)})" for c, f in t["cf"]]),
                           lst([b(x) for x in t["accepted"]]), lst([b(x) for x in t["offered"]])))
        return lst(rows)

    def nontrivial(self, case, obs):
        acc = [a for t in obs["ticks"] for a in t["accepted"]]
        return any(acc) and not all(acc)

    def kind(self, case, obs):
        acc = [a for t in obs["ticks"] for a in t["accepted"]]
        return f"requests={min(len(acc), 9)},accepted={min(sum(acc), 9)}"

    def size(self, case):
        return len(case["lines"]) + len(case["ticks"])


PROP = C12()
