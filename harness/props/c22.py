import re

from harness.common import Prop, lst, tup, b, s as cs

OPT_ALPHA = ["A", "B", "V", "0", "1", "2", " ", ".", "-", "(", "*", "é"]
UNIT_POOL = ["kg", "g", "L/h", "%", "m", "min", "s", "h", "mL", "°C", "µS/cm", "AU", "L/m2/h", "m3", "CV", "a.b"]
WS = [" ", "\t", "\n", " ", " ", "\x1f", "\r"]


def sl(xs):
    return lst([cs(x) for x in xs])


class C22(Prop):
    ID = "C22"
    DESIGN_REF = "DESIGN.md §7 C22"
    LEVEL_TEXT = ("Coq theorems about executable models of the argument patterns: numeric patterns deliver number and "
                  "unit as substrings separated by whitespace only, for ALL unit lists and strings; for categorical "
                  "patterns the full statement ('exactly the documented language', 'never empty') and the introspection "
                  "statement are REFUTED in Coq (witnesses are known findings replayed on the real code) and the partial "
                  "theorem 'no documented value is rejected' is proved for all option lists.")
    LEVEL_NOTE = ("Theorems are about coq/model/C22.v: hand-written recognisers for the two pattern shapes (Python re "
                  "backtracking semantics is not modelled in general) and string-level models of the builders and of "
                  "get_units/get_*_options; tie = re.search with the real RegexNumber/RegexCategorical strings, the "
                  "real pattern strings and the real RegexNamedArgumentParser on the same inputs. No axioms.")
    TECHNIQUE = "Coq proof (capture decomposition, refutation witnesses, partial completeness) + correspondence against re"
    RULE = ("option/unit lists over alphabets with regex metacharacters and Unicode, candidate strings drawn from the "
            "documented language, its one-edit neighbourhood (dropped/doubled '+', missing unit, extra dots, signs, "
            "Unicode whitespace) and random; non-trivial = the candidate is within one edit of an accepted value; "
            "distinct by canonical JSON")
    QUICK_N = 4000
    THOROUGH_N = 150000
    TRUSTED = ["Python re (backtracking finds a match iff one exists for these shapes)"]
    ASSUMPTIONS = ["units do not start with a digit, '.', '-' or whitespace and contain no newline",
                   "options are non-empty"]

    def rand_opt(self, rng):
        return "".join(rng.choice(OPT_ALPHA) for _ in range(rng.randint(1, 4))).strip() or "A"

    def gen_cases(self, rng, n, tier):
        out = []
        for i in range(n):
            r = rng.random()
            if r < 0.42:
                excl = [self.rand_opt(rng) for _ in range(rng.choice([0, 0, 1, 2]))]
                add = [self.rand_opt(rng) for _ in range(rng.choice([0, 1, 2, 3]))]
                if rng.random() < 0.6:
                    excl = rng.sample(["Open", "Closed", "Off"], rng.choice([0, 1, 2]))
                    add = rng.sample(["VA01", "VA02", "VA03"], rng.choice([0, 2, 3]))
                mode = rng.random()
                if mode < 0.25 and excl:
                    s = rng.choice(excl)
                elif mode < 0.6 and add:
                    s = "+".join(rng.choice(add) for _ in range(rng.randint(1, 3)))
                elif mode < 0.7:
                    s = ""
                else:
                    s = "".join(rng.choice((add or ["X"]) + ["+", "+"] + (excl or ["Y"])) for _ in range(rng.randint(1, 4)))
                if rng.random() < 0.3 and s:
                    k = rng.randrange(len(s))
                    s = rng.choice([s[:k] + s[k + 1:], s[:k] + "+" + s[k:], s + rng.choice(WS), "+" + s, s + "+"])
                if rng.random() < 0.15:
                    s = s + rng.choice(WS)
                out.append(["cat", excl, add, s])
            elif r < 0.84:
                units = rng.sample(UNIT_POOL, rng.choice([0, 0, 1, 2, 4]))
                nonneg = rng.random() < 0.4
                intonly = rng.random() < 0.3
                good = ["5", "12", "0", "007"] + ([] if intonly else ["1.5", "10.", ".5"])
                if not nonneg:
                    good += ["-3"] + ([] if intonly else ["-0.25", "-.5"])
                if rng.random() < 0.6:
                    num = rng.choice(good)
                    unit = rng.choice(units) if units else ""
                else:
                    num = rng.choice(["5", "12", "0", "1.5", "10.", ".5", "-3", "-0.25", "-.5", "1.2.3", ".", "-", "٣", "1e3", "", "007"])
                    unit = rng.choice(units + [""] + UNIT_POOL[:3]) if rng.random() < 0.8 else "xx"
                sep = rng.choice(["", " ", "  ", "\t", " "])
                s = rng.choice(["", " ", "\n"]) + num + sep + unit + rng.choice(["", " ", "\n", " \n"])
                out.append(["num", units, nonneg, intonly, s])
            elif r < 0.90:
                out.append(["build_num", rng.sample(UNIT_POOL, rng.choice([0, 1, 3])), rng.random() < 0.5, rng.random() < 0.5])
            elif r < 0.94:
                out.append(["build_cat", [self.rand_opt(rng) for _ in range(rng.choice([0, 1, 2]))],
                            [self.rand_opt(rng) for _ in range(rng.choice([0, 1, 3]))]])
            elif r < 0.97:
                units = rng.sample(UNIT_POOL, rng.choice([1, 2, 4]))
                if rng.random() < 0.1:
                    units.append("a|b")
                out.append(["units", units])
            else:
                excl = [self.rand_opt(rng) for _ in range(rng.choice([0, 1, 2]))]
                add = [self.rand_opt(rng) for _ in range(rng.choice([0, 1, 3]))]
                if rng.random() < 0.1:
                    add.append("x|y")
                out.append(["opts", excl, add])
        return out

    def run_impl(self, case):
        from openpectus.lang.exec.regex import RegexNumber, RegexCategorical
        from openpectus.lang.exec.uod import RegexNamedArgumentParser
        k = case[0]
        if k == "cat":
            return ["bool", re.search(RegexCategorical(case[1], case[2]), case[3]) is not None]
        if k == "num":
            m = re.search(RegexNumber(case[1], case[2], case[3]), case[4])
            if m is None:
                return ["num", None]
            d = m.groupdict()
            return ["num", [d["number"], d.get("number_unit")]]
        if k == "build_num":
            return ["str", RegexNumber(case[1], case[2], case[3])]
        if k == "build_cat":
            return ["str", RegexCategorical(case[1], case[2])]
        if k == "units":
            try:
                return ["list", RegexNamedArgumentParser(RegexNumber(case[1])).get_units()]
            except ValueError:
                return ["list", None]
        if k == "opts":
            p = RegexNamedArgumentParser(RegexCategorical(case[1], case[2]))
            try:
                return ["lists", [p.get_exclusive_options(), p.get_additive_options()]]
            except ValueError:
                return ["lists", None]
        raise ValueError(k)

    def case_to_coq(self, case):
        k = case[0]
        if k == "cat":
            return f"QCat {sl(case[1])} {sl(case[2])} {cs(case[3])}"
        if k == "num":
            return f"QNum {sl(case[1])} {b(case[2])} {b(case[3])} {cs(case[4])}"
        if k == "build_num":
            return f"QBuildNum {sl(case[1])} {b(case[2])} {b(case[3])}"
        if k == "build_cat":
            return f"QBuildCat {sl(case[1])} {sl(case[2])}"
        if k == "units":
            return f"QUnits {sl(case[1])}"
        return f"QOpts {sl(case[1])} {sl(case[2])}"

    def obs_to_coq(self, obs):
        k, v = obs
        if k == "bool":
            return f"ABool {b(v)}"
        if k == "num":
            if v is None:
                return "ANum None"
            return f"ANum (Some ({cs(v[0])}, {'None' if v[1] is None else '(Some ' + cs(v[1]) + ')'}))"
        if k == "str":
            return f"AStr {cs(v)}"
        if k == "list":
            return "AList None" if v is None else f"AList (Some {sl(v)})"
        return "ALists None" if v is None else f"ALists (Some ({sl(v[0])}, {sl(v[1])}))"

    def nontrivial(self, case, obs):
        return case[0] in ("cat", "num")

    def kind(self, case, obs):
        if case[0] == "cat":
            return f"cat:{'accept' if obs[1] else 'reject'}"
        if case[0] == "num":
            return f"num:{'accept' if obs[1] else 'reject'}"
        return case[0]

    def classify(self, case, obs):
        k = case[0]
        if k == "cat":
            excl, add, s = case[1], case[2], case[3]
            if not obs[1]:
                return None            # a documented value rejected: never known
            body = s.rstrip()          # the over-acceptance class of the pattern (E|(A|\+)+)(?<!\+)
            if body == "":
                return "C22-categorical-accepts-empty" if (not add or not excl) else None
            # concatenation of additive options and '+', not ending in '+'
            if body.endswith("+"):
                return None
            pieces = sorted(set(add) | {"+"}, key=len, reverse=True)
            ok = [False] * (len(body) + 1)
            ok[0] = True
            for i in range(len(body)):
                if ok[i]:
                    for p in pieces:
                        if p and body.startswith(p, i):
                            ok[i + len(p)] = True
            return "C22-categorical-accepts-unseparated" if ok[len(body)] else None
        if k == "units" and any("|" in u for u in case[1]):
            return "C22-introspection-splits-pipe"
        if k == "opts" and any("|" in u for u in case[1] + case[2]):
            return "C22-introspection-splits-pipe"
        return None


PROP = C22()
