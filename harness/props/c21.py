"""C21: units.compare_values / are_comparable on generated unit pairs and decimal values vs the Coq model; the physical truth
(exact rational factors and offsets) comes from an exact (Fraction) pint registry built from the same definitions."""
import ast
import decimal
from decimal import Decimal
from fractions import Fraction

from harness.common import Prop, REPO, b, z
from harness.translate_units import translate, tables

OPS = ["<", "<=", ">", ">=", "=", "!="]
_state = {}


def setup():
    if _state:
        return _state
    import logging
    logging.disable(logging.CRITICAL)
    from pint import UnitRegistry
    src = (REPO / "openpectus/lang/exec/units.py").read_text()
    defs = [n.value.args[0].value for n in ast.parse(src).body
            if isinstance(n, ast.Expr) and isinstance(n.value, ast.Call) and isinstance(n.value.func, ast.Attribute)
            and n.value.func.attr == "define"]
    ur = UnitRegistry(non_int_type=Fraction)
    for d in defs:
        ur.define(d)
    qmap, names, self_only = tables()
    truth = {}
    for u in names:
        try:
            q1 = ur.Quantity(Fraction(1), u).to_root_units().magnitude
            q0 = ur.Quantity(Fraction(0), u).to_root_units().magnitude
            truth[u] = (Fraction(q1) - Fraction(q0), Fraction(q0))
        except Exception:
            truth[u] = None            # not a pint unit (CV)
    _state.update(names=names, qmap=qmap, truth=truth)
    return _state


def dec_str(x: Fraction, places):
    """decimal string of x rounded to `places` decimals (exact integer arithmetic)"""
    n = (x * 10 ** places + Fraction(1, 2)).__floor__()
    sign = "-" if n < 0 else ""
    d = str(abs(n)).zfill(places + 1)
    return sign + (d[:-places] + "." + d[-places:] if places else d)


def gen_case(rng):
    st = setup()
    names, qmap, truth = st["names"], st["qmap"], st["truth"]
    if rng.random() < 0.15:
        ua = rng.choice(names + [None])
        ub = rng.choice(names + [None]) if rng.random() < 0.5 else rng.choice([u for q, us in qmap for u in us if ua in us] or [None])
        return dict(kind="comparable", ua=ua, ub=ub)
    r = rng.random()
    q, us = rng.choice([(q, us) for q, us in qmap if len(us) > 1 or r < 0.2])
    ua = rng.choice(us)
    ub = ua if rng.random() < 0.2 else rng.choice(us)
    if rng.random() < 0.05:
        ua = ub = None
    if rng.random() < 0.04:
        ub = rng.choice(names + [None])
    places = rng.choice([0, 1, 2, 3, 6])
    a = Fraction(rng.randint(-2000, 200000), 10 ** places) if rng.random() < 0.85 else Fraction(rng.choice([0, 0, 1, -1, 10 ** 9]))
    a_s = dec_str(a, places)
    ta, tb = truth.get(ua), truth.get(ub)
    if ta and tb and rng.random() < 0.75:
        # b = the same physical quantity expressed in ub, exactly when that is a short decimal, then perturbed
        exact = (Fraction(Decimal(a_s)) * ta[0] + ta[1] - tb[1]) / tb[0]
        pl = rng.choice([2, 6, 12, 20, 25])
        pert = rng.choice([0, 0, 0, 1, -1, 3, -7]) * Fraction(1, 10 ** rng.choice([pl, pl, 3, 1]))
        b_s = dec_str(exact + pert, pl)
    else:
        b_s = dec_str(Fraction(rng.randint(-2000, 200000), 10 ** places), places) if rng.random() < 0.8 else a_s
    if rng.random() < 0.08:          # a zero on either side, in its various spellings (0 K, 0 degC and 0 degF differ)
        if rng.random() < 0.6:
            b_s = rng.choice(["0", "0.0", "-0", "0.00"])
            if ta and tb and rng.random() < 0.8:
                # the other value at, around and between the two zero points (they differ for offset units)
                z_in_a = (tb[1] - ta[1]) / ta[0]
                a_s = dec_str(rng.choice([z_in_a, z_in_a / 2, z_in_a + 1, z_in_a - 1, Fraction(0), Fraction(-1), Fraction(1)]), rng.choice([2, 3, 6]))
        else:
            a_s = rng.choice(["0", "0.0", "-0"])
            if ta and tb and rng.random() < 0.8:
                z_in_b = (ta[1] - tb[1]) / tb[0]
                b_s = dec_str(rng.choice([z_in_b, z_in_b / 2, z_in_b + 1, z_in_b - 1, Fraction(0), Fraction(-1), Fraction(1)]), rng.choice([2, 3, 6]))
    return dict(kind="cmp", ua=ua, ub=ub, a=a_s, b=b_s)


def dec_of(d: Decimal):
    sign, digits, exp = d.as_tuple()
    m = int("".join(map(str, digits))) * (-1 if sign else 1)
    if exp > 0:
        return m * 10 ** exp, 0
    return m, -exp


def observe(case):
    st = setup()
    from openpectus.lang.exec import units as U
    if case["kind"] == "comparable":
        def ac(x, y):
            try:
                return bool(U.are_comparable(x, y))
            except Exception:
                return None
        return dict(kind="comparable", ab=ac(case["ua"], case["ub"]), ba=ac(case["ub"], case["ua"]))
    res = []
    for op in OPS:
        try:
            res.append("RT" if U.compare_values(op, case["a"], case["ua"], case["b"], case["ub"]) else "RF")
        except Exception:
            res.append("RR")
    # the conversion pint performs, computed with the registry compare_values uses
    orc = dict(dim_ok=True)
    ua, ub = case["ua"], case["ub"]
    a, bb = Decimal(case["a"]), Decimal(case["b"])
    orc.update(b_in_a=bb)
    pct = next((us for _, us in st["qmap"] if "%" in us), [])
    if ua is not None and ub is not None and ua != ub and ua in pct and ub in pct:
        # the percentages denote the same number (equal scale in the source's quantity table); compare_values hands them to
        # pint as plain percent, so nothing is converted and nothing is rounded (fix 9e9a0269)
        pass
    elif ua is not None and ub is not None and ua != ub:
        try:
            qa, qb = U.ureg.Quantity(a, ua), U.ureg.Quantity(bb, ub)
            if qa.dimensionality != qb.dimensionality:
                # pint cannot convert (it reads 'mol%' as mole * percent). Units the source's quantity table puts in one
                # family and that have the same scale and zero point denote the same number: b needs no conversion
                ta, tb = st["truth"].get(ua), st["truth"].get(ub)
                if ta and tb and ta == tb and any(ua in us and ub in us for _, us in st["qmap"]):
                    pass
                else:
                    orc["dim_ok"] = False
            else:
                orc.update(b_in_a=qb.to(qa.units).magnitude)
        except Exception:
            orc["dim_ok"] = False
    return dict(kind="cmp", res=res, oracle={k: (str(v) if isinstance(v, Decimal) else v) for k, v in orc.items()})


def uc(u):
    return "None" if u is None else f"(Some {setup()['names'].index(u)}%nat)"


def dc(s):
    m, k = dec_of(Decimal(s))
    return "{| d_m := %s; d_k := %d%%nat |}" % (z(m), k)


def qc(fr: Fraction):
    return f"(Qmake {z(fr.numerator)} {fr.denominator}%positive)"


class C21(Prop):
    ID = "C21"
    DESIGN_REF = "DESIGN.md §7 C21"
    COQ_IMPORTS = "From Coq Require Import QArith."
    SHARD = 300
    QUICK_N = 1500
    THOROUGH_N = 40000
    LEVEL_TEXT = ("Coq theorems about a model of units.are_comparable / get_compatible_unit_names / compare_values over the unit "
                  "table regenerated from units.py: comparability is symmetric for all units and every table; the six operators "
                  "are mutually consistent for ALL inputs (any units, any decimals, whatever the conversion returns): "
                  "compare_values raises for all six or answers as one three-way comparison (exactly one of < = >, != is not =, "
                  "<= is < or =); the comparison is exact for equal units / no unit for decimals of any length. PARTIAL for "
                  "exactness across different units: proved whenever pint's conversion of the second value into the first "
                  "value's unit is exact; refuted otherwise (28-digit Decimal arithmetic, known finding).")
    LEVEL_NOTE = ("Theorems are about coq/model/C21.v; gen/Units.v is regenerated from units.py on every run (fail-closed "
                  "translator). pint's conversion is an ORACLE of the model: the harness computes it with the very registry "
                  "compare_values uses and passes the converted decimal in; the model reproduces the six answers of "
                  "compare_values from it (correspondence on every case). The physical truth of the monitor (exact rational "
                  "factor and offset per unit) comes from a second pint registry with Fraction arithmetic built from the same "
                  "definitions. The Coq monitor compares the code's six answers with the comparison of the exact physical "
                  "quantities and the two orders of are_comparable. Two /repo fixes are mirrored: symmetric comparability; one "
                  "conversion for all operators (before: root units for < <= > >=, a's unit for =, b's unit for != -- model "
                  "variant compare_all_old with a witness).")
    TECHNIQUE = "Coq proof (symmetry for every unit table; operator consistency for all inputs; exactness for equal units and for exact conversions) + translator for the unit table + correspondence with units.compare_values / are_comparable + Coq monitor against exact rational physical quantities"
    RULE = ("15% comparability queries over all 50 units and None (half within one quantity); 85% comparisons: units of one "
            "quantity (20% the same unit, 5% no unit, 4% any other unit), first value a decimal with 0-6 places in -2000..200000 "
            "or one of 0, 1, -1, 1e9; second value in 75% the same physical quantity expressed in the second unit to 2-25 "
            "places, perturbed by 0, +-1, 3, -7 units of the last place or of 1e-3 / 1e-1, else an independent decimal; all six "
            "operators per case; non-trivial = different units and no operator raised; distinct by canonical JSON")

    def __init__(self):
        self._obs = {}

    def translators(self):
        return [("units", translate)]

    def gen_cases(self, rng, n, tier):
        return [gen_case(rng) for _ in range(n)]

    def run_impl(self, case):
        o = observe(case)
        self._obs[repr(sorted(case.items(), key=str))] = o
        return o

    def case_to_coq(self, case):
        if case["kind"] == "comparable":
            return f"(IComparable {uc(case['ua'])} {uc(case['ub'])})"
        o = self._obs.get(repr(sorted(case.items(), key=str))) or self.run_impl(case)
        orc = o["oracle"]
        truth = setup()["truth"]
        ta = truth.get(case["ua"]) or (Fraction(1), Fraction(0))
        tb = truth.get(case["ub"]) or (Fraction(1), Fraction(0))
        return ("(ICmp {| c_ua := %s; c_ub := %s; c_a := %s; c_b := %s; c_dim_ok := %s; "
                "c_b_in_a := %s; c_fa := %s; c_oa := %s; c_fb := %s; c_ob := %s |})"
                % (uc(case["ua"]), uc(case["ub"]), dc(case["a"]), dc(case["b"]), b(orc["dim_ok"]),
                   dc(orc["b_in_a"]), qc(ta[0]), qc(ta[1]), qc(tb[0]), qc(tb[1])))

    def obs_to_coq(self, obs):
        if obs["kind"] == "comparable":
            return f"(OPair {b(bool(obs['ab']))} {b(bool(obs['ba']))})"
        r = obs["res"]
        return "(OCmp {| r_lt := %s; r_le := %s; r_gt := %s; r_ge := %s; r_eq := %s; r_ne := %s |})" % tuple(r)

    def classify(self, case, obs):
        """known: pint converts with 28 significant digits; the violation is explained iff the converted value differs from
        the exact conversion (the model reproduces the code's answer from the converted value: correspondence)"""
        if case["kind"] != "cmp" or case["ua"] == case["ub"]:
            return None
        st = setup()
        truth = st["truth"]
        ta, tb = truth.get(case["ua"]), truth.get(case["ub"])
        if not ta or not tb or not any(case["ua"] in us and case["ub"] in us for _, us in st["qmap"]) or "RR" in obs["res"]:
            return None
        exact = (Fraction(Decimal(case["b"])) * tb[0] + tb[1] - ta[1]) / ta[0]
        if Fraction(Decimal(obs["oracle"]["b_in_a"])) != exact:
            return "C21-conversion-rounds-to-28-digits"
        return None

    def nontrivial(self, case, obs):
        return case["kind"] == "cmp" and case["ua"] is not None and case["ub"] is not None and case["ua"] != case["ub"] \
            and "RR" not in obs["res"]

    def kind(self, case, obs):
        if case["kind"] == "comparable":
            return f"comparable,{obs['ab']},{obs['ba']}"
        return "cmp,%s,%s" % ("same" if case["ua"] == case["ub"] else "conv", "".join(x[1] for x in obs["res"]))

    def size(self, case):
        return 1


PROP = C21()
