from harness.interp_common import InterpProp, gen_interp_case
from harness.props import c12 as C12M


def _strip(case):
    return {k: v for k, v in case.items() if k != "kind"}


class C04(InterpProp):
    ID = "C04"
    DESIGN_REF = "DESIGN.md §7 C04"
    QUICK_N = 300
    THOROUGH_N = 12000
    LEVEL_TEXT = "PARTIAL. Coq theorems about the interpreter model: in EVERY tick a Watch / Alarm becomes activated only if its condition evaluated true without raising in that tick's environment (or it had been forced); in EVERY state of EVERY run a started line whose parent is a Watch (outside Alarm and Macro bodies) has an ACTIVATED parent -- a Watch body runs only after its condition held (stack invariant over all generators), also in runs with cancel / force requests at any ticks, in which from the state where a Watch is cancelled and not activated on no line of its body ever starts; the lines of a Watch body outside Alarm and Macro bodies start at most once in every run; after every tick of every run no Watch / Alarm whose block has ended has a handler left in the interrupt map (with /repo fix bd56ff75). That a body line of an ALARM starts only while the Alarm is activated, that a Watch keeps its activation, and that nothing of a body starts after the enclosing block ended are decided by the Coq monitor on the real interpreter. Cancel / force: 20% of the cases are methods with cancel / force requests against the run log, run on the request model of C12 (coq/model/C12.v: a cancelled Watch never runs its body, a request that is not offered changes nothing) with its correspondence and monitor."
    LEVEL_NOTE = "Theorems are about coq/model/Interp.v (with macros; injection, cancel / force and live edits are the subject of C14, C12 and C01). Tie: as for C05 -- tick-by-tick correspondence of the model with the real PInterpreter under scripted environments on every node's state fields, the interrupt map, the Block tag, scheduled commands and errors; the property's Coq monitor runs on the real observations. No axioms."
    TECHNIQUE = 'Coq proof (per-node update relation closed under every frame transition of the interpreter model, lifted to ticks and runs; rely / guarantee stack invariant over every frame of every generator) + tick-by-tick correspondence with the real PInterpreter + Coq monitor on the real node states'
    RULE = '80%: methods and environments as for C05 (watches and alarms, also nested, with per-condition truth probabilities 0-1 and 1% evaluation errors); non-trivial = at least 10 ticks and three completed lines; 20%: methods with cancel / force requests as for C12 (non-trivial = one request carried out and one refused)'

    COQ_IMPORTS = InterpProp.COQ_IMPORTS + "\nFrom OP Require Import model.C12."

    def gen_cases(self, rng, n, tier):
        out = []
        for _ in range(n):
            if rng.random() < 0.2:      # cancel / force requests against the run log (the stream of C12)
                out.append(dict(kind="req", **C12M.gen_case(rng)))
            else:
                out.append(gen_interp_case(rng))
        return out

    def run_impl(self, case):
        if case.get("kind") == "req":
            o = dict(C12M.PROP.run_impl(_strip(case)))
            o["kind"] = "req"
            return o
        return super().run_impl(case)

    def case_to_coq(self, case):
        if case.get("kind") == "req":
            return "(IReq " + C12M.PROP.case_to_coq(_strip(case)) + ")"
        return "(IRun " + super().case_to_coq(case) + ")"

    def obs_to_coq(self, obs):
        if obs.get("kind") == "req":
            return "(OReq " + C12M.PROP.obs_to_coq(obs) + ")"
        return "(ORun " + super().obs_to_coq(obs) + ")"

    def nontrivial(self, case, obs):
        if obs.get("kind") == "req":
            return C12M.PROP.nontrivial(_strip(case), obs)
        return len(obs["views"]) >= 10 and sum(1 for n in obs["views"][-1]["nodes"] if n[1]) >= 3

    def kind(self, case, obs):
        if obs.get("kind") == "req":
            return "req," + C12M.PROP.kind(_strip(case), obs)
        return "raised=%d,ints=%d" % (int(any(v["raised"] for v in obs["views"])), min(2, max(len(v["interrupts"]) for v in obs["views"])))


PROP = C04()
