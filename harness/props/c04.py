from harness.interp_common import InterpProp


class C04(InterpProp):
    ID = "C04"
    DESIGN_REF = "DESIGN.md §7 C04"
    QUICK_N = 300
    THOROUGH_N = 12000
    LEVEL_TEXT = "PARTIAL. Coq theorems about the interpreter model: in EVERY tick a Watch / Alarm becomes activated only if its condition evaluated true without raising in that tick's environment (or it had been forced); in EVERY state of EVERY run a started line whose parent is a Watch (outside Alarm and Macro bodies) has an ACTIVATED parent -- a Watch body runs only after its condition held (stack invariant over all generators); the lines of a Watch body outside Alarm and Macro bodies start at most once in every run; after every tick of every run no Watch / Alarm whose block has ended has a handler left in the interrupt map (with /repo fix bd56ff75). That a body line of an ALARM starts only while the Alarm is activated, that a Watch keeps its activation, and that nothing of a body starts after the enclosing block ended are decided by the Coq monitor on the real interpreter. Cancel / force: C12."
    LEVEL_NOTE = "Theorems are about coq/model/Interp.v (with macros; injection, cancel / force and live edits are the subject of C14, C12 and C01). Tie: as for C05 -- tick-by-tick correspondence of the model with the real PInterpreter under scripted environments on every node's state fields, the interrupt map, the Block tag, scheduled commands and errors; the property's Coq monitor runs on the real observations. No axioms."
    TECHNIQUE = 'Coq proof (per-node update relation closed under every frame transition of the interpreter model, lifted to ticks and runs; rely / guarantee stack invariant over every frame of every generator) + tick-by-tick correspondence with the real PInterpreter + Coq monitor on the real node states'
    RULE = 'methods and environments as for C05 (watches and alarms, also nested, with per-condition truth probabilities 0-1 and 1% evaluation errors); non-trivial = at least 10 ticks and three completed lines'

    def nontrivial(self, case, obs):
        return len(obs["views"]) >= 10 and sum(1 for n in obs["views"][-1]["nodes"] if n[1]) >= 3

    def kind(self, case, obs):
        return "raised=%d,ints=%d" % (int(any(v["raised"] for v in obs["views"])), min(2, max(len(v["interrupts"]) for v in obs["views"])))


PROP = C04()
