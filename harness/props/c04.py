from harness.interp_common import InterpProp


class C04(InterpProp):
    ID = "C04"
    DESIGN_REF = "DESIGN.md §7 C04"
    QUICK_N = 300
    THOROUGH_N = 12000
    LEVEL_TEXT = "PARTIAL. Coq theorems about the interpreter model: in EVERY tick a Watch / Alarm becomes activated only if its condition evaluated true without raising in that tick's environment (or it had been forced); the lines of a Watch body outside Alarm and Macro bodies start at most once in every run; after every tick of every run no Watch / Alarm whose block has ended has a handler left in the interrupt map (with /repo fix bd56ff75). That a body line starts only while its Watch / Alarm is activated, that a Watch keeps its activation, and that nothing of a body starts after the enclosing block ended are decided by the Coq monitor on the real interpreter. Cancel / force are not modelled."
    LEVEL_NOTE = "Theorems are about coq/model/Interp.v (with macros; injection, cancel / force and live edits are the subject of C14, C12 and C01). Tie: as for C05 -- tick-by-tick correspondence of the model with the real PInterpreter under scripted environments on every node's state fields, the interrupt map, the Block tag, scheduled commands and errors; the property's Coq monitor runs on the real observations. No axioms."
    TECHNIQUE = 'Coq proof (per-node update relation closed under every frame transition of the interpreter model, lifted to ticks and runs) + tick-by-tick correspondence with the real PInterpreter + Coq monitor on the real node states'
    RULE = 'methods and environments as for C05 (watches and alarms, also nested, with per-condition truth probabilities 0-1 and 1% evaluation errors); non-trivial = at least 10 ticks and three completed lines'

    def nontrivial(self, case, obs):
        return len(obs["views"]) >= 10 and sum(1 for n in obs["views"][-1]["nodes"] if n[1]) >= 3

    def kind(self, case, obs):
        return "raised=%d,ints=%d" % (int(any(v["raised"] for v in obs["views"])), min(2, max(len(v["interrupts"]) for v in obs["views"])))


PROP = C04()
