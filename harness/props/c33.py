from harness.common import Prop, lst, tup
from harness import agg_env
from harness.translate_topics import translate

SCOPES = ["Contributed", "Access", "Specific"]


def nl(xs):
    return lst([f"{x}%nat" for x in xs])


class C33(Prop):
    ID = "C33"
    DESIGN_REF = "DESIGN.md §7 C33"
    LEVEL_TEXT = ("Coq theorems over ALL sets of notification preferences, subscriptions, role sets, contributors, topics "
                  "and units: the notified subscriptions are exactly those of users whose preference row selects the "
                  "topic, whose recorded roles grant access and whose scope matches; each subscription at most once; a "
                  "new-contributor notification never goes to the contributor it is about.")
    LEVEL_NOTE = ("Theorems are about coq/model/C33.v; `topics.contains(topic)` (a LIKE on JSON text) is modelled as "
                  "membership, supported by a finite Coq check over the regenerated topic names; tie = the real "
                  "WebPushPublisher.publish_message and repositories on in-memory SQLite with _post_webpush recorded. "
                  "No axioms.")
    TECHNIQUE = "Coq proof (set comprehension = specification) + translator table + model/implementation correspondence"
    RULE = ("1-4 users with preference rows (roles over a 3-role universe, all three scopes, topic subsets), 0-3 "
            "subscriptions per user, units with 0-2 required roles and contributors with/without id, every topic; "
            "non-trivial = at least one user is entitled and at least one user with a subscription is not; distinct by "
            "canonical JSON")
    QUICK_N = 700
    THOROUGH_N = 20000
    TRUSTED = ["SQLite JSON/LIKE semantics for topics.contains; WHERE user_id IN (..) returns each row once",
               "_post_webpush replaced by a recorder (no real push service)"]
    ASSUMPTIONS = ["one preference row per user (unique constraint)", "subscription ids are primary keys"]

    def translators(self):
        return [("topics", translate)]

    def gen_cases(self, rng, n, tier):
        out = []
        for _ in range(n):
            nusers = rng.randint(1, 4)
            topic = rng.choice([6, 6, 6] + list(range(9)))
            unit_id = rng.randrange(3)
            required = sorted(rng.sample(range(3), rng.choice([0, 0, 1, 1, 2])))
            contributors = [rng.choice([None] + list(range(nusers))) for _ in range(rng.randint(0, 3))]
            prefs = []
            subs = []
            sid = 1
            for u in range(nusers):
                if rng.random() < 0.9:
                    tps = set(rng.sample(range(9), rng.choice([0, 1, 2, 3])))
                    if rng.random() < 0.7:
                        tps.add(topic)
                    roles = set(rng.sample(range(3), rng.randint(0, 2)))
                    if required and rng.random() < 0.5:
                        roles.add(rng.choice(required))
                    units = set(rng.sample(range(3), rng.randint(0, 2)))
                    if rng.random() < 0.5:
                        units.add(unit_id)
                    prefs.append([u, sorted(roles), rng.randrange(3), sorted(tps), sorted(units)])
                for _ in range(rng.choice([0, 1, 1, 2, 3])):
                    subs.append([sid, u])
                    sid += 1
            contributor = rng.choice([None] + list(range(nusers)))
            out.append([prefs, subs, topic, [unit_id, required, contributors], contributor])
        return out

    def run_impl(self, case):
        return agg_env.run(self._run(case))

    async def _run(self, case):
        import openpectus.aggregator.models as Mdl
        import openpectus.aggregator.data.models as DMdl
        from openpectus.aggregator.data import database
        from openpectus.aggregator.data.repository import WebPushRepository
        from openpectus.aggregator.webpush_publisher import WebPushPublisher
        prefs, subs, topic, unit, contributor = case
        agg_env.fresh_db()
        topics = list(Mdl.NotificationTopic)
        scopes = {0: Mdl.NotificationScope.PROCESS_UNITS_WITH_RUNS_IVE_CONTRIBUTED_TO,
                  1: Mdl.NotificationScope.PROCESS_UNITS_I_HAVE_ACCESS_TO,
                  2: Mdl.NotificationScope.SPECIFIC_PROCESS_UNITS}
        with database.create_scope():
            repo = WebPushRepository(database.scoped_session())
            for u, roles, sc, tps, units in prefs:
                repo.store_notifications_preferences(Mdl.WebPushNotificationPreferences(
                    user_id=f"U{u}", user_roles={f"R{r}" for r in roles}, scope=scopes[sc],
                    topics={topics[t] for t in tps}, process_units={f"E{x}" for x in units}))
            s = database.scoped_session()
            for sid, u in subs:
                row = DMdl.WebPushSubscription()
                row.id = sid
                row.user_id = f"U{u}"
                row.endpoint = f"https://push.example/{sid}"
                row.auth = "a"
                row.p256dh = "p"
                s.add(row)
            s.commit()
        ed = agg_env.engine_data(f"E{unit[0]}")
        ed.required_roles = {f"R{r}" for r in unit[1]}
        ed.contributors = {Mdl.Contributor(id=None if c is None else f"U{c}", name=f"n{i}") for i, c in enumerate(unit[2])}
        pub = WebPushPublisher.__new__(WebPushPublisher)
        pub.wp = object()
        sent = []

        async def record(subscription, repo, notification):
            sent.append(int(subscription.id))
        pub._post_webpush = record
        notification = Mdl.WebPushNotification(
            title="t", body="b",
            data=Mdl.WebPushData(process_unit_id=ed.engine_id, contributor_id=None if contributor is None else f"U{contributor}"))
        await pub.publish_message(notification, topics[topic], ed)
        return sorted(sent) if len(set(sent)) == len(sent) else sent

    def case_to_coq(self, case):
        prefs, subs, topic, unit, contributor = case

        def pref(p):
            u, roles, sc, tps, units = p
            return ("{| p_user := %d%%nat; p_roles := %s; p_scope := %s; p_topics := %s; p_units := %s |}"
                    % (u, nl(roles), SCOPES[sc], nl(tps), nl(units)))
        un = ("{| u_id := %d%%nat; u_required := %s; u_contributors := %s |}"
              % (unit[0], nl(unit[1]), lst(["None" if c is None else f"(Some {c}%nat)" for c in unit[2]])))
        return tup(lst([pref(p) for p in prefs]), lst([tup(f"{a}%nat", f"{b_}%nat") for a, b_ in subs]),
                   f"{topic}%nat", un, "None" if contributor is None else f"(Some {contributor}%nat)")

    def obs_to_coq(self, obs):
        return nl(obs)

    def nontrivial(self, case, obs):
        users_with_subs = {u for _, u in case[1]}
        notified_users = {u for sid, u in case[1] if sid in obs}
        return bool(notified_users) and bool(users_with_subs - notified_users)

    def kind(self, case, obs):
        return f"topic={'NEW_CONTRIBUTOR' if case[2] == 6 else 'other'},notified={min(len(obs), 4)}"


PROP = C33()
