from harness.interp_common import InterpProp


class C05(InterpProp):
    ID = "C05"
    DESIGN_REF = "DESIGN.md §7 C05"
    QUICK_N = 300
    THOROUGH_N = 12000
    LEVEL_TEXT = ("PARTIAL. Coq theorems about an executable model of the interpreter (coq/model/Interp.v: every generator "
                  "of pinterpreter.py defunctionalised into frames -- visit, thresholds, _visit_children, Program, Blank/"
                  "Comment, Mark, Block with its lock protocol, End block(s) with interrupt abortion, Watch, Alarm with "
                  "re-arm and subtree reset, Wait, Noop, command lines, invalid instructions, Macro definitions and calls with the recursion check, exception capture in visit, "
                  "the sub-tick loop over main generator and interrupt copies): in EVERY state of EVERY run, for all methods "
                  "of these constructs, all environments and any number of ticks, (1) the blocks holding the lock form one "
                  "nested chain and (2) no Watch / Alarm of the interrupt map lies inside a block that has ended (End block "
                  "ends the block together with its pending Watches and Alarms; with the /repo fix). Both are invariants "
                  "preserved by each of the ~30 frame transitions, lifted by a transfer theorem. (3) Outside Alarm and Macro "
                  "bodies a started line whose parent is a Block lies in a block that has taken the lock (holds it, or has "
                  "ended / completed since): no line of a block body runs before the block acquired the lock (rely / guarantee "
                  "stack invariant over every frame of every generator, proofs/Interp_stack.v + proofs/C05_order.v). The other clauses (Block tag "
                  "= innermost active block, nothing after a block starts before it ended) are decided by the Coq monitor on "
                  "the real interpreter; the last one is refuted inside re-arming Alarm bodies and inside a Macro body that two calls execute at once (known findings).")
    LEVEL_NOTE = ("Theorems are about coq/model/Interp.v (with macros; injection, cancel / force and live edits are the subject "
                  "of C14, C12 and C01). Theorems (2) and (3) assume that parent pointers and child lists of the method describe the same tree "
                  "(tree_ok_b / wf_b, evaluated by the monitor on every generated method). Tie: generated methods are parsed by the "
                  "real parser and run on the real PInterpreter (interp.tick called directly on an engine that provides the "
                  "interpreter context) under a scripted environment -- per tick: which nodes still await their threshold, "
                  "which conditions evaluate true or raise (_is_awaiting_threshold / _evaluate_condition replaced by the "
                  "script), which started command lines the command manager reports completed, tick increments -- and "
                  "compared with the model after EVERY tick on every node's ten state fields, the interrupt map order, the "
                  "Block tag, commands handed to the engine, whether tick raised and the recorded error node. No axioms.")
    TECHNIQUE = "Coq proof (invariant preserved by every frame transition of the interpreter model, lifted to all runs) + tick-by-tick correspondence with the real PInterpreter under scripted environments + Coq monitor on the real node states"
    RULE = ("methods of 3-40 lines over the stage-A constructs (nested blocks with End block / End blocks / missing ends, "
            "watches and alarms also nested, thresholds on 15% of the lines, waits 0-2 s, Noop 0-3, UOD commands, simple and "
            "invalid instructions, blank and comment lines, trailing blanks), 10-70 ticks with increments 1-2, thresholds "
            "released at random ticks, per-condition truth probabilities 0-1, 1% condition errors, commands completed with "
            "probability 0.3 per tick; Watches / Alarms nest up to 3 deep; 12% of the methods have the directed shape 'block "
            "whose body nests Watches / Alarms in Watches / Alarms, ended from inside one of them, from its own body or from a "
            "Watch outside, followed by lines after the block'; 15% have the directed macro shape (1-3 definitions with blocks, "
            "watches and calls in their bodies, redefinitions, calls at top level, in blocks and in watch bodies, undefined and "
            "recursive calls); non-trivial = a block took the lock and a block ended; "
            "distinct by canonical JSON")

    def nontrivial(self, case, obs):
        locked = [sum(1 for n in v["nodes"] if n[5]) for v in obs["views"]]
        return max(locked, default=0) >= 1 and any(n[6] for v in obs["views"] for n in v["nodes"])

    def classify(self, case, obs):
        """two listed findings, each with its own shape; every offending block must be explained by one of them and nothing
        else may be wrong (chain and pending-interrupt clauses hold):
        (a) inside the body of a re-arming Alarm, generators of the previous invocation (a nested Watch / Alarm whose
        interrupt survives the re-arm, or the duplicate run of a nested Alarm) start lines after a block while the block of
        the new invocation is running, or the re-arm resets a block that holds the lock while the Block tag goes on naming it;
        (b) inside the body of a Macro that two calls execute at the same time (two Call macro lines of its name started and
        not finished in one view: the second caller joins the run of the first and both advance the same child index)"""
        tab = obs["table"]
        A, M = ("C05-stale-generator-runs-lines-after-a-block-in-a-rearmed-alarm-body",
                "C05-concurrent-calls-of-one-macro-share-its-body")

        def anc(n):
            out = []
            while tab[n]["parent"] is not None:
                n = tab[n]["parent"]
                out.append(n)
            return out
        blocks = [k for k, t in enumerate(tab) if t["kind"][0] == "KBlock"]
        calls = [(k, t["kind"][1]) for k, t in enumerate(tab) if t["kind"][0] == "KCallMacro"]
        seen = set()
        concurrent = set()          # macro names that two calls have been executing at once so far

        def explained(x):
            if any(tab[a]["kind"][0] == "KMacro" and tab[a]["kind"][1] in concurrent for a in anc(x)):
                return M
            if any(tab[a]["kind"][0] == "KAlarm" for a in anc(x)):
                return A
            return None
        for v in obs["views"]:
            nd = v["nodes"]
            running = {}
            for c, nm in calls:
                if nd[c][0] and not nd[c][1] and not nd[c][2]:
                    running[nm] = running.get(nm, 0) + 1
            concurrent |= {nm for nm, k in running.items() if k >= 2}
            locked = [x for x in blocks if nd[x][5]]
            if any(not (a == x or a in anc(x) or x in anc(a)) for a in locked for x in locked):
                return None
            active = [x for x in locked if not nd[x][6]]
            if v["block"] != (active[-1] if active else None):
                # explained only if the tag names an unlocked block inside an Alarm body (reset by the re-arm) or the
                # blocks concerned lie in a concurrently executed Macro body
                named = v["block"]
                if named is not None and named >= 0 and explained(named) == M:
                    seen.add(M)
                elif active and explained(active[-1]) == M:
                    seen.add(M)
                elif named is None or named < 0 or nd[named][5] or explained(named) != A:
                    return None
                else:
                    seen.add(A)
            for i in v["interrupts"]:
                if any(tab[a]["kind"][0] == "KBlock" and nd[a][6] for a in anc(i)):
                    return None
            for x in blocks:
                sibs = tab[tab[x]["parent"]]["children"]
                for s_ in sibs[sibs.index(x) + 1:]:
                    if nd[s_][0] and not (nd[x][6] or nd[x][1] or not nd[x][0]):
                        e = explained(x)
                        if e is None:
                            return None
                        seen.add(e)
        return "+".join(sorted(seen)) if seen else None

    def kind(self, case, obs):
        locked = [sum(1 for n in v["nodes"] if n[5]) for v in obs["views"]]
        return f"maxlocked={max(locked, default=0)},raised={int(any(v['raised'] for v in obs['views']))}"


PROP = C05()
