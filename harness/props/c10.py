from harness.props.c06 import EngineProp, gen_engine_case
from harness.props.c11 import gen_uod_case


class C10(EngineProp):
    ID = "C10"
    DESIGN_REF = "DESIGN.md §7 C10"
    FAULTS = True
    QUICK_N = 300
    THOROUGH_N = 15000
    LEVEL_TEXT = ("PARTIAL. Coq theorems about the engine-core model for ALL operation sequences: run ids are handed out in "
                  "order 0,1,2,... so every run (after Start and after Restart) gets a fresh id and the current id is one of "
                  "them (invariant preserved by every primitive of the engine step); the step that ends a run clears the run "
                  "id and the started flag, Restart's last step installs the next id; the clean-up pass leaves a UOD "
                  "request's own instance disposed or cancelled. NOT proved: that no instance at all is left at run end "
                  "(checked by the Coq monitor on the real engine: nothing live at clear_run_id, no command instance and no "
                  "run id outside a run), the run-log and simulation clauses and 'the method runs again from its first "
                  "line' (tracking records, tag simulation and the interpreter are outside the engine-core model).")
    LEVEL_NOTE = ("Theorems are about coq/model/Eng.v. Tie: operation-by-operation correspondence with the real Engine (run id, "
                  "uod.command_instances, init/exec/finalize calls, set_run_id/clear_run_id events); the Coq monitor "
                  "(mon10/walk) runs on the real observations. The /repo fix e49f48bd (requests queued with Stop no longer "
                  "start a command that outlives the run) is mirrored in the model. No axioms.")
    TECHNIQUE = "Coq proof (run-id invariant preserved by every primitive of the engine step; local theorems for the run-ending steps and the cancel pass) + operation-by-operation correspondence with the real Engine + Coq monitor on the real run boundaries and command instances"
    RULE = ("UOD-heavy and general operation sequences of 8-45 operations with Stop / Restart at any tick (also requested "
            "several times, also together with UOD requests in one tick), long-running and overlapping UOD commands, timed "
            "Pause/Hold, faults; non-trivial = a run end with at least one UOD command started in that run and a later run; "
            "distinct by canonical JSON")

    def gen_cases(self, rng, n, tier):
        return [gen_uod_case(rng) if rng.random() < 0.6 else gen_engine_case(rng, True) for _ in range(n)]

    def nontrivial(self, case, obs):
        evs = [e[0] for v in obs["views"] for e in v["events"]]
        if "runstop" not in evs or "init" not in evs:
            return False
        k = evs.index("runstop")
        return "init" in evs[:k] and "runstart" in evs[k:]

    def kind(self, case, obs):
        evs = [e[0] for v in obs["views"] for e in v["events"]]
        return f"stops={min(evs.count('runstop'), 3)},starts={min(evs.count('runstart'), 3)},inits={min(evs.count('init'), 5)}"


PROP = C10()
