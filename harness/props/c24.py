from harness.common import Prop
from harness import recovery_driver as RD
from harness.translate_recovery import translate


class C24(Prop):
    ID = "C24"
    COQ_IMPORTS = "From OP Require Import gen.RecoveryConst."
    DESIGN_REF = "DESIGN.md §7 C24"
    LEVEL_TEXT = ("Coq invariant over ALL sequences of reads, writes, write batches, ticks, reconnects and time advances "
                  "with arbitrary hardware outcomes (including failures in the middle of flushing): every register's "
                  "last commanded value is either on the hardware or still buffered as exactly that value, so no stale "
                  "buffered value is ever written after a newer one and a successful write cycle leaves every written "
                  "register current. Proved for the repaired code (fix recorded).")
    LEVEL_NOTE = ("Theorems are about coq/model/Recovery.v (scripted hardware, integer values, duplicate-free batches); "
                  "constants regenerated from hardware_recovery.py; tie = the real ErrorRecoveryDecorator over a "
                  "scripted fake hardware and patched clock, compared per operation (result, state, tag) and on the "
                  "hardware write log and pending buffer. No axioms.")
    TECHNIQUE = "Coq proof (state invariant by induction over fault sequences) + model/implementation correspondence"
    RULE = ("fault sequences of 3-40 operations over 1-4 registers with correlated outages; non-trivial = some write "
            "failed or was buffered and a later write succeeded; distinct by canonical JSON")
    QUICK_N = 2500
    THOROUGH_N = 80000
    TRUSTED = ["fake hardware: a failing call has no effect; time.time patched in the module"]
    ASSUMPTIONS = ["integer values (math.isclose branch for floats not modelled)", "batches without repeated registers"]

    def translators(self):
        return [("recovery", translate)]

    def gen_cases(self, rng, n, tier):
        return [RD.gen_case(rng, long=(i % 5 == 0)) for i in range(n)]

    def run_impl(self, case):
        return RD.run_impl(case)

    def case_to_coq(self, case):
        return RD.case_to_coq(case)

    def obs_to_coq(self, obs):
        return RD.obs_to_coq(obs)

    def nontrivial(self, case, obs):
        seen_fail = False
        for o in case[1]:
            if o[0] in ("Write", "WriteBatch"):
                okflag = o[3] if o[0] == "Write" else o[2]
                if not okflag:
                    seen_fail = True
                elif seen_fail:
                    return True
        return False

    def kind(self, case, obs):
        states = {s for _, s, _ in obs[0]}
        return "states=" + "".join(sorted(x[0] for x in states))


PROP = C24()
