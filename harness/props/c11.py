from harness.props.c06 import EngineProp, gen_engine_case


def gen_uod_case(rng):
    """UOD-heavy sequences: same-name and overlapping (CmdB/CmdC) commands of varying durations from the method and the
    user, failing commands, Stop / Restart / Pause at any tick"""
    base = gen_engine_case(rng, faults=rng.random() < 0.4, uods=True, setouts=False, n_ops=rng.randint(2, 6))
    nout = len(base["cfg"]["outs0"])
    ops = base["ops"]
    for _ in range(rng.randint(4, 28)):
        r = rng.random()
        if r < 0.14:
            ops.append(["user", rng.choice(["Stop", "Start", "Restart", "Pause", "Unpause", "Hold", "Unhold", "Stop", "Start"])])
        elif r < 0.24:
            ops.append(["useruod", rng.randrange(3)])
        else:
            reqs = []
            for _ in range(rng.choice([0, 1, 1, 1, 2, 3])):
                reqs.append(["uod", rng.randrange(3), [rng.randint(0, 5), rng.choice([None, None, None, 0, 1, 2]),
                                                      None if rng.random() < 0.7 else [rng.randrange(nout), rng.randint(6, 9)]]])
            if rng.random() < 0.08:
                reqs.append([rng.choice(["Stop", "Restart"])])
            ops.append(["tick", 1, True, rng.random() >= 0.02, reqs, rng.random() < 0.02])
    ops.append(["tick", 1, True, True, [], False])
    ops.append(["tick", 1, True, True, [], False])
    return dict(cfg=base["cfg"], ops=ops)


class C11(EngineProp):
    ID = "C11"
    DESIGN_REF = "DESIGN.md §7 C11"
    FAULTS = True
    QUICK_N = 300
    THOROUGH_N = 15000
    LEVEL_TEXT = "TODO"
    LEVEL_NOTE = "TODO"
    TECHNIQUE = "TODO"
    RULE = "TODO"

    def gen_cases(self, rng, n, tier):
        return [gen_uod_case(rng) if rng.random() < 0.8 else gen_engine_case(rng, True) for _ in range(n)]

    def nontrivial(self, case, obs):
        evs = [e for v in obs["views"] for e in v["events"]]
        inits = [e for e in evs if e[0] == "init"]
        return len(inits) >= 3 and any(e[0] == "runstop" for e in evs)

    def kind(self, case, obs):
        evs = [e for v in obs["views"] for e in v["events"]]
        return f"inits={min(sum(1 for e in evs if e[0] == 'init'), 6)},stops={min(sum(1 for e in evs if e[0] == 'runstop'), 2)}"


PROP = C11()
