from harness.props.c06 import EngineProp, gen_engine_case


def gen_uod_case(rng):
    """UOD-heavy sequences: same-name and overlapping (CmdB/CmdC) commands of varying durations from the method and the
    user, failing commands, Stop / Restart / Pause at any tick"""
    base = gen_engine_case(rng, faults=rng.random() < 0.4, uods=True, setouts=False, n_ops=rng.randint(2, 6))
    nout = len(base["cfg"]["outs0"])
    ops = base["ops"]
    for _ in range(rng.randint(4, 28)):
        r = rng.random()
        if r < 0.14:
            ops.append(["user", rng.choice(["Stop", "Start", "Restart", "Pause", "Unpause", "Hold", "Unhold", "Stop", "Start"])])
        elif r < 0.24:
            ops.append(["useruod", rng.randrange(3)])
        else:
            reqs = []
            for _ in range(rng.choice([0, 1, 1, 1, 2, 3])):
                reqs.append(["uod", rng.randrange(3), [rng.randint(0, 5), rng.choice([None, None, None, 0, 1, 2]),
                                                      None if rng.random() < 0.7 else [rng.randrange(nout), rng.randint(6, 9)]]])
            if rng.random() < 0.08:
                reqs.append([rng.choice(["Stop", "Restart"])])
            ops.append(["tick", 1, True, rng.random() >= 0.02, reqs, rng.random() < 0.02])
    ops.append(["tick", 1, True, True, [], False])
    ops.append(["tick", 1, True, True, [], False])
    # one command may belong to several overlap groups (the code walks every declared group)
    cfg = dict(base["cfg"], overlaps=rng.choice([[[1, 2]], [[1, 2]], [[0, 1], [0, 2]], [[1, 2], [0, 2]], [[0, 2], [1, 2]], [[0, 1, 2]],
                                                 [[0, 1], [1, 2]]]))
    return dict(cfg=cfg, ops=ops)


class C11(EngineProp):
    ID = "C11"
    DESIGN_REF = "DESIGN.md §7 C11"
    FAULTS = True
    QUICK_N = 300
    THOROUGH_N = 15000
    LEVEL_TEXT = ("Coq theorems about the engine-core model for ALL operation sequences (faults, failing commands, Stop/Restart "
                  "at any tick): in every reachable state the init/exec/finalize trace obeys the life-cycle discipline (a "
                  "command is initialised only when no instance of it is live; exec only on an initialised, not yet "
                  "finalized instance) and the live set IS the set of initialised instances the engine holds -- proved by "
                  "an invariant preserved by each primitive of the engine step, where the UOD primitives carry the facts "
                  "the code establishes (registry lookups) and those facts are derived in the decomposition proof. Local "
                  "theorems: cancelling a request leaves its own instance disposed or cancelled and other requests' "
                  "instances alone; a cancelled request without an instance is done. PARTIAL: the strict discipline also "
                  "demands no re-initialisation of an id, no exec of a superseded (same/overlapping) older command, single "
                  "finalization and nothing live at run end; these are checked by the strict Coq monitor on the real "
                  "engine's calls, not proved.")
    LEVEL_NOTE = ("Theorems are about coq/model/Eng.v. Tie: operation-by-operation correspondence with the real Engine incl. "
                  "uod.command_instances and every init/exec/finalize call of instrumented UOD commands (CmdB and CmdC "
                  "declared overlapping); the strict Coq monitor (mon11 true) runs on the real call stream and compares its "
                  "live set with uod.command_instances after every operation. User-issued UOD commands complete in their "
                  "first execution (button commands carry no arguments); long-running user-issued commands are outside "
                  "the validated domain. The /repo fix (a cancelled request that has not started an instance is done) is "
                  "mirrored in the model. No axioms.")
    TECHNIQUE = "Coq proof (life-cycle invariant preserved by every guarded primitive of the engine step, lifted to all executions) + operation-by-operation correspondence with the real Engine + strict Coq monitor on the real init/exec/finalize calls"
    RULE = ("UOD-heavy operation sequences of 8-45 operations: up to three method-issued UOD requests per tick over three "
            "commands (overlap groups drawn from {B,C}, {A,B}+{A,C}, {B,C}+{A,C}, {A,C}+{B,C}, {A,B,C}, {A,B}+{B,C}), durations 0-5, scripted failures, output writes; user-issued commands; Stop, "
            "Restart, Pause, Hold at any tick; write faults 2%, interpreter errors 2%; non-trivial = at least three "
            "instances initialised and a run end; distinct by canonical JSON")

    def gen_cases(self, rng, n, tier):
        return [gen_uod_case(rng) if rng.random() < 0.8 else gen_engine_case(rng, True) for _ in range(n)]

    def nontrivial(self, case, obs):
        evs = [e for v in obs["views"] for e in v["events"]]
        inits = [e for e in evs if e[0] == "init"]
        return len(inits) >= 3 and any(e[0] == "runstop" for e in evs)

    def kind(self, case, obs):
        evs = [e for v in obs["views"] for e in v["events"]]
        return f"inits={min(sum(1 for e in evs if e[0] == 'init'), 6)},stops={min(sum(1 for e in evs if e[0] == 'runstop'), 2)}"


PROP = C11()
