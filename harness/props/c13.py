from harness.props.c06 import EngineProp, gen_engine_case
from harness.props.c11 import gen_uod_case


def gen_fault_case(rng):
    """fault-heavy sequences: interpreter errors, failing UOD commands, hardware read/write errors, followed by Stop /
    Unpause / Restart by the user"""
    base = gen_engine_case(rng, faults=True, uods=True, setouts=rng.random() < 0.3, n_ops=rng.randint(2, 8))
    ops = base["ops"]
    for _ in range(rng.randint(4, 22)):
        r = rng.random()
        if r < 0.30:
            ops.append(["user", rng.choice(["Stop", "Unpause", "Stop", "Restart", "Start", "Pause", "Hold", "Unhold"])])
        else:
            reqs = []
            if rng.random() < 0.4:
                reqs.append(["uod", rng.randrange(3), [rng.randint(0, 4), rng.choice([None, 0, 1, 2]), None]])
            if rng.random() < 0.1:
                reqs.append([rng.choice(["Pause", "Hold", "Stop", "Restart"])])
            ops.append(["tick", 1, rng.random() >= 0.10, rng.random() >= 0.10, reqs, rng.random() < 0.12])
    for _ in range(5):
        ops.append(["tick", 1, True, True, [], False])
    return dict(cfg=base["cfg"], ops=ops)


class C13(EngineProp):
    ID = "C13"
    DESIGN_REF = "DESIGN.md §7 C13"
    FAULTS = True
    QUICK_N = 300
    THOROUGH_N = 15000
    LEVEL_TEXT = ("PARTIAL (engine-core part). Coq theorems about the engine-core model: set_error_state pauses the run with "
                  "Method Status Error and System State Paused; an interpreter error in a tick in which the interpreter runs "
                  "reaches set_error_state whatever else the tick does (proved through the primitive decomposition of the "
                  "tick and the fact that the event trace only grows in every execution); Stop is accepted in the error "
                  "state. The model's tick is a total function: that no exception escapes Engine.tick is checked on the real "
                  "engine (the driver records an escaping exception as an event the model never emits). NOT covered: the "
                  "property's quantifier over method texts (the interpreter is an input of this model) and the method-state "
                  "clause; a method-level crash found earlier by probing (Simulate: Process Time = abc makes "
                  "update_calculated_tags raise outside the try) is documented in DESIGN.md and lies outside this check.")
    LEVEL_NOTE = ("Theorems are about coq/model/Eng.v. Tie: operation-by-operation correspondence with the real Engine under "
                  "scripted interpreter exceptions, failing UOD commands and tracking errors (hardware callbacks work, as the property assumes; hardware errors are exercised by C07-C09/C11); "
                  "the Coq monitor (no escaped exception, error => paused + Method Status Error + System State Paused, "
                  "Stopped within 4 ticks of an accepted user Stop) runs on the real observations. No axioms.")
    TECHNIQUE = "Coq proof (error routing through the primitive decomposition of the tick; local theorems) + operation-by-operation correspondence with the real Engine under injected faults + Coq monitor on the real observations"
    RULE = ("fault-heavy operation sequences of 10-40 operations: interpreter exceptions (12% of ticks), "
            "UOD commands failing at iteration 0-2, user Stop/Unpause/Restart/Start/Pause/Hold "
            "between ticks, mixed with UOD-heavy and general sequences; non-trivial = at least one error state entered "
            "while a run is active and a later accepted Stop; distinct by canonical JSON")

    def gen_cases(self, rng, n, tier):
        out = []
        for _ in range(n):
            r = rng.random()
            c = gen_fault_case(rng) if r < 0.6 else gen_uod_case(rng) if r < 0.8 else gen_engine_case(rng, True)
            # the property assumes hardware callbacks that work: no hardware read / write errors in this stream
            c["ops"] = [[op[0], op[1], True, True, op[4], op[5]] if op[0] == "tick" else op for op in c["ops"]]
            out.append(c)
        return out

    def nontrivial(self, case, obs):
        err_at = [k for k, v in enumerate(obs["views"]) if v["flags"][0] and any(e[0] == "error" for e in v["events"])]
        if not err_at:
            return False
        return any(op[0] == "user" and op[1] == "Stop" and v["flags"][6]
                   for op, v in list(zip(case["ops"], obs["views"]))[err_at[0]:])

    def kind(self, case, obs):
        n = sum(1 for v in obs["views"] for e in v["events"] if e[0] == "error")
        return f"errors={min(n, 4)}"


PROP = C13()
