from harness.props.c06 import EngineProp, gen_engine_case
from harness.props.c11 import gen_uod_case


TEXT_POOL = ["Mark: A", "Mark: B", "Wait: 0.5 s", "Wait: 1 s", "CmdA: d=0", "CmdB: d=1", "CmdC: d=0 f=0", "Noop: 2", "Base: s", "Base: zz",
             "Increment run counter", "Notify: n", "Info: i", "Warning: w", "Pause: 1 s", "Hold: 1 s", "Pause: x", "Wait: abc", "Wait",
             "Frob: 1", "Foo bar", ": :", "Mark", "Speed: 5", "1.0 Mark: T", "abc Mark: U", "Simulate: X = 1", "Simulate: X = 0",
             "Simulate: TT = 2 degC", "Simulate: TT = 2 degF", "Simulate: TT = 2 L", "Simulate: Nope = 1", "Simulate: Process Time = abc",
             "Simulate: Run Time = 0 s", "Simulate: Process Time = 5", "Simulate: Block Time = 1 s", "Simulate off: X", "Simulate off: Nope",
             "Simulate: FT01 = 3 L/h", "Simulate: Run Counter = 2", "Simulate: Clock = 1", "Simulate: Mark = x", "Simulate: System State = Foo",
             "End block", "End blocks", "Call macro: M", "Batch: b", "", "# c", "Error: e", "Unpause", "Unhold"]
TEXT_FAIL = ["Frob: 1", "Foo bar", "Simulate: Nope = 1", "Simulate off: Nope", "Wait: abc", "Base: zz", "Call macro: Q", "Pause: x"]
TEXT_COND = ["X > 1", "X > 0", "TT > 5 degC", "TT > 5 L", "TT > 5", "Nope > 1", "Run Time > 1 s", "Run Time > 1 kg", "X > abc", "X >", "> 1",
             "Block Time > 0.5 s", "FT01 < 100 L/h", "FT01 < 100 mL/min", "Run Counter >= 0", "Mark = A", "System State = Running"]


def gen_text_case(rng):
    lines = []
    for _ in range(rng.randint(1, 7)):
        r = rng.random()
        if r < 0.62:
            lines.append(rng.choice(TEXT_POOL))
        elif r < 0.82:
            lines.append(f"{rng.choice(['Watch', 'Alarm'])}: {rng.choice(TEXT_COND)}")
            for _ in range(rng.randint(1, 2)):
                lines.append("    " + rng.choice(TEXT_POOL))
        elif r < 0.88:
            lines.append(f"Block: B{len(lines)}")
            for _ in range(rng.randint(1, 3)):
                lines.append("    " + rng.choice(TEXT_POOL + ["End block"]))
        elif r < 0.93:
            # directed: a scope whose condition holds at once and whose LAST body line fails in the interpreter (an Alarm
            # re-arms -- resets its body -- in the very tick that line fails)
            lines.append(f"{rng.choice(['Alarm', 'Alarm', 'Watch'])}: {rng.choice(['X > 0', 'Run Counter >= 0', 'Run Time >= 0 s'])}")
            for _ in range(rng.randint(0, 2)):
                lines.append("    " + rng.choice(["Mark: A", "Mark: B", "Noop: 2", "Info: i"]))
            lines.append("    " + rng.choice(TEXT_FAIL))
        else:
            lines.append("Macro: M")
            lines.append("    " + rng.choice(TEXT_POOL))
            lines.append("Call macro: M")
    n = rng.randint(8, 30)
    inject = {}
    if rng.random() < 0.4:
        inject[str(rng.randrange(1, n))] = [rng.choice(TEXT_POOL) for _ in range(rng.randint(1, 2))]
    return dict(kind="text", lines=lines, ticks=n, stop_at=(rng.randrange(2, n) if rng.random() < 0.6 else None), inject=inject)


def run_text_case(case):
    import logging
    logging.disable(logging.CRITICAL)
    from harness.engine_env import Env
    env = Env("\n".join(case["lines"]) + "\n")
    e = env.engine
    out = []
    try:
        env.start()
        injected_failed = False
        for k in range(case["ticks"]):
            if case["stop_at"] is not None and k == case["stop_at"]:
                try:
                    env.user("Stop")
                except Exception:
                    pass
            snippet = case["inject"].get(str(k))
            if snippet:
                try:
                    e.inject_code("\n".join(snippet) + "\n")
                    injected_failed = True     # a failure may now come from code that is not a method line
                except Exception:
                    injected_failed = True     # inject_code reports a parse error by raising (and the error state)
            raised = False
            try:
                env.tick()
            except Exception as ex:
                raised = repr(ex)[:160]
            st = e.method_manager.get_method_state()
            out.append(dict(raised=raised, error=bool(e.has_error_state()), paused=bool(e._runstate_paused),
                            status=str(e.tags["Method Status"].get_value()).lower().endswith("error"),
                            failed=bool(st.failed_line_ids) or injected_failed,
                            stopped=str(e.tags["System State"].get_value()) == "Stopped"))
    finally:
        env.close()
    return dict(kind="text", ticks=out)


def gen_fault_case(rng):
    """fault-heavy sequences: interpreter errors, failing UOD commands, hardware read/write errors, followed by Stop /
    Unpause / Restart by the user"""
    base = gen_engine_case(rng, faults=True, uods=True, setouts=rng.random() < 0.3, n_ops=rng.randint(2, 8))
    ops = base["ops"]
    for _ in range(rng.randint(4, 22)):
        r = rng.random()
        if r < 0.30:
            ops.append(["user", rng.choice(["Stop", "Unpause", "Stop", "Restart", "Start", "Pause", "Hold", "Unhold"])])
        else:
            reqs = []
            if rng.random() < 0.4:
                reqs.append(["uod", rng.randrange(3), [rng.randint(0, 4), rng.choice([None, 0, 1, 2]), None]])
            if rng.random() < 0.1:
                reqs.append([rng.choice(["Pause", "Hold", "Stop", "Restart"])])
            ops.append(["tick", 1, rng.random() >= 0.10, rng.random() >= 0.10, reqs, rng.random() < 0.12])
    for _ in range(5):
        ops.append(["tick", 1, True, True, [], False])
    return dict(cfg=base["cfg"], ops=ops)


class C13(EngineProp):
    ID = "C13"
    DESIGN_REF = "DESIGN.md §7 C13"
    FAULTS = True
    QUICK_N = 300
    THOROUGH_N = 15000
    LEVEL_TEXT = ("PARTIAL (engine-core part). Coq theorems about the engine-core model: set_error_state pauses the run with "
                  "Method Status Error and System State Paused; an interpreter error in a tick in which the interpreter runs "
                  "reaches set_error_state whatever else the tick does (proved through the primitive decomposition of the "
                  "tick and the fact that the event trace only grows in every execution); Stop is accepted in the error "
                  "state. The model's tick is a total function: that no exception escapes Engine.tick is checked on the real "
                  "engine (the driver records an escaping exception as an event the model never emits). The "
                  "property's quantifier over method TEXTS is covered by a second stream without a predictive model: generated "
                  "texts (valid, malformed, unknown names, bad units and arguments, Simulate on every kind of tag, macros, "
                  "blocks, injected snippets) run on the real engine and the Coq monitor checks every tick: no exception "
                  "escapes, an error state means paused with Method Status Error and a failed line, Stop is honoured within 4 "
                  "ticks. It found two genuine defects, both repaired.")
    LEVEL_NOTE = ("Theorems are about coq/model/Eng.v. Tie: operation-by-operation correspondence with the real Engine under "
                  "scripted interpreter exceptions, failing UOD commands and tracking errors (hardware callbacks work, as the property assumes; hardware errors are exercised by C07-C09/C11); "
                  "the Coq monitor (no escaped exception, error => paused + Method Status Error + System State Paused, "
                  "Stopped within 4 ticks of an accepted user Stop) runs on the real observations. No axioms.")
    TECHNIQUE = "Coq proof (error routing through the primitive decomposition of the tick; local theorems) + operation-by-operation correspondence with the real Engine under injected faults + method texts and injected snippets run on the real Engine + Coq monitor on the real observations"
    RULE = ("65% engine-core cases: fault-heavy operation sequences of 10-40 operations: interpreter exceptions (12% of ticks), "
            "UOD commands failing at iteration 0-2, user Stop/Unpause/Restart/Start/Pause/Hold "
            "between ticks, mixed with UOD-heavy and general sequences; non-trivial = at least one error state entered "
            "while a run is active and a later accepted Stop; 35% method texts: 1-7 items from a pool of 52 lines (valid "
            "instructions, bad arguments and units, unknown names, malformed lines, Simulate on UOD, calculated and system tags, "
            "End block(s), macro calls) incl. Watch / Alarm over 17 conditions, blocks and a macro, 8-30 ticks, in 40% a random "
            "injected snippet, in 60% a user Stop at a random tick; non-trivial = the engine entered the error state; distinct by "
            "canonical JSON")

    def run_impl(self, case):
        if case.get("kind") == "text":
            import json as _json
            o = run_text_case(case)
            self._obs[_json.dumps(case, sort_keys=True)] = o
            return o
        return super().run_impl(case)

    def case_to_coq(self, case):
        if case.get("kind") == "text":
            sa = "None" if case["stop_at"] is None else f"(Some {case['stop_at']}%nat)"
            texts = [ln.strip().lstrip("0123456789. ") for ln in case["lines"]] + [ln.strip() for sn in case["inject"].values() for ln in sn]
            resumes = any(t.startswith("Unpause") or (t.startswith("Pause:") and t[6:].strip()) for t in texts)
            return "(IText {| tc_stop_at := %s; tc_resumes := %s |})" % (sa, "true" if resumes else "false")
        return "(IEng " + super().case_to_coq(case) + ")"

    def obs_to_coq(self, obs):
        if obs.get("kind") == "text":
            from harness.common import b, lst
            return "(OText %s)" % lst(["{| tt_raised := %s; tt_error := %s; tt_paused := %s; tt_status_error := %s; tt_failed := %s; tt_stopped := %s |}"
                                       % (b(bool(t["raised"])), b(t["error"]), b(t["paused"]), b(t["status"]), b(t["failed"]), b(t["stopped"]))
                                       for t in obs["ticks"]])
        return "(OEng " + super().obs_to_coq(obs) + ")"

    def size(self, case):
        return len(case["lines"]) + case["ticks"] if case.get("kind") == "text" else super().size(case)

    def gen_cases(self, rng, n, tier):
        out = []
        for _ in range(n):
            if rng.random() < 0.35:
                out.append(gen_text_case(rng))
                continue
            r = rng.random()
            c = gen_fault_case(rng) if r < 0.6 else gen_uod_case(rng) if r < 0.8 else gen_engine_case(rng, True)
            # the property assumes hardware callbacks that work: no hardware read / write errors in this stream
            c["ops"] = [[op[0], op[1], True, True, op[4], op[5]] if op[0] == "tick" else op for op in c["ops"]]
            out.append(c)
        return out

    def nontrivial(self, case, obs):
        if case.get("kind") == "text":
            return any(t["error"] for t in obs["ticks"])
        err_at = [k for k, v in enumerate(obs["views"]) if v["flags"][0] and any(e[0] == "error" for e in v["events"])]
        if not err_at:
            return False
        return any(op[0] == "user" and op[1] == "Stop" and v["flags"][6]
                   for op, v in list(zip(case["ops"], obs["views"]))[err_at[0]:])

    def kind(self, case, obs):
        if case.get("kind") == "text":
            return "text,error=%d,raised=%d" % (int(any(t["error"] for t in obs["ticks"])), int(any(t["raised"] for t in obs["ticks"])))
        n = sum(1 for v in obs["views"] for e in v["events"] if e[0] == "error")
        return f"errors={min(n, 4)}"


PROP = C13()
