"""C20: every generated line is analysed with the definitions the engine publishes and then run on that engine; the Coq model
predicts from the analyzers' facts whether the run can fail on names / arguments / units."""
import json
import logging

from harness.common import Prop
from harness.props import c19 as C19

_AI = [None]


def make_uod():
    from openpectus.engine.hardware import RegisterDirection
    from openpectus.lang.exec.uod import UodBuilder
    from openpectus.lang.exec.tags import Tag
    from openpectus.lang.exec.tags_impl import ReadingTag
    from openpectus.lang.exec.regex import RegexNumber, RegexText, RegexCategorical
    from harness.engine_env import RecHW

    def done(cmd, **kw):
        cmd.set_complete()
    b = (UodBuilder().with_instrument("C20Uod").with_author("v", "v@example.invalid").with_filename(__file__)
         .with_hardware(RecHW()).with_location("loc")
         .with_hardware_register("FT01", RegisterDirection.Read)
         .with_tag(ReadingTag("FT01", "L/h"))
         .with_tag(Tag("X", value=0.0, unit=None))
         .with_tag(Tag("TT", value=20.0, unit="degC"))
         .with_tag(Tag("PCT", value=5.0, unit="%"))
         .with_tag(Tag("VOLP", value=5.0, unit="vol%"))
         .with_tag(Tag("Len", value=1.0, unit="cm"))
         .with_command_regex_arguments("Speed", RegexNumber(units=["%"]), done)
         .with_command_regex_arguments("Count", RegexNumber(units=None, int_only=True, non_negative=True), done)
         .with_command_regex_arguments("Flow", RegexNumber(units=["L/h", "L/min"]), done)
         .with_command_regex_arguments("Valve", RegexCategorical(exclusive_options=["Open", "Closed"]), done)
         .with_command_regex_arguments("Note", RegexText(allow_empty=False), done)
         .with_command("Plain", done))
    uod = b.build()
    uod.hwl.connect()
    return uod


def analysis_input():
    """AnalysisInput built, as the language server does, from the definitions the engine publishes"""
    if _AI[0] is None:
        from harness.engine_env import Env
        from openpectus.lsp.lsp_analysis import build_commands, build_tags, AnalysisInput
        env = Env("", uod=make_uod())
        d = env.builder.create_uod_info().uod_definition
        _AI[0] = AnalysisInput(build_commands(d), build_tags(d), "e")
        env.close()
    return _AI[0]


TAGS = [("X", None), ("TT", "degC"), ("FT01", "L/h"), ("PCT", "%"), ("VOLP", "vol%"), ("Len", "cm"), ("Run Time", "s"), ("Run Counter", None)]
UNITS = ["degC", "K", "degF", "L/h", "L/min", "%", "vol%", "wt%", "mol%", "cm", "m", "s", "min", "h", "ms", "kg", "xyz"]
CMDS = {"Speed": ["5 %", "5", "5.5 %", "abc", "", "-3 %"], "Count": ["3", "-1", "2.5", "", "3 s"], "Flow": ["2 L/h", "2 L/min", "2 L", "2"],
        "Valve": ["Open", "Closed", "Ajar", "", "Open+Closed"], "Note": ["hello", ""], "Plain": ["", "x"],
        "Wait": ["1 s", "0.5 s", "abc", "", "1", "1 L", "0.02 min", "0.001 h", "500 ms", "2 ms"],
        "Pause": ["", "1 s", "x", "1 L", "0.01 min", "500 ms"], "Hold": ["", "1 s", "zz", "0.01 min", "500 ms"],
        "Base": ["s", "min", "zz", ""], "Info": ["i", ""], "Notify": ["n"], "Increment run counter": ["", "x"], "Mark": ["m", ""],
        "Frob": ["1", ""], "Speeed": ["5 %"], "Vlave": ["Open"]}


def gen_case(rng):
    r = rng.random()
    if r < 0.45:
        name, tunit = rng.choice(TAGS) if rng.random() < 0.85 else (rng.choice(["Nope", "TTT", "Xy", "Lenn"]), None)
        op = rng.choice([">", "<", "=", ">=", "<=", "!="]) if rng.random() < 0.93 else ""
        val = rng.choice(["2", "2.5", "0", "100"]) if rng.random() < 0.93 else ""
        u = rng.random()
        unit = (tunit or "") if u < 0.5 else ("" if u < 0.65 else rng.choice(UNITS))
        if val == "":
            unit = ""          # a lone unit would be read as a (non-numeric) value: another failure cause, outside this property
        cond = f"{name} {op} {val} {unit}".strip()
        if rng.random() < 0.7:
            return dict(lines=[f"{rng.choice(['Watch', 'Alarm'])}: {cond}", "    Mark: a", "Mark: z"])
        if name in ("Run Time", "Run Counter"):
            # simulating a calculated system tag stores the text value and the next tick's tag upkeep raises (a defect with
            # another cause than names / arguments / units; recorded in DESIGN.md, outside this property)
            name, tunit = "TT", "degC"
        if rng.random() < 0.8:
            return dict(lines=[f"Simulate: {name} = {val} {unit}".strip(), "Mark: z"])
        return dict(lines=[f"Simulate off: {name}", "Mark: z"])
    cname = rng.choice(list(CMDS))
    arg = rng.choice(CMDS[cname])
    return dict(lines=[f"{cname}: {arg}" if arg else cname, "Mark: z"])


class Doc:
    def __init__(self, text):
        self.source = text
        self.version = 1
        self.uri = "file:///m.pcode"


def observe(case):
    logging.disable(logging.CRITICAL)
    from harness.engine_env import Env
    from openpectus.lsp.lsp_analysis import analyze
    ai = analysis_input()
    text = "\n".join(case["lines"])
    result = analyze(ai, Doc(text))
    node = next(C19.all_nodes(result.program))
    facts, ids = C19.node_facts(node, ai.tags, ai.commands)
    if facts is None:
        return dict(skip=True)
    mine = [it for it in result.items if it.node is node and it.id in ids]
    diag = C19.item_diag(mine[0], node) if mine else "DNone"
    # run the line on the engine whose definitions were analysed
    env = Env(text, uod=make_uod())
    e = env.engine
    env.start()
    failed = None
    for _ in range(14):
        try:
            env.tick()
        except Exception as ex:
            failed = "tick raised: " + repr(ex)[:160]
            break
        if e.has_error_state():
            failed = repr(e._last_error)[:200]
            break
    env.close()
    return dict(facts=facts, diag=diag, failed=failed is not None, error=failed)


class C20(Prop):
    ID = "C20"
    DESIGN_REF = "DESIGN.md §7 C20"
    COQ_IMPORTS = "From OP Require Import model.C19."
    SHARD = 300
    QUICK_N = 400
    THOROUGH_N = 6000
    LEVEL_TEXT = ("PARTIAL. Coq theorem about the analyzers' decision logic (model/C19.v): for EVERY combination of the facts "
                  "tested on a Watch / Alarm condition, a Simulate / Simulate off line or a command line, a line the analyzer "
                  "accepts has what the engine needs at run time -- the name resolves, the command accepts its argument, the "
                  "condition is complete and its unit fits the tag's. That those facts, computed from the definitions the "
                  "engine PUBLISHES, mean the same at run time is observed, not proved: every generated line is analysed "
                  "with the published definitions and then run on that engine.")
    LEVEL_NOTE = ("Theorems are about coq/model/C20.v over model/C19.v. Tie: a UOD with unit-carrying tags and number / "
                  "categorical / text regex commands is built; the AnalysisInput is produced exactly as the language server "
                  "does (EngineMessageBuilder.create_uod_info().uod_definition -> build_commands / build_tags); the line is "
                  "analysed by lsp_analysis.analyze, its facts are computed from the real node and collections, and the same "
                  "text is started on a real Engine with that UOD and ticked 14 times. Correspondence: the diagnostic equals "
                  "the model's, and for accepted lines the run does not end in an error state (the model's prediction). The "
                  "Coq monitor states the property on the observation alone. Not covered: multi-line interactions, macros, "
                  "non-numeric condition values, failures with other causes.")
    TECHNIQUE = "Coq proof (exhaustive case analysis: an accepted line has every fact the engine needs) + correspondence of analysis (engine-published definitions) and execution on a real Engine + Coq monitor"
    RULE = ("one line of interest per case, followed by a Mark: 45% conditions / Simulate / Simulate off over 8 engine tags (5 "
            "with units; 15% undefined names) with operator (7% missing), numeric value (7% missing), the tag's unit 50%, none "
            "15%, one of 14 units otherwise; 55% commands: 6 UOD commands (number with units, integer, categorical, text, "
            "default parser) and 8 system commands with 2-6 valid and invalid arguments each, 3 undefined names; non-trivial = "
            "the line is accepted; distinct by canonical JSON")

    def __init__(self):
        self._obs = {}

    def gen_cases(self, rng, n, tier):
        return [gen_case(rng) for _ in range(n)]

    def run_impl(self, case):
        o = observe(case)
        self._obs[json.dumps(case, sort_keys=True)] = o
        return o

    def case_to_coq(self, case):
        o = self._obs.get(json.dumps(case, sort_keys=True)) or self.run_impl(case)
        if o.get("skip"):
            return "(LSimOff {| o_blank := true; o_lookup := %s |})" % C19.lk(C19.NOLK)
        return "(" + C19.PROP.case_to_coq_rows([dict(facts=o["facts"])])[0] + ")"

    def obs_to_coq(self, obs):
        from harness.common import b
        if obs.get("skip"):
            return "(DMissingTag, false)"
        return f"({obs['diag']}, {b(obs['failed'])})"

    def nontrivial(self, case, obs):
        return not obs.get("skip") and obs["diag"] == "DNone"

    def kind(self, case, obs):
        if obs.get("skip"):
            return "skip"
        return f"{obs['facts']['kind']},{obs['diag']},failed={int(obs['failed'])}"

    def size(self, case):
        return 1


PROP = C20()
