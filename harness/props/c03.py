import json

from harness.common import b, z
from harness.interp_common import InterpProp, gen_interp_case

_RUN = [None]


def clock_run():
    """one real interpreter (with the engine's real tag collection) for all clock cases"""
    if _RUN[0] is None:
        from harness import interp_driver as ID
        _RUN[0] = ID.Run(["1.0 Mark: A", "Mark: B"])
    return _RUN[0]


def gen_clock(rng):
    base = rng.choice(["s", "s", "min", "h"])
    f = {"s": 1, "min": 60, "h": 3600}[base]
    thr = rng.choice([0, 1, 5, 10, 15, 20, 25, 100]) if rng.random() < 0.8 else rng.randint(0, 300)
    edge = 10 * thr * f
    def near():
        r = rng.random()
        if r < 0.5:
            return max(0, edge + rng.choice([-100, -10, -1, 0, 0, 1, 10, 100]))
        return rng.randint(0, max(1, 2 * edge + 50))
    return dict(kind="clock", completed=rng.random() < 0.1, has_thr=rng.random() < 0.9, forced=rng.random() < 0.1,
                in_interrupt=rng.random() < 0.5, block=rng.choice(["none", "empty", "name", "name"]), base=base, thr=thr,
                scope=near(), blocktime=near())


def run_clock(case):
    from openpectus.lang.exec.pinterpreter import PInterpreter
    r = clock_run()
    interp, e = r.interp, r.env.engine
    node = r.table[1][0]
    node.completed = case["completed"]
    node._forced = case["forced"]
    node.threshold = case["thr"] / 10 if case["has_thr"] else None
    e.tags["Base"].set_value(case["base"], 0)
    e.tags["Block"].set_value({"none": None, "empty": "", "name": "B1"}[case["block"]], 0)
    # Scope Time / Block Time compute their value from the timer of the innermost scope / block
    st, bt = e.tags["Scope Time"], e.tags["Block Time"]
    st._stack, st._timers = ["n"], {"n": case["scope"] / 100}
    item = type(bt).StackItem("B1")
    item.value = case["blocktime"] / 100
    bt._stack = [item]
    interp._in_interrupt = case["in_interrupt"]
    try:
        return dict(kind="clock", awaiting=bool(PInterpreter._is_awaiting_threshold(interp, node)))
    except Exception as ex:
        return dict(kind="clock", raised=repr(ex)[:200])
    finally:
        interp._in_interrupt = False


class C03(InterpProp):
    ID = "C03"
    DESIGN_REF = "DESIGN.md §7 C03"
    QUICK_N = 300
    THOROUGH_N = 12000
    LEVEL_TEXT = 'PARTIAL. Coq theorem about the interpreter model: in EVERY tick, from any state and with any environment, a line outside Alarm and Macro bodies whose threshold is still awaited in that tick is not started by that tick (unless completed or forced): only the threshold loop of visit starts a line. The oracle (still awaited) is tied to the code by a second theorem and stream: _is_awaiting_threshold holds an uncompleted, unforced thresholded line back EXACTLY while the clock of its scope (Block Time when the Block tag names a block, Scope Time otherwise; base units s / min / h) is below the threshold, for main flow and interrupt handlers alike; volume / CV base units are not covered. Promptness and the Wait clause are decided by the Coq monitor on the real interpreter with exact tick times.'
    LEVEL_NOTE = "Theorems are about coq/model/Interp.v (with macros; injection, cancel / force and live edits are the subject of C14, C12 and C01). Tie: as for C05 -- tick-by-tick correspondence of the model with the real PInterpreter under scripted environments on every node's state fields, the interrupt map, the Block tag, scheduled commands and errors; the property's Coq monitor runs on the real observations. Clock stream: the real PInterpreter._is_awaiting_threshold is called on a real interpreter whose real tag objects (Base, Block, the timers of Scope Time and Block Time) are set to generated values around the threshold, with the node flags and _in_interrupt varied, and compared with the model's decision. No axioms."
    TECHNIQUE = 'Coq proof (per-node update relation closed under every frame transition of the interpreter model, lifted to ticks and runs) + function-level correspondence of the threshold decision with the real _is_awaiting_threshold + tick-by-tick correspondence with the real PInterpreter + Coq monitor on the real node states'
    RULE = '60% interpreter runs: methods and environments as for C05 (15% of the lines carry a threshold released at a random tick; waits of 0-2 s with tick increments 0.5-1 s); non-trivial = at least 10 ticks and three completed lines; 40% clock cases: base unit s / min / h, thresholds 0-30 base units, both clocks at the threshold, 0.01-1 s around it or anywhere up to twice the threshold, Block tag None / empty / a name, completed / forced / no-threshold 10% each, in-interrupt 50%; non-trivial = a thresholded uncompleted unforced line'

    def gen_cases(self, rng, n, tier):
        return [gen_clock(rng) if rng.random() < 0.4 else gen_interp_case(rng) for _ in range(n)]

    def run_impl(self, case):
        if case.get("kind") == "clock":
            return run_clock(case)
        return super().run_impl(case)

    def case_to_coq(self, case):
        if case.get("kind") == "clock":
            return ("(IClock {| k_completed := %s; k_has_thr := %s; k_forced := %s; k_in_interrupt := %s; k_block := %s; k_base := %s; "
                    "k_thr := %s; k_scope_time := %s; k_block_time := %s |})"
                    % (b(case["completed"]), b(case["has_thr"]), b(case["forced"]), b(case["in_interrupt"]),
                       {"none": "TNone", "empty": "TEmpty", "name": "TName"}[case["block"]],
                       {"s": "Us", "min": "Umin", "h": "Uh"}[case["base"]], z(case["thr"]), z(case["scope"]), z(case["blocktime"])))
        return "(IRun " + super().case_to_coq(case) + ")"

    def obs_to_coq(self, obs):
        if obs.get("kind") == "clock":
            return "OClockRaised" if "raised" in obs else f"(OClock {b(obs['awaiting'])})"
        return "(ORun " + super().obs_to_coq(obs) + ")"

    def size(self, case):
        return 1 if case.get("kind") == "clock" else super().size(case)

    def nontrivial(self, case, obs):
        if obs.get("kind") == "clock":
            return case["has_thr"] and not case["completed"] and not case["forced"]
        return len(obs["views"]) >= 10 and sum(1 for n in obs["views"][-1]["nodes"] if n[1]) >= 3

    def kind(self, case, obs):
        if obs.get("kind") == "clock":
            return "clock,block=%s,base=%s,awaiting=%s" % (case["block"], case["base"], obs.get("awaiting", "raised"))
        return "raised=%d,ints=%d" % (int(any(v["raised"] for v in obs["views"])), min(2, max(len(v["interrupts"]) for v in obs["views"])))


PROP = C03()
