from harness.interp_common import InterpProp


class C02(InterpProp):
    ID = "C02"
    DESIGN_REF = "DESIGN.md §7 C02"
    QUICK_N = 300
    THOROUGH_N = 12000
    LEVEL_TEXT = 'PARTIAL. Coq theorem about the interpreter model (coq/model/Interp.v, see C05): in EVERY run, outside Alarm and Macro bodies an instruction that has started stays started and one that has completed stays completed -- it starts at most once (a per-node relation closed under every elementary update of every frame transition, lifted tick by tick); and in EVERY state of EVERY run a started line outside Alarm and Macro bodies lies in a scope (parent line) that has started (a rely / guarantee invariant over every frame of every generator stack -- main flow, interrupt map and the copy of it that a tick takes: proofs/Interp_stack.v). The sibling-order clauses (a line starts only after the line before it has been passed) are decided by the Coq monitor on the real interpreter.'
    LEVEL_NOTE = "Theorems are about coq/model/Interp.v (with macros; injection, cancel / force and live edits are the subject of C14, C12 and C01). Tie: as for C05 -- tick-by-tick correspondence of the model with the real PInterpreter under scripted environments on every node's state fields, the interrupt map, the Block tag, scheduled commands and errors; the property's Coq monitor runs on the real observations and evaluates the theorems' hypothesis wf_b (well-formed method tree) on every generated method. No axioms."
    TECHNIQUE = 'Coq proof (per-node update relation closed under every frame transition of the interpreter model, lifted to ticks and runs; rely / guarantee stack invariant over every frame of every generator) + tick-by-tick correspondence with the real PInterpreter + Coq monitor on the real node states'
    RULE = 'methods and environments as for C05; non-trivial = at least 10 ticks and three completed lines'

    def nontrivial(self, case, obs):
        return len(obs["views"]) >= 10 and sum(1 for n in obs["views"][-1]["nodes"] if n[1]) >= 3

    def kind(self, case, obs):
        return "raised=%d,ints=%d" % (int(any(v["raised"] for v in obs["views"])), min(2, max(len(v["interrupts"]) for v in obs["views"])))


PROP = C02()
