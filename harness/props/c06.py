import json

from harness.common import Prop
from harness import eng_driver as D

CONTROL = ["Start", "Stop", "Pause", "Unpause", "Hold", "Unhold", "Restart"]


def gen_engine_case(rng, faults=False, uods=True, setouts=True, n_ops=None):
    """operation sequence over the engine core: user control commands, method-issued commands (with and without
    durations), UOD commands, output changes, ticks with varying increments"""
    nout = rng.randint(1, 3)
    safe = [rng.choice([0, 5, None]) for _ in range(nout)]
    if all(s is None for s in safe):
        safe[0] = 0
    outs0 = [rng.randint(1, 4) for _ in range(nout)]
    ops = [["user", "Start"], ["tick", 1, True, True, [], False]] if rng.random() < 0.8 else []
    n = n_ops or rng.randint(3, 30)
    for _ in range(n):
        r = rng.random()
        if r < 0.45:
            reqs = []
            x = rng.random()
            if x < 0.25:
                reqs.append([rng.choice(["Pause", "Hold"]), rng.choice([None, None, 1, 2, 3, 4])])
            elif x < 0.33:
                reqs.append([rng.choice(["Stop", "Restart"])])
            elif x < 0.6 and uods:
                out = [rng.randrange(nout), rng.randint(6, 9)] if rng.random() < 0.6 else None
                reqs.append(["uod", rng.randrange(3), [rng.randint(0, 4), rng.choice([None, None, None, 0, 1, 2]) if faults else None, out]])
                if rng.random() < 0.3:
                    reqs.append(["uod", rng.randrange(3), [rng.randint(0, 3), None, None]])
            rok = not (faults and rng.random() < 0.06)
            wok = not (faults and rng.random() < 0.06)
            raises = faults and rng.random() < 0.05
            ops.append(["tick", rng.choice([1, 1, 1, 2, 3]), rok, wok, reqs, raises])
        elif r < 0.85:
            ops.append(["user", rng.choice(CONTROL)])
            if rng.random() < 0.2:
                ops.append(["user", ops[-1][1]])        # the same command twice before the next tick
        elif r < 0.92 and uods:
            ops.append(["useruod", rng.randrange(3)])
        elif setouts:
            ops.append(["setout", rng.randrange(nout), rng.randint(10, 14)])
        else:
            ops.append(["tick", 1, True, True, [], False])
    ops.append(["tick", 1, True, True, [], False])
    return dict(cfg=dict(safe=safe, outs0=outs0), ops=ops)


class EngineProp(Prop):
    """shared plumbing of the engine-core properties"""
    COQ_IMPORTS = "From OP Require Import model.Eng model.EngRun."
    SHARD = 40
    FAULTS = False
    UODS = True
    SETOUTS = True

    def __init__(self):
        self._obs = {}

    def gen_cases(self, rng, n, tier):
        return [gen_engine_case(rng, self.FAULTS, self.UODS, self.SETOUTS) for _ in range(n)]

    def run_impl(self, case):
        obs = D.run_case(case)
        self._obs[json.dumps(case, sort_keys=True)] = obs
        return obs

    def case_to_coq(self, case):
        return D.input_to_coq(case, self._obs[json.dumps(case, sort_keys=True)])

    def obs_to_coq(self, obs):
        return D.output_to_coq(obs)

    def size(self, case):
        return len(case["ops"])


class C06(EngineProp):
    ID = "C06"
    DESIGN_REF = "DESIGN.md §7 C06"
    LEVEL_TEXT = ("Coq theorem about an executable model of the engine core (Engine.tick, the seven control commands with their "
                  "generator steps, the command manager's execute loop with its cancel/finalize paths and the manager "
                  "replacement at Stop/Restart, UOD command life cycle): in EVERY state reachable by ANY fault-free operation "
                  "sequence the System State is the stated function of the run-state flags, Restarting only while a Restart "
                  "executes, a run id exactly while a run is active and always a fresh one (inductive invariant over "
                  "operations, ~900 lines of Coq); gating is the model's step by definition. Partial: the theorem covers "
                  "Pause/Hold without duration; timed ones are covered by correspondence + monitor only.")
    LEVEL_NOTE = ("Theorems are about coq/model/Eng.v (the interpreter is an input: per tick the requests it schedules). Tie: the "
                  "real Engine (empty method, virtual clock, recording hardware, scripted UOD commands) is driven through "
                  "generated operation sequences and compared with the model after EVERY operation on 12 observables "
                  "(flags, System State, run id, captured pre-pause state, output tags, hardware memory, four clocks, "
                  "command registry, UOD instances, executing list, queue, UOD/hardware event trace); the Coq monitor "
                  "(state function, gating, fresh run ids) is evaluated on the real observations. No axioms.")
    TECHNIQUE = "Coq proof (inductive invariant over engine operations) + operation-by-operation correspondence with the real Engine"
    RULE = ("operation sequences of 3-40 user control commands (incl. the same command several times between two ticks), "
            "method-issued Pause/Hold (with and without duration)/Stop/Restart and UOD commands (0-4 ticks, writing "
            "outputs), user UOD commands, output changes, ticks with increments 1-3; no hardware or interpreter faults "
            "(outside C06's quantifier); non-trivial = at least three different System States seen; distinct by canonical JSON")
    QUICK_N = 400
    THOROUGH_N = 20000

    def classify(self, case, obs):
        """known: a timed Hold / Pause that survives Stop's cancel pass (its second cancellation raises in tracking and the
        clean-up is skipped) runs once more after Stop has finished and sets System State back from Stopped. Every failing
        clause must lie in such a window: it opens at the view of a run stop whose previous view had Stop or Restart registered
        together with a Hold or Pause, shows a System State other than Stopped while no run is started, and lasts until a run starts"""
        views, ops = obs["views"], case["ops"]

        def state_ok(v):
            st, pa, ho = v["flags"][0], v["flags"][1], v["flags"][2]
            return {"Stopped": not st, "Restarting": st and "Restart" in v["reg"], "Paused": st and pa,
                    "Holding": st and not pa and ho, "Running": st and not pa and not ho}.get(v["sys"], False)

        def valid_in(v, n):
            idle = v["sys"] in ("Stopped", "Restarting")
            return {"Start": v["sys"] == "Stopped", "Stop": not idle, "Restart": not idle, "Pause": not idle and not v["flags"][1],
                    "Unpause": not idle and v["flags"][1], "Hold": not idle and not v["flags"][2],
                    "Unhold": not idle and v["flags"][2]}.get(n, True)
        window = [False] * len(views)
        inside = False
        for k, v in enumerate(views):
            if inside and v["flags"][0]:
                inside = False
            if not inside and k > 0 and any(e[0] == "runstop" for e in v["events"]) and not v["flags"][0] and v["sys"] != "Stopped":
                reg = views[k - 1]["reg"]
                if ("Stop" in reg or "Restart" in reg) and ("Hold" in reg or "Pause" in reg):
                    inside = True
            window[k] = inside
        seen = False
        ids_seen, prev_run = 0, None
        for k, v in enumerate(views):      # fresh run ids: not part of this finding
            if v["run"] is not None and v["run"] != prev_run:
                if v["run"] != ids_seen:
                    return None
                ids_seen += 1
            prev_run = v["run"]
        for k, v in enumerate(views):
            bad = not state_ok(v) or ((v["run"] is not None) != bool(v["flags"][0]))
            if ops[k][0] == "user" and k > 0 and bool(v["flags"][6]) != bool(valid_in(views[k - 1], ops[k][1])):
                bad = bad or True
                if not (window[k] or window[k - 1]):
                    return None
            if bad:
                if not (window[k] or (k > 0 and window[k - 1])):
                    return None
                seen = True
        return "C06-hold-surviving-stop-resets-system-state" if seen else None

    def nontrivial(self, case, obs):
        return len({v["sys"] for v in obs["views"]}) >= 3

    def kind(self, case, obs):
        return "states=" + "".join(sorted({v["sys"][0] for v in obs["views"]}))


PROP = C06()
