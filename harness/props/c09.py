from harness.props.c06 import EngineProp, gen_engine_case, CONTROL


def gen_pause_case(rng):
    """pause-heavy sequences: Pause/Unpause by the user and by the method (also twice in one tick, also timed), output
    changes before / during a pause, Stop / Restart / Start around pauses, hardware and interpreter faults (an error
    pauses the engine without capturing), runs following each other"""
    base = gen_engine_case(rng, faults=True, uods=rng.random() < 0.5, setouts=True, n_ops=rng.randint(2, 8))
    nout = len(base["cfg"]["outs0"])
    ops = base["ops"]
    for _ in range(rng.randint(3, 25)):
        r = rng.random()
        if r < 0.30:
            ops.append(["user", rng.choice(["Pause", "Unpause", "Pause", "Unpause", "Stop", "Start", "Restart", "Hold", "Unhold"])])
        elif r < 0.45:
            ops.append(["setout", rng.randrange(nout), rng.randint(10, 14)])
        else:
            reqs = []
            x = rng.random()
            if x < 0.25:
                reqs.append(["Pause", rng.choice([None, None, 1, 2, 3])])
                if rng.random() < 0.4:
                    reqs.append(["Pause", rng.choice([None, 1, 2])])
            elif x < 0.32:
                reqs.append([rng.choice(["Stop", "Restart"])])
            elif x < 0.40:
                reqs.append(["uod", rng.randrange(3), [rng.randint(0, 3), rng.choice([None, None, 0, 1]), [rng.randrange(nout), rng.randint(6, 9)]]])
            rok = rng.random() >= 0.05
            wok = rng.random() >= 0.05
            ops.append(["tick", rng.choice([1, 1, 2]), rok, wok, reqs, rng.random() < 0.04])
    ops.append(["tick", 1, True, True, [], False])
    return dict(cfg=base["cfg"], ops=ops)


class C09(EngineProp):
    ID = "C09"
    DESIGN_REF = "DESIGN.md §7 C09"
    FAULTS = True
    LEVEL_TEXT = ("Coq theorems about the engine-core model (coq/model/Eng.v), for ALL operation sequences without exception "
                  "(faults, timed commands, invalid commands included): in every reachable state the engine's stored pre-pause "
                  "state is exactly the pending capture defined by the event discipline (cleared at every run start and end, "
                  "set by the Pause that begins a pause, kept by a Pause executed while one is pending, applied and cleared "
                  "by Unpause), so every Unpause applies exactly what the pause that began the current pause captured; "
                  "restoring a capture is the exact inverse of applying the safe values. Proved by showing the invariant is "
                  "preserved by each of the 27 primitive state changes every engine step decomposes into "
                  "(proofs/Eng_prims.v: step_star, invariant_by_prims).")
    LEVEL_NOTE = ("Theorems are about coq/model/Eng.v. Tie: the real Engine is driven through generated operation sequences "
                  "and compared with the model after every operation on all observables including _prev_state and the "
                  "Pause/Unpause/run-boundary events logged from inside PauseEngineCommand._run, UnpauseEngineCommand._run, "
                  "Engine.set_run_id and clear_run_id (wrapped by the harness, no source hook); the Coq monitor (mon9/walk) "
                  "is evaluated on the real event stream and the real _prev_state. The /repo fix for C09 is mirrored in the "
                  "model; before it the monitor failed on Pause-Stop-Start-Unpause and on Pause twice in a tick. No axioms.")
    TECHNIQUE = "Coq proof (invariant preserved by every primitive of the engine step, lifted to all executions) + operation-by-operation correspondence with the real Engine + Coq monitor on the real event stream"
    RULE = ("pause-heavy operation sequences of 6-45 operations: user Pause/Unpause/Stop/Start/Restart/Hold/Unhold, "
            "method-issued Pause (timed or not, also twice in one tick), Stop, Restart, UOD commands writing outputs, output "
            "changes, hardware read/write faults (5%), interpreter errors (4%), mixed with general engine sequences; "
            "non-trivial = at least one Pause that captured and one Unpause that restored; distinct by canonical JSON")
    QUICK_N = 300
    THOROUGH_N = 15000

    def gen_cases(self, rng, n, tier):
        return [gen_pause_case(rng) if rng.random() < 0.8 else gen_engine_case(rng, True) for _ in range(n)]

    def nontrivial(self, case, obs):
        evs = [e for v in obs["views"] for e in v["events"]]
        return any(e[0] == "pause" for e in evs) and any(e[0] == "unpause" and e[1] is not None for e in evs)

    def kind(self, case, obs):
        evs = [e for v in obs["views"] for e in v["events"]]
        np_ = sum(1 for e in evs if e[0] == "pause")
        nu = sum(1 for e in evs if e[0] == "unpause")
        runs = sum(1 for e in evs if e[0] == "runstart")
        return f"pauses={min(np_, 3)},unpauses={min(nu, 3)},runs={min(runs, 3)}"


PROP = C09()
