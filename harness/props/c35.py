from harness.common import Prop, z, lst, tup


class C35(Prop):
    ID = "C35"
    DESIGN_REF = "DESIGN.md §7 C35"
    RULE = ("1-3 runs separated by clear(), each a sequence of batches of error-log entries over 3 messages x 2 severities x times 0..5, mostly sorted runs plus a "
            "stream of unsorted/earlier-time entries; non-trivial = at least one merge (occurrences>1) or a "
            "redelivered duplicate or an interleaving of keys; distinct by canonical JSON of the batches")
    LEVEL_TEXT = ("Coq theorems about an executable model of AggregatedErrorLog.aggregate_with for ALL streams and all "
                  "ways of batching them (induction over the stream): batching irrelevance, refinement to the "
                  "group-runs specification, conservation, occurrence counts, order. The model is run against the "
                  "real method on generated batch sequences every run.")
    LEVEL_NOTE = ("Theorems are about coq/model/C35.v; tie = differential run of model (vm_compute) and "
                  "models.py:aggregate_with on the same cases plus the Coq monitor on the implementation output. "
                  "Closed under the global context (no axioms).")
    TECHNIQUE = "Coq proof (induction over entry streams) + model/implementation correspondence"
    QUICK_N = 3000
    THOROUGH_N = 60000
    TRUSTED = ["pydantic BaseModel attribute assignment; float comparison on small integers (times are integral floats)"]
    ASSUMPTIONS = ["times are compared exactly (generated as integral floats)",
                   "entries whose time is EARLIER than the merged entry are dropped by the code; the property text "
                   "does not classify them, so the monitor (group_runs) mirrors the code there and C35_conservation "
                   "carries the hypothesis"]

    def gen_cases(self, rng, n, tier):
        out = []
        for _ in range(n):
            nseg = rng.choice([1, 1, 2, 3])
            mode = rng.random()
            t = 0
            segs = []
            last_key = None
            for _ in range(nseg):
                nb = rng.randint(0, 4)
                batches = []
                for _ in range(nb):
                    batch = []
                    for _ in range(rng.randint(0, 5)):
                        if mode < 0.7:       # mostly valid: non-decreasing times, sticky keys
                            t += rng.choice([0, 0, 1, 1, 2])
                            tt = t
                        else:                # malformed stream: arbitrary times
                            tt = rng.randint(0, 5)
                        if last_key is not None and rng.random() < 0.5:
                            m, sv = last_key            # the same error keeps recurring, also across runs
                        else:
                            m = rng.choice([1, 1, 1, 2, 3])
                            sv = rng.choice([1, 1, 2])
                        last_key = (m, sv)
                        batch.append([m, sv, tt])
                    batches.append(batch)
                segs.append(batches)
            out.append(segs)
        return out

    def corpus(self):
        old = super().corpus()
        # corpus entries written before segments existed are single-segment cases
        return [c if (c and c[0] and c[0][0] and isinstance(c[0][0][0], list)) or c == [] or c == [[]] else [c] for c in old]

    def run_impl(self, case):
        from openpectus.aggregator.models import AggregatedErrorLog
        import openpectus.protocol.models as Mdl
        log = AggregatedErrorLog.empty()
        out = []
        k = 0
        for seg in case:
            for batch in seg:
                el = Mdl.ErrorLog(entries=[Mdl.ErrorLogEntry(message=f"m{m}", created_time=float(t), severity=sv)
                                           for m, sv, t in batch])
                log.aggregate_with(el)
                k += 1
                if k % 3 == 0:      # the log is stored and rebuilt (database round trip) now and then
                    log = AggregatedErrorLog.model_validate(log.model_dump())
            res = []
            for e in log.entries:
                assert e.created_time == int(e.created_time)
                res.append([int(e.message[1:]), e.severity, int(e.created_time), e.occurrences])
            out.append(res)
            log.clear()             # EngineData.reset_run() between two runs
        return out

    def case_to_coq(self, case):
        return lst([lst([lst([tup(z(m), z(sv), z(t)) for m, sv, t in b]) for b in seg]) for seg in case])

    def obs_to_coq(self, obs):
        return lst([lst([tup(z(a), z(b_), z(c), z(d)) for a, b_, c, d in seg]) for seg in obs])

    def nontrivial(self, case, obs):
        flat = [e for seg in case for b in seg for e in b]
        rows = [o for seg in obs for o in seg]
        return len(flat) >= 2 and (any(o[3] > 1 for o in rows) or len(rows) < len(flat))

    def kind(self, case, obs):
        flat = [e for seg in case for b in seg for e in b]
        return f"runs={len(case)},batches={sum(len(s) for s in case)},entries={min(len(flat), 10)}"


PROP = C35()
