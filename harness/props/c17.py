from harness.common import Prop, lst, tup, b

OPENERS = ["Block: A", "Watch: X > 1", "Alarm: X < 2", "Macro: M"]
LEAVES = ["Mark: a", "End block", "End blocks", "Wait: 1 s", "Call macro: M", "Stop", "Pause", "Foo: bar", "1.0 Mark: b",
          "Base: s", "Simulate: X = 1"]
WSL = ["", "   ", "    ", "# comment", "        # c", "  "]
JUNK = ["éè: x", ":", "::", "#", "1", "1 ", "\t", "　Mark: x", "Mark", "Mark:", "Block:", "٣ Mark: a", "_x", "0Mark: a",
        "Block: A # c", "Mark: a b"]


class C17(Prop):
    ID = "C17"
    DESIGN_REF = "DESIGN.md §7 C17"
    LEVEL_TEXT = ("Coq theorems about an executable transcription of the nesting pass of PcodeParser.parse_method: one "
                  "node per line in source order with an earlier opener (or the root) as parent for ALL texts; for "
                  "well-indented texts whose openers have a body the tree is exactly the off-side rule's and nothing is "
                  "flagged; the full 'flag or specification' statement is REFUTED in Coq (an opener with an empty body "
                  "silently adopts the next line -- known finding).")
    LEVEL_NOTE = ("Theorems are about coq/model/C17.v; each line's character/class/indent_error come from the real "
                  "_parse_line; tie = the real parse_method tree (parent and indent_error per line) compared on "
                  "grammar-generated texts with random indentation and on arbitrary Unicode lines. No axioms.")
    TECHNIQUE = "Coq proof (simulation of the parser's parent chain by an off-side-rule stack) + correspondence"
    RULE = ("texts of 1-12 lines from the P-code grammar (openers, leaves, blank/comment lines, junk and Unicode lines) "
            "with indentation drawn from {0,4,8,12,16} and off-by-1..3 values; non-trivial = at least one opener and "
            "one line deeper than 0; distinct by canonical JSON")
    QUICK_N = 3000
    THOROUGH_N = 120000
    TRUSTED = ["_parse_line (the first pass) supplies character/class/flag per line -- its decomposition is C18's subject"]
    ASSUMPTIONS = ["method lines contain no line separators (ParserMethod lines)"]

    def gen_cases(self, rng, n, tier):
        out = []
        for _ in range(n):
            lines = []
            depth = 0
            mode = rng.random()
            for _ in range(rng.randint(1, 12)):
                r = rng.random()
                if mode < 0.5:            # mostly well-formed walk
                    if r < 0.25:
                        text, d = rng.choice(OPENERS), depth
                        lines.append(" " * (4 * d) + text)
                        depth += 1 if rng.random() < 0.85 else 0
                        continue
                    if r < 0.4 and depth > 0:
                        depth -= rng.randint(1, depth)
                    ind = 4 * depth
                else:
                    ind = rng.choice([0, 0, 4, 4, 8, 12, 16, 1, 2, 3, 5, 6, 7, 9])
                kind = rng.random()
                if kind < 0.3:
                    text = rng.choice(OPENERS)
                elif kind < 0.75:
                    text = rng.choice(LEAVES)
                elif kind < 0.92:
                    lines.append(rng.choice(WSL))
                    continue
                else:
                    text = rng.choice(JUNK)
                lines.append(" " * ind + text)
            out.append(lines)
        return out

    def run_impl(self, case):
        raise NotImplementedError

    def observe(self, lines):
        import openpectus.lang.model.ast as p
        from openpectus.lang.model.parser import PcodeParser, ParserMethod, ParserMethodLine, MethodLineIdGenerator
        method = ParserMethod([ParserMethodLine(id=f"L{i}", content=c) for i, c in enumerate(lines)])
        pre = []
        parser0 = PcodeParser(id_generator=MethodLineIdGenerator(method))
        for i, c in enumerate(lines):
            nd = parser0._parse_line(c, i)
            k = 0 if isinstance(nd, p.WhitespaceNode) else (1 if isinstance(nd, p.NodeWithChildren) else 2)
            pre.append([nd.position.character, k, bool(nd.indent_error)])
        program = PcodeParser(id_generator=MethodLineIdGenerator(method)).parse_method(method)
        res = [None] * len(lines)
        order = []

        def walk(node, parent_line):
            for ch in node.children:
                i = ch.position.line
                order.append(i)
                assert ch.id == f"L{i}"
                res[i] = [parent_line, bool(ch.indent_error)]
                if isinstance(ch, p.NodeWithChildren):
                    walk(ch, i)
        walk(program, None)
        assert order == list(range(len(lines))), ("pre-order is not source order", order)
        assert all(r is not None for r in res)
        return pre, res

    # the "case" handed to Coq is the per-line classification produced by the real first pass
    def run_impl(self, case):        # noqa: F811
        pre, res = self.observe(case)
        self._pre[id(case)] = pre
        return res

    _pre = {}

    def case_to_coq(self, case):
        pre = self._pre.get(id(case))
        if pre is None:
            pre, _ = self.observe(case)
        return lst([tup(f"{c}%nat", f"{k}%nat", b(e)) for c, k, e in pre])

    def obs_to_coq(self, obs):
        return lst([tup("None" if p_ is None else f"(Some {p_}%nat)", b(e)) for p_, e in obs])

    def nontrivial(self, case, obs):
        return any(p_ is not None for p_, _ in obs)

    def kind(self, case, obs):
        flagged = any(e for _, e in obs)
        return f"flagged={flagged},nested={any(p_ is not None for p_, _ in obs)}"

    def classify(self, case, obs):
        """re-run the per-line monitor in Python to find the offending lines; a case belongs to a known finding only if
        EVERY offending line comes after (a) an opener with an EMPTY body (the next unflagged instruction line is not
        deeper than the opener) or (b) a FLAGGED opener (which keeps adopting the lines that follow it)"""
        pre, res = self.observe(case)

        def owner(k):
            c = pre[k][0]
            for j in range(k - 1, -1, -1):
                cj, kj, _ = pre[j]
                if kj == 0 or (res[j][1] and kj != 1):
                    continue
                if cj < c:
                    return j
            return None

        def empty_body(p_):
            for j in range(p_ + 1, len(pre)):
                if pre[j][1] == 0 or res[j][1]:      # blank/comment lines and flagged lines do not count as a body
                    continue
                return pre[j][0] <= pre[p_][0]
            return False
        bad = []
        for k, (c, kind, _) in enumerate(pre):
            if kind == 0 or res[k][1]:
                continue
            o = owner(k)
            par = res[k][0]
            ok = (c == 0 and par is None) if o is None else (pre[o][1] == 1 and pre[o][0] + 4 == c and par == o)
            if not ok:
                bad.append(k)
        if not bad:
            return None
        keys = set()
        for k in bad:
            if any(pre[p_][1] == 1 and empty_body(p_) for p_ in range(k)):
                keys.add("C17-empty-body-opener-adopts-next-line")
            elif any(pre[p_][1] == 1 and res[p_][1] for p_ in range(k)):
                keys.add("C17-flagged-opener-adopts-following-lines")
            else:
                return None
        return sorted(keys)[-1] if "C17-flagged-opener-adopts-following-lines" in keys else sorted(keys)[0]


PROP = C17()
