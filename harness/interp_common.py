"""C02 (and the shared plumbing of the interpreter properties C02-C05): generated methods and environments through the real
PInterpreter vs the Coq model of the interpreter (coq/model/Interp.v)."""
import json

from harness.common import Prop, z, lst, b
from harness import interp_driver as ID


def nat(x):
    return f"{int(x)}%nat"


_blk = [0]
MACROS = [False]        # set per case by gen_interp_case: methods with macro definitions and calls


def gen_lines(rng, depth=0, max_items=6, in_block=False, in_cond=False):
    """stage-A constructs; returns a list of (indent, text) tuples"""
    out = []
    n = rng.randint(1, max_items)
    for _ in range(n):
        thr = f"{rng.choice([0.5, 1.0, 2.0])} " if rng.random() < 0.15 else ""
        r = rng.random()
        if r < 0.26:
            out.append((depth, f"{thr}Mark: {rng.choice('ABCDE')}"))
        elif r < 0.36 and depth < 2:
            _blk[0] += 1            # unique block names: the Block tag identifies the block in the observation
            out.append((depth, f"{thr}Block: B{_blk[0]}"))
            body = gen_lines(rng, depth + 1, 4, True, in_cond)
            x = rng.random()
            if x < 0.7:
                body.insert(rng.randint(max(0, len(body) - 1), len(body)), (depth + 1, "End block"))
            elif x < 0.85:
                body.append((depth + 1, "End blocks"))
            out += body
        elif r < 0.46 and depth < 3:
            out.append((depth, f"{thr}Watch: X > {rng.randint(1, 3)}"))
            out += gen_lines(rng, depth + 1, 3, in_block, True)
        elif r < 0.53 and depth < 3:
            out.append((depth, f"Alarm: X > {rng.randint(1, 3)}"))
            out += gen_lines(rng, depth + 1, 3, in_block, True)
        elif r < 0.555 and MACROS[0] and depth < 2:
            out.append((depth, f"Macro: M{rng.randint(1, 3)}"))
            out += gen_lines(rng, depth + 1, 3, in_block, in_cond)
        elif r < 0.59 and MACROS[0]:
            out.append((depth, f"{thr}Call macro: M{rng.randint(1, 4)}"))
        elif r < 0.62:
            # durations in min / h too (get_duration_end converts them); none whose end minus the 0.1 s correction falls on
            # a tick time (multiples of 0.5 s), where float rounding would decide
            out.append((depth, f"{thr}Wait: {rng.choice(['0 s', '0.5 s', '1 s', '1.5 s', '2 s', '0.02 min', '0.03 min', '0.002 h'])}"))
        elif r < 0.70:
            out.append((depth, f"{thr}Noop: {rng.choice([0, 1, 2, 3])}"))
        elif r < 0.80:
            out.append((depth, f"{thr}{rng.choice(['CmdA', 'CmdB', 'CmdC'])}: d=0"))
        elif r < 0.86:
            out.append((depth, f"{thr}{rng.choice(['Increment run counter', 'Base: s', 'Notify: n'])}"))
        elif r < 0.89:
            out.append((depth, "Foo: 1"))
        elif r < 0.93 and in_block:
            out.append((depth, rng.choice(["End block", "End blocks"])))
        elif r < 0.97:
            out.append((depth, ""))
        else:
            out.append((depth, "# comment"))
    return out


def gen_nested(rng):
    """directed shape: a block whose body holds Watches / Alarms nested in Watches / Alarms and whose end comes from
    inside one of them, from the block body or from a Watch outside the block, followed by lines after the block"""
    _blk[0] += 1
    out = []
    if rng.random() < 0.3:
        out.append((0, f"Watch: X > {rng.randint(1, 3)}"))
        out.append((1, rng.choice(["End block", "End blocks", "Mark: A"])))
    out.append((0, f"Block: B{_blk[0]}"))

    def nest(d, left):
        kind = rng.choice(["Watch", "Watch", "Alarm"])
        out.append((d, f"{kind}: X > {rng.randint(1, 3)}"))
        for _ in range(rng.randint(0, 2)):
            out.append((d + 1, rng.choice(["Mark: A", "Wait: 0.5 s", "Wait: 1 s", "CmdA: d=0", "Noop: 2"])))
        if left > 0 and rng.random() < 0.8:
            nest(d + 1, left - 1)
        if rng.random() < 0.3:
            out.append((d + 1, rng.choice(["End block", "End blocks", "Mark: B"])))
        elif not out[-1][0] > d:
            out.append((d + 1, "Mark: C"))
    for _ in range(rng.randint(1, 2)):
        nest(1, rng.randint(1, 2))
    for _ in range(rng.randint(0, 2)):
        out.append((1, rng.choice(["Wait: 1 s", "Wait: 0.5 s", "Mark: D", "Noop: 3"])))
    if rng.random() < 0.8:
        out.append((1, rng.choice(["End block", "End block", "End blocks"])))
    for _ in range(rng.randint(1, 3)):
        out.append((0, rng.choice(["Mark: E", "Wait: 2 s", "Wait: 1 s", "CmdB: d=0"])))
    return out


def gen_macros(rng):
    """directed shape: 1-3 macro definitions (bodies of marks, waits, commands, a block, a watch, calls of other macros,
    sometimes of themselves), redefinitions, then calls at top level, in blocks and in watch bodies, also of undefined names,
    with further redefinitions between the calls"""
    out = []
    names = [f"M{k}" for k in range(1, rng.randint(1, 3) + 1)]

    def body(d, me):
        n = rng.randint(1, 4)
        for _ in range(n):
            r = rng.random()
            if r < 0.35:
                out.append((d, f"Mark: {rng.choice('ABCDE')}"))
            elif r < 0.5:
                out.append((d, f"Wait: {rng.choice(['0 s', '0.5 s', '1 s'])}"))
            elif r < 0.62:
                out.append((d, f"{rng.choice(['CmdA', 'CmdB'])}: d=0"))
            elif r < 0.74:
                others = [x for x in names if x != me] or ["M9"]
                out.append((d, f"Call macro: {me if rng.random() < 0.06 else rng.choice(others)}"))
            elif r < 0.84 and d < 2:
                _blk[0] += 1
                out.append((d, f"Block: B{_blk[0]}"))
                out.append((d + 1, rng.choice(["Mark: A", "Wait: 0.5 s"])))
                if rng.random() < 0.85:
                    out.append((d + 1, "End block"))
            elif r < 0.92 and d < 2:
                out.append((d, f"Watch: X > {rng.randint(1, 3)}"))
                out.append((d + 1, rng.choice(["Mark: W", "Wait: 0.5 s", f"Call macro: {rng.choice(names)}"])))
            else:
                out.append((d, rng.choice(["Noop: 2", "", "Increment run counter"])))
    defs = list(names) + ([rng.choice(names)] if rng.random() < 0.3 else [])
    rng.shuffle(defs)
    pre = rng.random() < 0.1
    if pre:
        out.append((0, f"Call macro: {rng.choice(names)}"))          # a call before the definition
    for nm in defs:
        out.append((0, f"Macro: {nm}"))
        body(1, nm)
    for _ in range(rng.randint(1, 5)):
        r = rng.random()
        nm = rng.choice(names) if rng.random() < 0.92 else "M9"
        if r < 0.6:
            out.append((0, f"Call macro: {nm}"))
        elif r < 0.75:
            _blk[0] += 1
            out.append((0, f"Block: B{_blk[0]}"))
            out.append((1, f"Call macro: {nm}"))
            out.append((1, "End block"))
        elif r < 0.9:
            out.append((0, f"Watch: X > {rng.randint(1, 3)}"))
            out.append((1, f"Call macro: {nm}"))
        else:
            out.append((0, rng.choice(["Mark: Z", "Wait: 1 s"])))
        if rng.random() < 0.25:                                      # a redefinition between calls, then a call of it
            nm2 = rng.choice(names)
            out.append((0, f"Macro: {nm2}"))
            body(1, nm2)
            if rng.random() < 0.8:
                out.append((0, f"Call macro: {nm2}"))
    return out


def gen_interp_case(rng, shape=None):
    _blk[0] = 0
    MACROS[0] = rng.random() < 0.35
    r0 = rng.random()
    if shape == "macros":
        r0 = 0.2
    items = gen_nested(rng) if r0 < 0.12 else gen_macros(rng) if r0 < 0.27 else gen_lines(rng, 0, rng.randint(2, 8))
    for _ in range(rng.choice([0, 0, 1, 2])):
        items.append((0, rng.choice(["", "# c"])))
    lines = [("    " * d) + t if t else "" for d, t in items]
    nl = len(lines)
    nticks = rng.randint(10, 70)
    thr_nodes = [k + 1 for k, (d, t) in enumerate(items) if t[:1].isdigit()]
    cond_nodes = [k + 1 for k, (d, t) in enumerate(items) if t.lstrip("0123456789. ").startswith(("Watch", "Alarm"))]
    cmd_nodes = [k + 1 for k, (d, t) in enumerate(items) if t.lstrip("0123456789. ").startswith(("CmdA", "CmdB", "CmdC"))]
    release = {n: rng.randint(0, nticks) for n in thr_nodes}
    ptrue = {n: rng.choice([0.0, 0.1, 0.3, 0.6, 1.0]) for n in cond_nodes}
    ticks = []
    for t in range(nticks):
        op = dict(dt=rng.choice([1, 1, 1, 2]),
                  thr_wait=[n for n in thr_nodes if t < release[n]],
                  cond_true=[n for n in cond_nodes if rng.random() < ptrue[n]],
                  cond_err=[n for n in cond_nodes if rng.random() < 0.01],
                  complete=[n for n in cmd_nodes if rng.random() < 0.3])
        ticks.append(op)
    return dict(lines=lines, ticks=ticks)


def kind_coq(k):
    if k[0] == "KBlank":
        return f"(KBlank {b(k[1])})"
    if k[0] == "KWait":
        arg = (k[1] or "").strip()
        num = arg.split()[0] if arg else "0"
        unit = arg.split()[1] if len(arg.split()) > 1 else "s"
        factor = {"s": 1, "min": 60, "h": 3600}[unit]
        return f"(KWait {z(int(round(float(num) * factor * 10)))})"
    if k[0] == "KNoop":
        return f"(KNoop {nat(k[1])})"
    if k[0] in ("KMacro", "KCallMacro"):
        return f"({k[0]} {nat(k[1])})"
    return k[0]


def program_coq(table):
    rows = []
    for r in table:
        par = "None" if r["parent"] is None else f"(Some {nat(r['parent'])})"
        rows.append("{| n_kind := %s; n_parent := %s; n_children := %s; n_thr := %s |}"
                    % (kind_coq(r["kind"]), par, lst([nat(c) for c in r["children"]]), b(r["threshold"])))
    return lst(rows)


def ticks_coq(ticks):
    return lst(["{| t_complete := %s; t_dt := %s; t_thr_wait := %s; t_cond_true := %s; t_cond_err := %s |}"
                % (lst([nat(x) for x in t.get("complete", [])]), z(t.get("dt", 1)), lst([nat(x) for x in t.get("thr_wait", [])]),
                   lst([nat(x) for x in t.get("cond_true", [])]), lst([nat(x) for x in t.get("cond_err", [])])) for t in ticks])


def view_coq(v):
    ns = lst(["{| started := %s; completed := %s; failed := %s; child_index := %s; children_complete := %s; lock_acquired := %s; "
              "block_ended := %s; activated := %s; interrupt_registered := %s; run_count := %s; wait_start := None; "
              "cancelled := false; forced := false |}" % (b(n[0]), b(n[1]), b(n[2]), nat(n[3]), b(n[4]), b(n[5]), b(n[6]), b(n[7]),
                                                          b(n[8]), nat(n[9])) for n in v["nodes"]])
    blk = "None" if v["block"] is None else f"(Some {nat(max(v['block'], 0))})"
    err = "None" if v["last_error"] is None else f"(Some {nat(max(v['last_error'], 0))})"
    return ("{| v_nodes := %s; v_ints := %s; v_block := %s; v_sched := %s; v_raised := %s; v_error := %s |}"
            % (ns, lst([nat(max(x, 0)) for x in v["interrupts"]]), blk, nat(v["scheduled"]), b(v["raised"]), err))


class InterpProp(Prop):
    COQ_IMPORTS = "From OP Require Import model.Interp model.InterpRun."
    SHARD = 60

    def __init__(self):
        self._obs = {}

    def gen_cases(self, rng, n, tier):
        return [gen_interp_case(rng) for _ in range(n)]

    def run_impl(self, case):
        o = ID.run_case(case)
        self._obs[json.dumps(case, sort_keys=True)] = o
        return o

    def case_to_coq(self, case):
        o = self._obs.get(json.dumps(case, sort_keys=True)) or self.run_impl(case)
        return f"({program_coq(o['table'])}, {ticks_coq(case['ticks'])})"

    def obs_to_coq(self, obs):
        return lst([view_coq(v) for v in obs["views"]])

    def size(self, case):
        return len(case["lines"]) + len(case["ticks"])
