"""Driver + generator shared by C23 and C24: the real ErrorRecoveryDecorator over a scripted hardware."""
from harness.common import z, lst, tup, b, opt

STATE_COQ = {"Disconnected": "SDisconnected", "OK": "SOK", "Issue": "SIssue", "Reconnect": "SReconnect", "Error": "SError"}


class Clock:
    def __init__(self):
        self.now = 0.0

    def time(self):
        return self.now


def run_impl(case):
    import openpectus.engine.hardware_recovery as HR
    from openpectus.engine.hardware import HardwareLayerBase, HardwareLayerException, Register, RegisterDirection
    from openpectus.lang.exec.tags import Tag
    init_connected, ops = case
    clock = Clock()
    real_time = HR.time
    HR.time = clock
    try:
        applied = []

        class Fake(HardwareLayerBase):
            def __init__(self):
                super().__init__()
                self.script = []
                self._is_connected = init_connected

            def _next(self):
                if not self.script:
                    raise HardwareLayerException("script exhausted")
                x = self.script.pop(0)
                if x is None or x is False:
                    raise HardwareLayerException("scripted failure")
                return x

            def read(self, r):
                return self._next()

            def read_batch(self, registers):
                vals = self._next()
                assert len(vals) == len(registers)
                return list(vals)

            def write(self, value, r):
                self._next()
                applied.append([int(r.name), value])

            def write_batch(self, values, registers):
                self._next()
                for v, r in zip(values, registers):
                    applied.append([int(r.name), v])

            def connect(self):
                self._next()
                super().connect()

            def disconnect(self):
                super().disconnect()

        hw = Fake()
        regs = {}

        def reg(i):
            if i not in regs:
                regs[i] = Register(str(i), RegisterDirection.Both)
            return regs[i]
        tag = Tag("Connection Status", value="Disconnected")
        deco = HR.ErrorRecoveryDecorator(hw, HR.ErrorRecoveryConfig(), tag)
        obs = []
        for o in ops:
            kind = o[0]
            res = ["done"]
            try:
                if kind == "Read":
                    hw.script = [o[2]]
                    res = ["vals", [deco.read(reg(o[1]))]]
                elif kind == "ReadBatch":
                    hw.script = [o[2]]
                    res = ["vals", list(deco.read_batch([reg(i) for i in o[1]]))]
                elif kind == "Write":
                    hw.script = [o[3]] + list(o[4])
                    deco.write(o[1], reg(o[2]))
                elif kind == "WriteBatch":
                    hw.script = [o[2]] + list(o[3])
                    deco.write_batch([v for v, _ in o[1]], [reg(r) for _, r in o[1]])
                elif kind == "Tick":
                    hw.script = [o[1]]
                    deco.tick()
                elif kind == "Connect":
                    hw.script = [o[1]]
                    deco.connect()
                elif kind == "Advance":
                    clock.now += o[1]
            except HardwareLayerException:
                res = ["raise"]
            obs.append([res, deco.state.name, tag.get_value() == "Connected"])
        pend = [[int(r.name), v] for r, v in deco.pending_writes.items()]
        return [obs, applied, pend]
    finally:
        HR.time = real_time


def gen_case(rng, long=False):
    nreg = rng.randint(1, 4)
    ops = []
    v = 0
    health = True   # current "weather" of the hardware, flips now and then => realistic outages
    n = rng.randint(3, 40 if long else 22)
    for _ in range(n):
        if rng.random() < 0.2:
            health = not health

        def ok():
            return health if rng.random() < 0.85 else (not health)
        r = rng.random()
        if r < 0.12:
            hv = rng.randint(0, 9) if ok() else None
            ops.append(["Read", rng.randrange(nreg), hv])
        elif r < 0.24:
            rs = rng.sample(range(nreg), rng.randint(1, nreg))
            ops.append(["ReadBatch", rs, [rng.randint(0, 9) for _ in rs] if ok() else None])
        elif r < 0.36:
            v = v + 1 if rng.random() < 0.7 else v
            ops.append(["Write", rng.choice([v, v, 1]), rng.randrange(nreg), ok(), [ok() for _ in range(nreg)]])
        elif r < 0.66:
            rs = list(range(nreg)) if rng.random() < 0.7 else rng.sample(range(nreg), rng.randint(0, nreg))
            ps = []
            for x in rs:
                if rng.random() < 0.5:
                    v += 1
                ps.append([rng.choice([v, v, 1, 2]), x])
            ops.append(["WriteBatch", ps, ok(), [ok() for _ in range(nreg)]])
        elif r < 0.80:
            k = rng.choice([1, 1, 6, 6, 7, 15])
            for _ in range(k):
                ops.append(["Tick", ok()])
        elif r < 0.88:
            ops.append(["Connect", ok()])
        else:
            ops.append(["Advance", rng.choice([1, 5, 11, 11, 20, 18001, 18001])])
    return [rng.random() < 0.7, ops]


def case_to_coq(case):
    def nl(xs):
        return lst([f"{x}%nat" for x in xs])

    def op(o):
        k = o[0]
        if k == "Read":
            return f"Read {o[1]}%nat {opt(o[2])}"
        if k == "ReadBatch":
            return f"ReadBatch {nl(o[1])} " + ("None" if o[2] is None else f"(Some {lst([z(x) for x in o[2]])})")
        if k == "Write":
            return f"Write {z(o[1])} {o[2]}%nat {b(o[3])} {lst([b(x) for x in o[4]])}"
        if k == "WriteBatch":
            return f"WriteBatch {lst([tup(z(v), f'{r}%nat') for v, r in o[1]])} {b(o[2])} {lst([b(x) for x in o[3]])}"
        if k == "Tick":
            return f"Tick {b(o[1])}"
        if k == "Connect":
            return f"Connect {b(o[1])}"
        return f"Advance {z(o[1])}"
    return tup(b(case[0]), lst([op(o) for o in case[1]]))


def obs_to_coq(obs):
    def res(r):
        if r[0] == "raise":
            return "RRaise"
        if r[0] == "done":
            return "RDone"
        return "RVals " + lst([opt(x) for x in r[1]])

    def rv(xs):
        return lst([tup(f"{r}%nat", z(v)) for r, v in xs])
    return tup(lst([tup(res(r), STATE_COQ[s], b(t)) for r, s, t in obs[0]]), rv(obs[1]), rv(obs[2]))
