"""debug aid: find engine-model / implementation differences for a property's generated cases, view by view.
usage: python -m harness.dbg_eng C11 [seed] [n]   |   python -m harness.dbg_eng --case '<json>'"""
import json
import random
import subprocess
import sys
import importlib
from pathlib import Path

from harness import eng_driver as D
from harness.common import COQ, BUILD


def model_views(case, obs):
    out = BUILD / "dbg"
    out.mkdir(parents=True, exist_ok=True)
    p = out / "dbg.v"
    inp = D.input_to_coq(case, obs)
    p.write_text("\n".join([
        "From Coq Require Import ZArith List Bool.", "From OP Require Import lib.Obs model.Eng model.EngRun.",
        "Import ListNotations.", "Open Scope Z_scope.",
        f"Definition inp := {inp}.", f"Definition imp := {D.output_to_coq(obs)}.",
        "Definition mo := EngRun.run inp.",
        "Eval vm_compute in (map (fun p => view_eqb (fst p) (snd p)) (combine mo imp)).",
        "Definition firstbad := fix f (l : list (view * view)) (k : nat) := match l with [] => None | (a, b) :: r => if view_eqb a b then f r (S k) else Some (k, a, b) end.",
        "Eval vm_compute in (firstbad (combine mo imp) 0%nat).",
    ]) + "\n")
    r = subprocess.run(["coqc", "-Q", str(COQ), "OP", str(p)], capture_output=True, text=True, timeout=300)
    return r.stdout + r.stderr


def main():
    if sys.argv[1] == "--case":
        cases = [json.loads(sys.argv[2])]
    else:
        pid = sys.argv[1]
        seed = int(sys.argv[2]) if len(sys.argv) > 2 else 0
        n = int(sys.argv[3]) if len(sys.argv) > 3 else 300
        prop = importlib.import_module(f"harness.props.{pid.lower()}").PROP
        import hashlib; rng = random.Random(seed * 1000003 + int(hashlib.sha256(pid.encode()).hexdigest()[:6], 16))
        cases = prop.gen_cases(rng, n, "quick")
    # batch: one coqc call per 60 cases, then drill into the first failing one
    obs_all = [D.run_case(c) for c in cases]
    out = BUILD / "dbg"
    out.mkdir(parents=True, exist_ok=True)
    bad = None
    for lo in range(0, len(cases), 60):
        chunk = list(zip(cases[lo:lo + 60], obs_all[lo:lo + 60]))
        lines = ["From Coq Require Import ZArith List Bool.", "From OP Require Import lib.Obs model.Eng model.EngRun.",
                 "Import ListNotations.", "Open Scope Z_scope."]
        for k, (c, o) in enumerate(chunk):
            lines.append(f"Definition r{k} := EngRun.out_eqb (EngRun.run {D.input_to_coq(c, o)}) {D.output_to_coq(o)}.")
        lines.append("Eval vm_compute in [" + "; ".join(f"r{k}" for k in range(len(chunk))) + "].")
        p = out / "batch.v"
        p.write_text("\n".join(lines) + "\n")
        r = subprocess.run(["coqc", "-Q", str(COQ), "OP", str(p)], capture_output=True, text=True, timeout=900)
        txt = r.stdout + r.stderr
        if "Error" in txt:
            print(txt[:3000])
            return
        vals = [w.strip("[];") for w in txt.replace("\n", " ").split("=")[1].split(":")[0].split(";")]
        vals = [v.strip() for v in vals]
        for k, v in enumerate(vals):
            if v.startswith("false"):
                bad = lo + k
                break
        if bad is not None:
            break
    if bad is None:
        print("no difference in", len(cases), "cases")
        return
    print("CASE", bad, json.dumps(cases[bad]))
    print(model_views(cases[bad], obs_all[bad])[:6000])


main()
