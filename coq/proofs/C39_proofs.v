From Coq Require Import ZArith List Bool Lia.
From OP Require Import lib.Obs model.C39.
Import ListNotations.
Open Scope Z_scope.

(* reading an escaped field, from "in field" state, appends exactly the field *)
Lemma rd_esc_field f : forall rest fld rec out,
  no_newline f = true ->
  rd F (esc_field f ++ rest) fld rec out = rd F rest (rev f ++ fld) rec out.
Proof.
  induction f as [|c f IH]; intros rest fld rec out Hn; [reflexivity|].
  unfold no_newline in Hn. cbn [existsb] in Hn. apply negb_true_iff, orb_false_iff in Hn as [Hc Hn].
  assert (Hn' : no_newline f = true) by (unfold no_newline; now rewrite Hn).
  cbn [esc_field]. destruct (needs_escape c) eqn:Ee.
  - cbn [app rd]. assert (Hb : is_newline backslash = false) by reflexivity.
    rewrite Hb. replace (backslash =? backslash) with true by reflexivity.
    cbn [rd]. rewrite IH by exact Hn'. cbn [rev]. now rewrite <- app_assoc.
  - unfold needs_escape in Ee. rewrite Hc in Ee. rewrite !orb_false_r in Ee.
    apply orb_false_iff in Ee as [Ee Eq]. apply orb_false_iff in Ee as [Ec Eb].
    cbn [app rd]. rewrite Hc, Eb, Ec. rewrite IH by exact Hn'. cbn [rev]. now rewrite <- app_assoc.
Qed.

(* the same from the start of a record, provided the field is followed by something and the
   record does not consist of this single empty field *)
Lemma rd_first_field_nonempty c f rest out :
  no_newline (c :: f) = true ->
  rd R (esc_field (c :: f) ++ rest) [] [] out = rd F rest (rev (c :: f)) [] out
  /\ rd N (esc_field (c :: f) ++ rest) [] [] out = rd F rest (rev (c :: f)) [] out.
Proof.
  intros Hn. pose proof Hn as Hn0. unfold no_newline in Hn. cbn [existsb] in Hn.
  apply negb_true_iff, orb_false_iff in Hn as [Hc Hn].
  assert (Hn' : no_newline f = true) by (unfold no_newline; now rewrite Hn).
  cbn [esc_field]. destruct (needs_escape c) eqn:Ee.
  - cbn [app rd]. assert (Hb : is_newline backslash = false) by reflexivity.
    rewrite Hb. replace (backslash =? backslash) with true by reflexivity. cbn [rd].
    rewrite rd_esc_field by exact Hn'. cbn [rev]. auto.
  - unfold needs_escape in Ee. rewrite Hc in Ee. rewrite !orb_false_r in Ee.
    apply orb_false_iff in Ee as [Ee Eq]. apply orb_false_iff in Ee as [Ec Eb].
    cbn [app rd]. rewrite Hc, Eb, Ec. rewrite rd_esc_field by exact Hn'. cbn [rev]. auto.
Qed.

(* the remaining fields of a record, read from "in field" state *)
Lemma rd_more_fields fs : forall rest fld rec out,
  forallb no_newline fs = true ->
  rd F (match fs with [] => [] | _ => comma :: join_fields fs end ++ cr :: lf :: rest) fld rec out
  = rd N rest [] [] (rev (rev fs ++ rev fld :: rec) :: out).
Proof.
  induction fs as [|f fs IH]; intros rest fld rec out Hn.
  - cbn [app rd]. replace (is_newline cr) with true by reflexivity. cbn [rd].
    replace (is_newline lf) with true by reflexivity. reflexivity.
  - cbn [forallb] in Hn. apply andb_true_iff in Hn as [Hf Hn].
    cbn [app rd]. replace (is_newline comma) with false by reflexivity.
    replace (comma =? backslash) with false by reflexivity. replace (comma =? comma) with true by reflexivity.
    destruct fs as [|g fs'].
    + cbn [join_fields]. rewrite rd_esc_field by exact Hf. rewrite app_nil_r.
      cbn [rd]. replace (is_newline cr) with true by reflexivity. cbn [rd].
      replace (is_newline lf) with true by reflexivity. cbn [rev app]. rewrite rev_involutive. reflexivity.
    + change (join_fields (f :: g :: fs')) with (esc_field f ++ comma :: join_fields (g :: fs')).
      rewrite <- app_assoc. rewrite rd_esc_field by exact Hf. rewrite app_nil_r.
      change ((comma :: join_fields (g :: fs')) ++ cr :: lf :: rest)
        with (match g :: fs' with [] => [] | _ => comma :: join_fields (g :: fs') end ++ cr :: lf :: rest).
      rewrite IH by exact Hn. rewrite rev_involutive. cbn [rev]. rewrite <- !app_assoc. reflexivity.
Qed.

Lemma join_fields_cons f fs :
  join_fields (f :: fs) = esc_field f ++ match fs with [] => [] | _ => comma :: join_fields fs end.
Proof. destruct fs; cbn [join_fields]; [now rewrite app_nil_r|reflexivity]. Qed.

(* one written row, read at a record boundary *)
Lemma rd_row r rest out :
  row_ok r = true ->
  (forall t, write_row r = Some t ->
     rd R (t ++ rest) [] [] out = rd N rest [] [] (r :: out)
     /\ rd N (t ++ rest) [] [] out = rd N rest [] [] (r :: out))
  /\ write_row r <> None.
Proof.
  intros Hok. destruct r as [|f fs]; [discriminate|].
  assert (Hall : forallb no_newline (f :: fs) = true).
  { unfold row_ok in Hok. destruct f as [|c f]; destruct fs; try discriminate; exact Hok. }
  cbn [forallb] in Hall. apply andb_true_iff in Hall as [Hf Hfs].
  remember (join_fields (f :: fs)) as jf eqn:Ejf.
  assert (Hw : write_row (f :: fs) = Some (jf ++ [cr; lf])).
  { subst jf. destruct f as [|c f]; destruct fs; try reflexivity. discriminate. }
  split; [|rewrite Hw; discriminate].
  intros t Ht. rewrite Hw in Ht. injection Ht as <-. subst jf.
  rewrite join_fields_cons, <- !app_assoc.
  change ([cr; lf] ++ rest) with (cr :: lf :: rest).
  destruct f as [|c f].
  - (* empty first field: there must be more fields *)
    destruct fs as [|g fs']; [discriminate|]. cbn [esc_field app].
    cbn [rd]. replace (is_newline comma) with false by reflexivity.
    replace (comma =? backslash) with false by reflexivity. replace (comma =? comma) with true by reflexivity.
    assert (H : rd F (join_fields (g :: fs') ++ cr :: lf :: rest) [] [[]] out
                = rd N rest [] [] (([] :: g :: fs') :: out)).
    { rewrite join_fields_cons, <- app_assoc.
      cbn [forallb] in Hfs. apply andb_true_iff in Hfs as [Hg Hfs'].
      rewrite rd_esc_field by exact Hg. rewrite app_nil_r.
      rewrite (rd_more_fields fs' rest (rev g) [[]] out Hfs'). rewrite rev_involutive.
      f_equal. f_equal. rewrite rev_app_distr. cbn [rev app]. rewrite rev_involutive. reflexivity. }
    split; exact H.
  - destruct (rd_first_field_nonempty c f
               (match fs with [] => [] | _ => comma :: join_fields fs end ++ cr :: lf :: rest) out Hf) as [H1 H2].
    rewrite H1, H2. rewrite (rd_more_fields fs rest (rev (c :: f)) [] out Hfs).
    assert (E : rev (rev fs ++ [rev (rev (c :: f))]) = (c :: f) :: fs).
    { rewrite rev_app_distr. cbn [rev app]. rewrite !rev_involutive. cbn [rev app].
      rewrite rev_app_distr. cbn [rev app]. now rewrite rev_involutive. }
    split; apply f_equal; apply (f_equal (fun x => x :: out)); exact E.
Qed.

Lemma rd_rows rows : forall out,
  forallb row_ok rows = true ->
  rd R (write_rows rows) [] [] out = rev out ++ rows /\ rd N (write_rows rows) [] [] out = rev out ++ rows.
Proof.
  induction rows as [|r rows IH]; intros out Hok.
  - cbn. rewrite app_nil_r. auto.
  - cbn [forallb] in Hok. apply andb_true_iff in Hok as [Hr Hrows].
    destruct (rd_row r (write_rows rows) out Hr) as [Hrd Hne].
    cbn [write_rows]. destruct (write_row r) as [t|] eqn:Ew; [|contradiction].
    destruct (Hrd t eq_refl) as [H1 H2]. rewrite H1, H2.
    destruct (IH (r :: out) Hrows) as [_ H3]. rewrite H3. cbn [rev]. rewrite <- app_assoc. auto.
Qed.

Lemma roundtrip rows : forallb row_ok rows = true -> read_rows (write_rows rows) = rows.
Proof. intros H. unfold read_rows. now destruct (rd_rows rows [] H) as [-> _]. Qed.

Lemma writer_accepts r : row_ok r = true -> write_row r <> None.
Proof. intros H. now destruct (rd_row r [] [] H). Qed.

(* columns: a data row has exactly the columns of the header when the same tags are archived *)
Lemma columns now (tags : list (str * str * bool)) :
  length (data_row now (map (fun t => (snd (fst t), snd t)) tags))
  = length (header_row (map (fun t => (fst (fst t), snd t)) tags)).
Proof.
  unfold data_row, header_row. cbn [length]. f_equal. rewrite !map_length.
  induction tags as [|[[n v] a] tags IH]; cbn; [reflexivity|]. destruct a; cbn; now rewrite IH.
Qed.

Lemma list_eqb_refl {A} (eqb : A -> A -> bool) (Hr : forall x, eqb x x = true) l : list_eqb eqb l l = true.
Proof. induction l as [|x l IH]; cbn; [reflexivity|]. now rewrite Hr, IH. Qed.

Lemma model_satisfies_monitor i : holds_b i (run i) = true.
Proof.
  unfold holds_b, run. cbn [snd]. destruct (forallb row_ok i) eqn:E; [|reflexivity].
  rewrite roundtrip by exact E. unfold rows_eqb.
  apply list_eqb_refl. intros r. apply list_eqb_refl. intros f. unfold str_eqb. apply list_eqb_refl.
  intros c. apply Z.eqb_refl.
Qed.
