(* C14 (scope clause): over whole runs WITH injections at any ticks (the run function of model/C14.v), outside Alarm and
   Macro bodies a started line -- of the method or of an injected snippet -- lies in a scope that has started: a snippet's
   lines run inside the snippet's own scopes, in order of nesting, and an injection never starts a method line out of its
   scope. Stack invariant of C02_order.v carried through the injections: an injection adds one generator, [FVisit r] of a
   root r without parent, and changes no started flag. *)
From Coq Require Import ZArith List Bool Arith Lia.
From OP Require Import lib.Obs model.Interp model.InterpRun model.C14 proofs.Interp_inv proofs.C05_proofs proofs.Interp_fields
     proofs.C02_proofs proofs.C14_proofs proofs.Interp_stack proofs.C02_order proofs.C04_order proofs.C05_order.
Import ListNotations.
Open Scope Z_scope.

Section InjRuns.
  Variable p : program.
  Hypothesis WF : wf_b p = true.

  (* the injected roots are roots: they have no parent line (evaluated by the monitor on every generated case) *)
  Definition roots_ok_b (ts : list tick_inj) : bool :=
    forallb (fun j => forallb (fun r => match n_parent (nd p r) with None => true | Some _ => false end) (j_inject j)) ts.

  Definition ginject (s : S) (r : nat) : S := match n_parent (nd p r) with None => inject p s r | Some _ => s end.
  Lemma ginject_fold l : forallb (fun r => match n_parent (nd p r) with None => true | Some _ => false end) l = true ->
    forall s, fold_left (inject p) l s = fold_left ginject l s.
  Proof.
    induction l as [|r l IH]; intros H s; cbn [fold_left]; [reflexivity|]. cbn [forallb] in H. apply andb_prop in H as [Hr Hl].
    unfold ginject at 2. destruct (n_parent (nd p r)); [discriminate|]. now apply IH.
  Qed.
  Lemma states_gstates ts : roots_ok_b ts = true -> forall main s now,
    C14_proofs.states p main s now ts = gstates p nat ginject main s now (map (fun j => (j_tick j, j_inject j)) ts).
  Proof.
    induction ts as [|j ts IH]; intros H main s now; cbn [C14_proofs.states gstates map]; [reflexivity|].
    cbn [roots_ok_b forallb] in H. apply andb_prop in H as [Hj Hts]. rewrite (ginject_fold _ Hj).
    destruct (tick p (rounds_of p) (fuel_of p) _ main _) as [[[main' s2] r]|]; [|reflexivity]. now rewrite (IH Hts).
  Qed.

  Lemma ginject_started s r m : started (st (ginject s r) m) = started (st s m).
  Proof.
    unfold ginject. destruct (n_parent (nd p r)); [reflexivity|]. destruct (Nat.eq_dec m r) as [->|N].
    - apply inject_root.
    - now rewrite (inject_other p s r m N).
  Qed.
  Lemma ginject_len s r : length (nodes (ginject s r)) = length (nodes s).
  Proof. unfold ginject, inject. destruct (n_parent (nd p r)); [reflexivity|apply l_register]. Qed.
  Lemma ginject_ints s r x : In x (ints (ginject s r)) ->
    In x (ints s) \/ exists r0, n_parent (nd p r0) = None /\ snd (snd x) = [FVisit r0].
  Proof.
    unfold ginject. destruct (n_parent (nd p r)) eqn:Pr; [now left|]. unfold inject. intros H.
    destruct (isub_register p (fun n => n = r) s r eq_refl x H) as [A|[n [En Ex]]]; [now left|]. subst n. right. eauto.
  Qed.

  Theorem scope_with_injections ts : roots_ok_b ts = true ->
    Forall (fun s => forall c q, n_parent (nd p c) = Some q -> plain p c = true -> plain p q = true ->
                                 started (st s c) = true -> started (st s q) = true)
           (C14_proofs.states p [FVisit 0] (init p) 0 ts).
  Proof.
    intros H. rewrite (states_gstates ts H).
    eapply Forall_impl; [|exact (order_always_upd p WF nat ginject ginject_started ginject_len ginject_ints _)].
    intros s [_ Hs]. exact Hs.
  Qed.

  (* an injection changes only interrupt_registered of the root *)
  Lemma ginject_st s r m : exists i, st (ginject s r) m = set_cond (st s m) (activated (st s m)) i (run_count (st s m)).
  Proof.
    assert (Id : st s m = set_cond (st s m) (activated (st s m)) (interrupt_registered (st s m)) (run_count (st s m))) by now destruct (st s m).
    unfold ginject. destruct (n_parent (nd p r)); [eauto|]. unfold inject, register_interrupt.
    destruct (in_ended_block p s r); [eauto|]. set (s1 := with_ints s _ _). rewrite st_set_ns.
    destruct (Nat.eqb m r && Nat.ltb r (length (nodes s1))) eqn:C; [|eauto].
    apply andb_prop in C as [C _]. apply Nat.eqb_eq in C. subst m. eauto.
  Qed.
  Lemma ginject_activated s r m : activated (st (ginject s r) m) = activated (st s m).
  Proof. destruct (ginject_st s r m) as [i E]. now rewrite E. Qed.
  Lemma ginject_lk s r m : lk (st (ginject s r) m) = lk (st s m).
  Proof. destruct (ginject_st s r m) as [i E]. now rewrite E. Qed.

  (* a Watch body -- of the method or of a snippet -- runs only after the Watch was activated *)
  Theorem activation_with_injections ts : roots_ok_b ts = true ->
    Forall (fun s => forall c q, n_parent (nd p c) = Some q -> n_kind (nd p q) = KWatch -> plain p c = true -> plain p q = true ->
                                 started (st s c) = true -> activated (st s q) = true)
           (C14_proofs.states p [FVisit 0] (init p) 0 ts).
  Proof.
    intros H. rewrite (states_gstates ts H).
    eapply Forall_impl; [|exact (activation_always_upd p WF nat ginject ginject_activated ginject_started ginject_ints _)].
    intros s Hs c q Pq K Pc Pl Sc. apply (Hs c q Pq Pc Sc Pl). unfold isW. now rewrite K.
  Qed.
  (* a Block body -- of the method or of a snippet -- runs only once the block took the lock *)
  Theorem lock_with_injections ts : roots_ok_b ts = true ->
    Forall (fun s => forall c q, n_parent (nd p c) = Some q -> n_kind (nd p q) = KBlock -> plain p c = true -> plain p q = true ->
                                 started (st s c) = true ->
                                 lock_acquired (st s q) = true \/ block_ended (st s q) = true \/ completed (st s q) = true)
           (C14_proofs.states p [FVisit 0] (init p) 0 ts).
  Proof.
    intros H. rewrite (states_gstates ts H).
    eapply Forall_impl; [|exact (lock_always_upd p WF nat ginject ginject_lk ginject_started ginject_len ginject_ints _)].
    intros s [_ Hs] c q Pq K Pc Pl Sc.
    assert (X : lk (st s q) = true) by (apply (Hs c q Pq Pc Sc Pl); unfold isB; now rewrite K).
    unfold lk in X. apply orb_true_iff in X as [X|X]; [apply orb_true_iff in X as [X|X]|]; auto.
  Qed.
End InjRuns.
