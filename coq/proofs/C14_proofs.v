(* C14: facts about injection in the interpreter model. *)
From Coq Require Import ZArith List Bool Arith Lia.
From OP Require Import lib.Obs model.Interp model.InterpRun model.C14 proofs.Interp_inv proofs.C05_proofs proofs.Interp_fields proofs.C02_proofs.
Import ListNotations.
Open Scope Z_scope.

Section Inject.
  Variable p : program.

  (* the injection itself touches no line: it registers the snippet's root and changes nothing else *)
  Lemma inject_other s r m : m <> r -> st (inject p s r) m = st s m.
  Proof.
    intros N. unfold inject, register_interrupt. destruct (in_ended_block p s r); [reflexivity|].
    set (s1 := with_ints s _ _). rewrite st_set_ns. destruct (Nat.eqb m r) eqn:E; [apply Nat.eqb_eq in E; contradiction|reflexivity].
  Qed.
  Lemma inject_root s r : started (st (inject p s r) r) = started (st s r) /\ completed (st (inject p s r) r) = completed (st s r).
  Proof.
    unfold inject, register_interrupt. destruct (in_ended_block p s r); [split; reflexivity|].
    set (s1 := with_ints s _ _). rewrite st_set_ns. destruct (_ && _); split; reflexivity.
  Qed.
  Lemma injects_started_completed l : forall s m,
    started (st (fold_left (inject p) l s) m) = started (st s m) /\ completed (st (fold_left (inject p) l s) m) = completed (st s m).
  Proof.
    induction l as [|r l IH]; intros s m; cbn [fold_left]; [split; reflexivity|].
    destruct (IH (inject p s r) m) as [A B]. rewrite A, B. destruct (Nat.eq_dec m r) as [->|N].
    - apply inject_root.
    - rewrite (inject_other s r m N). split; reflexivity.
  Qed.

  (* injected code runs once: over a whole run with injections, outside Alarm bodies an instruction -- of the method or of a
     snippet -- that has started stays started and one that has completed stays completed *)
  Fixpoint states (main : stack) (s : S) (now : Z) (ts : list tick_inj) : list S :=
    match ts with
    | [] => []
    | j :: ts' =>
        let t := j_tick j in
        let s0 := fold_left (complete_cmd p) (t_complete t) s in
        let s1 := fold_left (inject p) (j_inject j) s0 in
        let now' := now + 5 * t_dt t in
        let e := {| e_time := now'; e_thr_wait := t_thr_wait t; e_cond_true := t_cond_true t; e_cond_err := t_cond_err t |} in
        match tick p (rounds_of p) (fuel_of p) e main s1 with
        | None => []
        | Some (main', s2, _) => s2 :: states main' s2 now' ts'
        end
    end.
  Theorem run_with_injections_monotone ts : forall main s now m, under_alarm p m = false -> C02_proofs.is_blank p m = false ->
    Forall (fun s' => (started (st s m) = true -> started (st s' m) = true) /\ (completed (st s m) = true -> completed (st s' m) = true))
           (states main s now ts).
  Proof.
    induction ts as [|j ts IH]; intros main s now m U B; cbn [states]; [constructor|].
    set (s0 := fold_left (complete_cmd p) (t_complete (j_tick j)) s).
    set (s1 := fold_left (inject p) (j_inject j) s0).
    destruct (tick p (rounds_of p) (fuel_of p) _ main s1) as [[[main' s2] r]|] eqn:T; [|constructor].
    destruct (cmds_monotone p (t_complete (j_tick j)) s m U) as [C1 C2]. fold s0 in C1, C2.
    destruct (injects_started_completed (j_inject j) s0 m) as [I1 I2]. fold s1 in I1, I2.
    destruct (tick_monotone p _ _ _ _ _ _ _ _ T m U) as [D1 D2].
    assert (E1 : started (st s m) = true -> started (st s2 m) = true) by (intros H; apply D1; [exact B|]; rewrite I1; now apply C1).
    assert (E2 : completed (st s m) = true -> completed (st s2 m) = true) by (intros H; apply D2; rewrite I2; now apply C2).
    constructor; [split; assumption|].
    eapply Forall_impl; [|apply (IH main' s2 _ m U B)]. intros s' [F1 F2]. split; auto.
  Qed.
End Inject.
