(* C12 / C04 over whole runs WITH cancel and force requests (the run function of model/C12.v: command completions, then the
   requests of the tick, then the tick):
   (1) a started line of a Watch body has an activated Watch (the stack invariant of C04_order.v; requests touch neither
       started nor activated flags nor the interrupt map);
   (2) a line outside Alarm / Macro bodies that is cancelled and not activated stays so for the rest of the run: no request
       is carried out on a cancelled node, no tick activates it;
   (3) hence no line of the body of a Watch cancelled before its activation ever starts. *)
From Coq Require Import ZArith List Bool Arith Lia.
From OP Require Import lib.Obs model.Interp model.InterpRun model.C12 proofs.Interp_inv proofs.C05_proofs proofs.Interp_fields
     proofs.C02_proofs proofs.C12_proofs proofs.Interp_stack proofs.C02_order proofs.C04_order.
Import ListNotations.
Open Scope Z_scope.

Section Runs.
  Variable p : program.
  Variable fl : flags.

  Definition apply_req (s : S) (r : req) : S := fst (request p fl s r).
  Lemma requests_fold rs : forall s, fst (requests p fl s rs) = fold_left apply_req rs s.
  Proof.
    induction rs as [|r rs IH]; intros s; cbn [requests fold_left]; [reflexivity|].
    unfold apply_req at 2. destruct (request p fl s r) as [s1 a]. cbn [fst]. rewrite <- IH. now destruct (requests p fl s1 rs).
  Qed.

  (* the states the run of model/C12.v passes through (after every tick) *)
  Fixpoint rstates (main : stack) (s : S) (now : Z) (ts : list tick_req) : list S :=
    match ts with
    | [] => []
    | q :: ts' =>
        let t := q_tick q in
        let s1 := fst (requests p fl (fold_left (complete_cmd p) (t_complete t) s) (q_reqs q)) in
        let now' := now + 5 * t_dt t in
        let e := {| e_time := now'; e_thr_wait := t_thr_wait t; e_cond_true := t_cond_true t; e_cond_err := t_cond_err t |} in
        match tick p (rounds_of p) (fuel_of p) e main s1 with
        | None => []
        | Some (main', s2, _) => s2 :: rstates main' s2 now' ts'
        end
    end.
  (* they are what the correspondence observes *)
  Lemma run_ticks_nodes ts : forall main s now,
    map (fun v => v_nodes (tv_view v)) (run_ticks p fl main s now ts) = map nodes (rstates main s now ts).
  Proof.
    induction ts as [|q ts IH]; intros main s now; cbn [run_ticks rstates map]; [reflexivity|].
    destruct (requests p fl (fold_left (complete_cmd p) (t_complete (q_tick q)) s) (q_reqs q)) as [s1 acc]. cbn [fst].
    destruct (tick p (rounds_of p) (fuel_of p) _ main s1) as [[[main' s2] r]|]; [|reflexivity].
    cbn [map tv_view v_nodes]. now rewrite IH.
  Qed.
  Lemma rstates_gstates ts : forall main s now,
    rstates main s now ts = gstates p req apply_req main s now (map (fun q => (q_tick q, q_reqs q)) ts).
  Proof.
    induction ts as [|q ts IH]; intros main s now; cbn [rstates gstates map]; [reflexivity|].
    rewrite requests_fold. destruct (tick p (rounds_of p) (fuel_of p) _ main _) as [[[main' s2] r]|]; [|reflexivity]. now rewrite IH.
  Qed.

  (* a request changes the cancelled / forced flags of one node and nothing else *)
  Lemma apply_req_st s r m : exists c f, st (apply_req s r) m = set_cf (st s m) c f.
  Proof.
    assert (Id : st s m = set_cf (st s m) (cancelled (st s m)) (forced (st s m))) by now destruct (st s m).
    unfold apply_req, request. destruct (negb (r_offered r)); [cbn [fst]; eauto|].
    destruct (r_cancel r); [destruct (cancellable p fl s (r_node r))|destruct (forcible p fl s (r_node r))]; cbn [fst]; eauto.
    all: rewrite st_set_ns; destruct (Nat.eqb m (r_node r) && Nat.ltb (r_node r) (length (nodes s))) eqn:C; eauto.
    all: apply andb_prop in C as [C _]; apply Nat.eqb_eq in C; subst m; eauto.
  Qed.
  Lemma apply_req_activated s r m : activated (st (apply_req s r) m) = activated (st s m).
  Proof. destruct (apply_req_st s r m) as [c [f E]]. now rewrite E. Qed.
  Lemma apply_req_started s r m : started (st (apply_req s r) m) = started (st s m).
  Proof. destruct (apply_req_st s r m) as [c [f E]]. now rewrite E. Qed.
  Lemma apply_req_ints s r : ints (apply_req s r) = ints s.
  Proof.
    unfold apply_req, request. destruct (negb (r_offered r)); [reflexivity|].
    destruct (r_cancel r); [destruct (cancellable p fl s (r_node r))|destruct (forcible p fl s (r_node r))]; reflexivity.
  Qed.

  (* ---------- (1) ---------- *)
  Theorem req_watch_body_only_after_activation ts : wf_b p = true ->
    Forall (fun s => forall c q, n_parent (nd p c) = Some q -> n_kind (nd p q) = KWatch -> plain p c = true -> plain p q = true ->
                                 started (st s c) = true -> activated (st s q) = true)
           (rstates [FVisit 0] (init p) 0 ts).
  Proof.
    intros W. rewrite rstates_gstates.
    eapply Forall_impl; [|exact (activation_always_upd p W req apply_req apply_req_activated apply_req_started
                                         (fun s u x H => or_introl (eq_ind _ (fun l => In x l) H _ (apply_req_ints s u))) _)].
    intros s H c q Pq K Pc Pl Sc. apply (H c q Pq Pc Sc Pl). unfold isW. now rewrite K.
  Qed.

  (* ---------- (2) ---------- *)
  Definition dead (q : nat) (s : S) : Prop := cancelled (st s q) = true /\ activated (st s q) = false.
  Lemma dead_req q s r : dead q s -> dead q (apply_req s r).
  Proof.
    intros [C A]. unfold apply_req, request. destruct (negb (r_offered r)); [now split|].
    destruct (Nat.eq_dec q (r_node r)) as [E|N].
    - subst q. unfold cancellable, forcible. rewrite C. cbn [negb andb]. rewrite !andb_false_r.
      destruct (r_cancel r); destruct (is_condnode p (r_node r)); cbn [fst]; now split.
    - destruct (r_cancel r); [destruct (cancellable p fl s (r_node r))|destruct (forcible p fl s (r_node r))]; cbn [fst]; try now split.
      all: unfold dead; rewrite st_set_ns; destruct (Nat.eqb q (r_node r)) eqn:E; [apply Nat.eqb_eq in E; contradiction|now split].
  Qed.
  Lemma dead_reqs q rs : forall s, dead q s -> dead q (fold_left apply_req rs s).
  Proof. induction rs as [|r rs IH]; intros s H; cbn [fold_left]; [exact H|]. apply IH. now apply dead_req. Qed.
  Lemma dead_cmds q l : forall s, dead q s -> dead q (fold_left (complete_cmd p) l s).
  Proof.
    induction l as [|n l IH]; intros s H; cbn [fold_left]; [exact H|]. apply IH. unfold complete_cmd.
    destruct (n_kind (nd p n)); try exact H. destruct (started (st s n) && negb (completed (st s n))); [|exact H].
    unfold mark_completed. destruct (failed (st s n)); [exact H|]. destruct H as [C A]. unfold dead. rewrite st_set_ns.
    destruct (Nat.eqb q n && Nat.ltb n (length (nodes s))) eqn:E; [|now split].
    apply andb_prop in E as [E _]. apply Nat.eqb_eq in E. subst. now split.
  Qed.

  (* P holds from the first state on in which it holds / implies Q from then on *)
  Fixpoint from_then (P Qp : S -> Prop) (l : list S) : Prop :=
    match l with [] => True | s :: l' => (P s -> Qp s /\ Forall Qp l') /\ from_then P Qp l' end.

  Lemma dead_run q ts : under_alarm p q = false -> forall main s now, dead q s -> Forall (dead q) (rstates main s now ts).
  Proof.
    intros U. induction ts as [|t ts IH]; intros main s now H; cbn [rstates]; [constructor|].
    rewrite requests_fold. set (s1 := fold_left apply_req _ _).
    assert (H1 : dead q s1) by (apply dead_reqs; now apply dead_cmds).
    destruct (tick p (rounds_of p) (fuel_of p) _ main s1) as [[[main' s2] r]|] eqn:Tk; [|constructor].
    destruct (tick_cancelled p _ _ _ _ _ _ _ _ Tk q U) as [K1 K2]. destruct H1 as [C A].
    assert (H2 : dead q s2) by (split; auto). constructor; [exact H2|now apply IH].
  Qed.
  Theorem cancelled_unactivated_stays ts q : under_alarm p q = false ->
    forall main s now, from_then (dead q) (dead q) (rstates main s now ts).
  Proof.
    intros U. induction ts as [|t ts IH]; intros main s now; cbn [rstates from_then]; [exact I|].
    destruct (tick p (rounds_of p) (fuel_of p) _ main _) as [[[main' s2] r]|] eqn:Tk; [|exact I].
    cbn [from_then]. split; [|apply IH]. intros H. split; [exact H|]. now apply dead_run.
  Qed.

  (* ---------- (3) ---------- *)
  Lemma from_then_impl (P Q1 Q2 : S -> Prop) l : Forall (fun s => Q1 s -> Q2 s) l -> from_then P Q1 l -> from_then P Q2 l.
  Proof.
    induction l as [|s l IH]; intros F H; cbn [from_then] in *; [exact I|].
    destruct H as [H1 H2]. split; [|apply IH; [exact (Forall_inv_tail F)|exact H2]].
    intros Ps. destruct (H1 Ps) as [A B]. split; [exact (Forall_inv F A)|].
    pose proof (Forall_inv_tail F) as Ft. clear - B Ft. induction B as [|x l' Hx B IHB]; [constructor|].
    constructor; [exact (Forall_inv Ft Hx)|apply IHB; exact (Forall_inv_tail Ft)].
  Qed.
  Theorem cancelled_watch_body_never_starts ts q : wf_b p = true -> n_kind (nd p q) = KWatch -> plain p q = true ->
    from_then (dead q)
              (fun s => forall c, n_parent (nd p c) = Some q -> plain p c = true -> started (st s c) = false)
              (rstates [FVisit 0] (init p) 0 ts).
  Proof.
    intros W K Pl.
    assert (U : under_alarm p q = false).
    { unfold plain in Pl. destruct (under_alarm p q); [|reflexivity]. cbn in Pl. now rewrite andb_false_r in Pl. }
    eapply from_then_impl; [|apply (cancelled_unactivated_stays ts q U)].
    eapply Forall_impl; [|exact (req_watch_body_only_after_activation ts W)].
    intros s H [C A] c Pq Pc. destruct (started (st s c)) eqn:Sc; [|reflexivity].
    rewrite (H c q Pq K Pc Pl Sc) in A. discriminate.
  Qed.
End Runs.
