(* C08: proofs. *)
From Coq Require Import ZArith List Bool Arith Lia.
From OP Require Import lib.Obs model.Eng model.EngRun model.C08 proofs.Eng_prims.
Import ListNotations.
Open Scope Z_scope.

Lemma mon8_app st sf l : forall s l',
  mon8 st sf s (l ++ l') = match mon8 st sf s l with Some s' => mon8 st sf s' l' | None => None end.
Proof.
  induction l as [|x l IH]; intros s l'; [reflexivity|].
  cbn [app mon8]. destruct (ev8 st sf s x); [apply IH|reflexivity].
Qed.

(* ---------- safe values of a list of outputs ---------- *)
Lemma safe_after_apply sf : forall o i ex, safe_vals i ex sf (snd (safe_from i sf o)) = true.
Proof.
  induction sf as [|s sf IH]; intros o i ex; [destruct o; reflexivity|].
  destruct o as [|v o]; [reflexivity|]. cbn [safe_from].
  specialize (IH o (S i) ex). destruct (safe_from (S i) sf o) as [c o'']. cbn [snd] in IH.
  destruct s as [x|]; cbn [snd safe_vals]; rewrite IH; [rewrite Z.eqb_refl, orb_true_r|]; reflexivity.
Qed.

Lemma memn_cons k j ex : memn k (j :: ex) = Nat.eqb k j || memn k ex.
Proof. reflexivity. Qed.

Lemma safe_vals_mono sf : forall o i ex ex', (forall k, memn k ex = true -> memn k ex' = true) ->
  safe_vals i ex sf o = true -> safe_vals i ex' sf o = true.
Proof.
  induction sf as [|s sf IH]; intros o i ex ex' M H; [destruct o; reflexivity|].
  destruct o as [|v o]; [reflexivity|]. cbn [safe_vals] in *. apply andb_prop in H as [H1 H2].
  rewrite (IH _ _ _ _ M H2), andb_true_r. destruct s as [x|]; [|reflexivity].
  apply orb_prop in H1 as [H1|H1]; [rewrite (M _ H1); reflexivity|rewrite H1; apply orb_true_r].
Qed.
Lemma safe_hw_mono sf : forall h i ex ex', (forall k, memn k ex = true -> memn k ex' = true) ->
  safe_hw i ex sf h = true -> safe_hw i ex' sf h = true.
Proof.
  induction sf as [|s sf IH]; intros h i ex ex' M H; [destruct h; reflexivity|].
  destruct h as [|v h]; [reflexivity|]. cbn [safe_hw] in *. apply andb_prop in H as [H1 H2].
  rewrite (IH _ _ _ _ M H2), andb_true_r. destruct s as [x|]; [|reflexivity].
  apply orb_prop in H1 as [H1|H1]; [rewrite (M _ H1); reflexivity|rewrite H1; apply orb_true_r].
Qed.

Lemma safe_upd sf : forall o i j v ex, safe_vals i ex sf o = true ->
  safe_vals i ((i + j)%nat :: ex) sf (upd_nth o j v) = true.
Proof.
  induction sf as [|s sf IH]; intros o i j v ex H; [destruct o, j; reflexivity|].
  destruct o as [|w o]; [reflexivity|]. cbn [safe_vals] in H. apply andb_prop in H as [H1 H2].
  destruct j as [|j]; cbn [upd_nth safe_vals].
  - rewrite Nat.add_0_r. apply andb_true_intro. split.
    + destruct s; [|reflexivity]. rewrite memn_cons, Nat.eqb_refl. reflexivity.
    + apply (safe_vals_mono sf o (S i) ex); [|exact H2]. intros k Hk. rewrite memn_cons, Hk. apply orb_true_r.
  - apply andb_true_intro. split.
    + destruct s as [x|]; [|reflexivity]. rewrite memn_cons. apply orb_prop in H1 as [H1|H1];
        [rewrite H1, orb_true_r; reflexivity|rewrite H1; apply orb_true_r].
    + replace (i + S j)%nat with (S i + j)%nat by lia. apply IH. exact H2.
Qed.

Lemma safe_hw_map sf : forall o i ex, safe_hw i ex sf (map Some o) = safe_vals i ex sf o.
Proof.
  induction sf as [|s sf IH]; intros o i ex; [destruct o; reflexivity|].
  destruct o as [|v o]; [reflexivity|]. cbn [map safe_hw safe_vals]. now rewrite IH.
Qed.

Section C08.
  Variable safe : list (option Z).
  Variable overlaps : list (list nat).

  Record Q8s (e : E) (s : st8) : Prop := {
    q_act : started e = true -> active s = true;
    q_idle_act : active s = true -> idle_ok s = false;
    q_tags : forall ex w, pausing s = Some (ex, w) -> safe_vals 0 ex safe (outs e) = true;
    q_idle : idle_ok s = true -> safe_hw 0 [] safe (hw e) = true;
    q_hw : forall ex, pausing s = Some (ex, true) -> safe_hw 0 ex safe (hw e) = true }.
  Definition Q8 (e : E) : Prop := exists s, mon8 false safe st_boot (trace e) = Some s /\ Q8s e s.

  Lemma Q8s_same e e' s : outs e' = outs e -> hw e' = hw e -> started e' = started e -> Q8s e s -> Q8s e' s.
  Proof. intros Ho Hh Hs [A B C D F]. split; rewrite ?Ho, ?Hh, ?Hs; assumption. Qed.

  Lemma Q8_same e e' : trace e' = trace e -> outs e' = outs e -> hw e' = hw e -> started e' = started e -> Q8 e -> Q8 e'.
  Proof. intros Ht Ho Hh Hs [s [M K]]. exists s. rewrite Ht. split; [exact M|]. now apply (Q8s_same e). Qed.

  Definition silent8 (x : ev) : bool :=
    match x with EUInit _ _ | EUExec _ _ _ | EUFinal _ _ | EClock _ _ _ _ | EError => true | _ => false end.
  Lemma silent8_ev x s : silent8 x = true -> ev8 false safe s x = Some s.
  Proof. destruct x; try discriminate; reflexivity. Qed.

  (* one more event, with the state components given *)
  Lemma Q8_event e e' x : trace e' = trace e ++ [x] ->
    (forall s, Q8s e s -> exists s', ev8 false safe s x = Some s' /\ Q8s e' s') -> Q8 e -> Q8 e'.
  Proof.
    intros Ht K [s [M Qs]]. destruct (K s Qs) as [s' [E1 Q']]. exists s'. split; [|exact Q'].
    rewrite Ht, mon8_app, M. cbn [mon8]. now rewrite E1.
  Qed.

  Lemma Q8_emit_silent e x : silent8 x = true -> Q8 e -> Q8 (emit e x).
  Proof.
    intros S. eapply Q8_event; [reflexivity|]. intros s Qs. exists s. split; [now apply silent8_ev|].
    now apply (Q8s_same e).
  Qed.

  Lemma Q8_write e : Q8 e -> Q8 (write_image e).
  Proof.
    intros H. unfold write_image. destruct (negb (started e)) eqn:Es; [exact H|]. destruct (wok e).
    - revert H. eapply Q8_event; [reflexivity|]. intros s Qs. destruct Qs as [A B C D F].
      apply negb_false_iff in Es. rewrite (A Es) in B. cbn [ev8]. rewrite (A Es). cbn [negb].
      destruct (pausing s) as [[ex w]|] eqn:Ep.
      + rewrite (C ex w eq_refl). eexists. split; [reflexivity|].
        split; cbn [active idle_ok pausing emit set_io started outs hw].
        * intros _. reflexivity.
        * intros _. now apply B.
        * intros ex' w' Hx. inversion Hx; subst. now apply (C ex' w).
        * intros Hi. rewrite (B eq_refl) in Hi. discriminate.
        * intros ex' Hx. inversion Hx; subst. rewrite safe_hw_map. now apply (C ex' w).
      + eexists. split; [reflexivity|].
        split; cbn [emit set_io started outs hw].
        * intros _. now apply A.
        * exact (fun _ => B eq_refl).
        * intros ex' w' Hx. rewrite Ep in Hx. discriminate.
        * intros Hi. rewrite (B eq_refl) in Hi. discriminate.
        * intros ex' Hx. rewrite Ep in Hx. discriminate.
    - destruct (last_err e); [exact H|]. unfold set_error_state. apply Q8_emit_silent; [reflexivity|].
      revert H. apply Q8_same; reflexivity.
  Qed.

  Lemma apply_safe_facts e : trace (fst (apply_safe safe e)) = trace e /\ hw (fst (apply_safe safe e)) = hw e
    /\ started (fst (apply_safe safe e)) = started e /\ wok (fst (apply_safe safe e)) = wok e
    /\ last_err (fst (apply_safe safe e)) = last_err e
    /\ forall ex, safe_vals 0 ex safe (outs (fst (apply_safe safe e))) = true.
  Proof.
    unfold apply_safe. pose proof (safe_after_apply safe (outs e) 0) as L.
    destruct (safe_from 0 safe (outs e)) as [c o]. cbn [fst snd set_io trace hw started wok last_err outs] in *.
    repeat split. exact L.
  Qed.

  Lemma Q8_p_update_clocks e dt : Q8 e -> Q8 (update_clocks e dt).
  Proof.
    intros H. unfold update_clocks. cbv zeta. apply Q8_emit_silent; [reflexivity|].
      revert H. apply Q8_same; unfold advance_clocks; cbv zeta; destruct (bpaused e || _); reflexivity.
  Qed.

  Lemma Q8_p_set_out_by e u i v : Q8 e -> Q8 (set_out_by u e i v).
  Proof.
    intros H. unfold set_out_by. revert H. eapply Q8_event; [reflexivity|]. intros s [A B C D F].
      cbn [ev8 orb negb]. rewrite orb_true_r. eexists. split; [reflexivity|].
      split; cbn [active idle_ok pausing emit set_out set_io started outs hw]; try assumption.
      + intros ex w Hx. destruct (pausing s) as [[ex0 w0]|] eqn:Ep; [|discriminate]. inversion Hx; subst.
        apply (safe_upd safe (outs e) 0 i v ex0). now apply (C ex0 w).
      + intros ex Hx. destruct (pausing s) as [[ex0 w0]|] eqn:Ep; [|discriminate]. inversion Hx; subst.
        apply (safe_hw_mono safe (hw e) 0 ex0); [|now apply F]. intros k Hk. rewrite memn_cons, Hk. apply orb_true_r.
  Qed.

  Lemma Q8_p_unpause e : Q8 e -> Q8 (unpause_body e).
  Proof.
    intros H. unfold unpause_body. cbv zeta.
      set (e1 := emit e (EUnpause (prev e))).
      assert (H1 : Q8 e1).
      { revert H. eapply Q8_event; [reflexivity|]. intros s [A B C D F]. eexists. split; [reflexivity|].
        split; cbn [active idle_ok pausing e1 emit started outs hw]; try assumption; discriminate. }
      destruct H1 as [s [M [A B C D F]]].
      assert (Np : pausing s = None).
      { unfold e1 in M. cbn [emit trace] in M. rewrite mon8_app in M.
        destruct (mon8 false safe st_boot (trace e)) as [s0|]; [|discriminate]. cbn [mon8 ev8] in M. inversion M. reflexivity. }
      exists s. cbn [prev set_sys upd_flags].
      destruct (prev e1) as [cp|]; (split; [exact M|]);
        (split; [exact A|exact B|intros ex w Hx; rewrite Np in Hx; discriminate|exact D
                |intros ex Hx; rewrite Np in Hx; discriminate]).
  Qed.

  Lemma Q8_p_unhold e : Q8 e -> Q8 (unhold_body e).
  Proof.
    intros H. revert H. apply Q8_same; unfold unhold_body; destruct (paused e); reflexivity.
  Qed.

  Lemma Q8_p_pause e : Q8 e -> Q8 (pause_begin safe e).
  Proof.
    intros H. unfold pause_begin. cbv zeta. set (e1 := set_sys _ _).
      destruct (apply_safe_facts e1) as [T1 [H1 [S1 [_ [_ L1]]]]]. destruct (apply_safe safe e1) as [e2 c]. cbn [fst] in T1, H1, S1, L1.
      revert H. eapply Q8_event.
      + cbn [set_clk emit set_io trace]. rewrite T1. reflexivity.
      + intros s [A B C D F]. eexists. split; [reflexivity|].
        split; cbn [active idle_ok pausing set_clk emit set_io started outs hw]; rewrite ?H1, ?S1; try assumption.
        * intros ex w _. apply L1.
        * intros ex Hx. destruct (pausing s) as [[ex0 w0]|] eqn:Ep; [|discriminate]. inversion Hx; subst. now apply F.
  Qed.

  Lemma Q8_p_hold e : Q8 e -> Q8 (hold_begin e).
  Proof.
    intros H. revert H. apply Q8_same; unfold hold_begin; destruct (paused e); reflexivity.
  Qed.

  Lemma Q8_p_start_body e : Q8 e -> Q8 (start_body e).
  Proof.
    intros H. revert H. eapply Q8_event; [reflexivity|]. intros s Qs. eexists. split; [reflexivity|].
      split; cbn [active idle_ok pausing]; try reflexivity; discriminate.
  Qed.

  Lemma stop_pre_facts8 e :
    trace (stop_pre safe e) = trace e ++ [EStoppedRun] /\ started (stop_pre safe e) = started e /\
    wok (stop_pre safe e) = wok e /\ hw (stop_pre safe e) = hw e /\
    forall ex, safe_vals 0 ex safe (outs (stop_pre safe e)) = true.
  Proof.
    unfold stop_pre, apply_safe. pose proof (safe_after_apply safe (outs e) 0) as L.
    destruct (safe_from 0 safe (outs e)) as [cap o]. cbn [snd] in L. repeat split. exact L.
  Qed.

  Lemma Q8_p_stop_core e : Q8 e -> Q8 (stop_core safe e).
  Proof.
    intros H. unfold stop_core.
    destruct (stop_pre_facts8 e) as [T4 [S4 [W4 [H4 L4]]]].
    remember (stop_pre safe e) as e4 eqn:E4. clear E4.
    destruct H as [s [M _]].
    set (s4 := {| active := false; idle_ok := false; pausing := None |}).
    assert (M4 : mon8 false safe st_boot (trace e4) = Some s4) by (rewrite T4, mon8_app, M; reflexivity).
    unfold write_image. destruct (negb (started e4)) eqn:Es4; [|destruct (wok e4) eqn:Ew4; [|destruct (last_err e4) eqn:El4]].
    - exists s4. split; [exact M4|]. split; cbn [s4 active idle_ok pausing stop_flags upd_flags started]; discriminate.
    - exists {| active := false; idle_ok := true; pausing := None |}. split.
      + cbn [stop_flags upd_flags emit set_io trace]. rewrite mon8_app, M4. cbn [mon8 ev8 s4 active pausing negb].
        rewrite (L4 []). reflexivity.
      + split; cbn [active idle_ok pausing stop_flags upd_flags emit set_io started hw]; try discriminate.
        intros _. rewrite safe_hw_map. apply L4.
    - exists s4. split; [exact M4|]. split; cbn [s4 active idle_ok pausing stop_flags upd_flags started]; discriminate.
    - exists s4. split.
      + unfold set_error_state. cbn [stop_flags upd_flags emit set_sys set_err trace]. rewrite mon8_app, M4. reflexivity.
      + split; cbn [s4 active idle_ok pausing stop_flags upd_flags started]; discriminate.
  Qed.

  Lemma Q8_p_restart_stop e : Q8 e -> Q8 (restart_stop e).
  Proof.
    intros H. revert H. eapply Q8_event; [reflexivity|]. intros s Qs. eexists. split; [reflexivity|].
      split; cbn [active idle_ok pausing restart_stop upd_flags emit set_run set_sys set_trk set_io started]; discriminate.
  Qed.

  Lemma Q8_p_restart_finish e : Q8 e -> Q8 (restart_finish e).
  Proof.
    intros H. revert H. eapply Q8_event; [reflexivity|]. intros s Qs. eexists. split; [reflexivity|].
      split; cbn [active idle_ok pausing]; try reflexivity; discriminate.
  Qed.

  Lemma Q8_p_set_error_state e : Q8 e -> Q8 (set_error_state e).
  Proof.
    intros H. unfold set_error_state. apply Q8_emit_silent; [reflexivity|]. revert H. apply Q8_same; reflexivity.
  Qed.

  Lemma Q8_p_uinit e n c : Q8 e -> Q8 (put_u (emit e (EUInit n (c_id c))) (inited c)).
  Proof. intros H. apply (Q8_same (emit e (EUInit n (c_id c)))); try reflexivity. now apply Q8_emit_silent. Qed.
  Lemma Q8_p_uexec e n id k : Q8 e -> Q8 (emit e (EUExec n id k)).
  Proof. intros H. now apply Q8_emit_silent. Qed.
  Lemma Q8_p_ufin e c : Q8 e -> Q8 (fin_u e c).
  Proof. intros H. unfold fin_u. apply (Q8_same (emit e (EUFinal (c_name c) (c_id c)))); try reflexivity. now apply Q8_emit_silent. Qed.

  Lemma Q8_prim e e' : prim safe e e' -> Q8 e -> Q8 e'.
  Proof.
    intros P H. destruct P; try (revert H; apply Q8_same; reflexivity).
    - now apply Q8_p_update_clocks.
    - now apply Q8_p_uinit.
    - now apply Q8_p_uexec.
    - now apply Q8_p_ufin.
    - now apply Q8_write.
    - now apply Q8_p_set_out_by.
    - now apply Q8_p_unpause.
    - now apply Q8_p_unhold.
    - now apply Q8_p_pause.
    - now apply Q8_p_hold.
    - now apply Q8_p_start_body.
    - now apply Q8_p_stop_core.
    - now apply Q8_p_restart_stop.
    - now apply Q8_p_restart_finish.
    - now apply Q8_p_set_error_state.
  Qed.

  Lemma Q8_boot n outs0 : Q8 (boot safe (init n outs0)).
  Proof.
    unfold boot. cbv zeta.
    destruct (apply_safe_facts (init n outs0)) as [T1 [H1 [S1 [W1 [E1 L1]]]]].
    set (e1 := fst (apply_safe safe (init n outs0))) in *.
    exists st_after_boot. split.
    - cbn [emit set_io trace]. rewrite T1. cbn [init trace app mon8 ev8 st_boot active negb]. rewrite (L1 []). reflexivity.
    - split; cbn [st_after_boot active idle_ok pausing emit set_io started hw]; try discriminate.
      + rewrite S1. discriminate.
      + intros _. rewrite safe_hw_map. apply L1.
  Qed.

  Theorem Q8_reachable n outs0 ops :
    Q8 (fold_left (fun e o => fst (step safe overlaps e o)) ops (boot safe (init n outs0))).
  Proof. apply (invariant_by_prims safe overlaps Q8 Q8_prim). apply Q8_boot. Qed.
End C08.
