(* C41: in every state of every run the macro registry holds, per entry, a Macro definition node carrying the entry's
   name (so the call dispatch's fallback branch is dead: a registered, non-recursive call always runs the children of a
   definition of the called name); the registry changes only when a definition line is executed. *)
From Coq Require Import ZArith List Bool Arith Lia.
From OP Require Import lib.Obs model.Interp model.InterpRun proofs.Interp_inv.
Import ListNotations.
Open Scope Z_scope.

Section Registry.
  Variable p : program.

  Definition entry_ok (x : nat * nat) : Prop := n_kind (nd p (snd x)) = KMacro (fst x).
  Definition reg_wf (l : list (nat * nat)) : Prop := Forall entry_ok l.
  Definition P (s : S) : Prop := reg_wf (macros s).

  Lemma reg_wf_put l nm m : n_kind (nd p m) = KMacro nm -> reg_wf l -> reg_wf (macro_put l nm m).
  Proof.
    intros K W. induction W as [|[k m0] l H W IH]; cbn [macro_put]; [constructor; [exact K|constructor]|].
    destruct (Nat.eqb k nm) eqn:E.
    - apply Nat.eqb_eq in E. subst k. constructor; [exact K|exact W].
    - constructor; [exact H|exact IH].
  Qed.
  Lemma reg_wf_lookup l nm m : reg_wf l -> macro_lookup l nm = Some m -> n_kind (nd p m) = KMacro nm.
  Proof.
    intros W. induction W as [|[k m0] l H W IH]; cbn [macro_lookup]; [discriminate|].
    destruct (Nat.eqb k nm) eqn:E; [|exact IH]. apply Nat.eqb_eq in E. subst k. intros X. inversion X; subst. exact H.
  Qed.

  (* the elementary updates leave the registry alone *)
  Lemma m_set_ns s n x : macros (set_ns s n x) = macros s. Proof. reflexivity. Qed.
  Lemma m_with_ints s i sr : macros (with_ints s i sr) = macros s. Proof. reflexivity. Qed.
  Lemma m_with_tag s t : macros (with_tag s t) = macros s. Proof. reflexivity. Qed.
  Lemma m_add_mark s n : macros (add_mark s n) = macros s. Proof. reflexivity. Qed.
  Lemma m_add_sched s : macros (add_sched s) = macros s. Proof. reflexivity. Qed.
  Lemma m_set_error s n : macros (set_error s n) = macros s. Proof. reflexivity. Qed.
  Lemma m_complete s n : macros (complete s n) = macros s. Proof. reflexivity. Qed.
  Lemma m_mark_completed s n : macros (mark_completed s n) = macros s.
  Proof. unfold mark_completed. now destruct (failed (st s n)). Qed.
  Lemma m_fold {B} (f : S -> B -> S) : (forall s a, macros (f s a) = macros s) -> forall l s, macros (fold_left f l s) = macros s.
  Proof. intros H. induction l as [|a l IH]; intros s; cbn [fold_left]; [reflexivity|]. now rewrite IH, H. Qed.
  Lemma m_register s n : macros (register_interrupt p s n) = macros s.
  Proof. unfold register_interrupt. now destruct (in_ended_block p s n). Qed.
  Lemma m_unregister s n : macros (unregister_interrupt s n) = macros s. Proof. reflexivity. Qed.
  Lemma m_abort s b : macros (abort_block_interrupts p s b) = macros s.
  Proof. unfold abort_block_interrupts. apply m_fold. intros s0 x. now destruct (memn (fst x) (descendants p b)). Qed.
  Lemma m_end_block s b : macros (end_block p s b) = macros s.
  Proof. unfold end_block. now rewrite m_abort. Qed.
  Lemma m_end_blocks l s : macros (fold_left (end_block p) l s) = macros s.
  Proof. apply m_fold. intros. apply m_end_block. Qed.
  Lemma m_reset_tree s a : macros (reset_tree p s a) = macros s.
  Proof. unfold reset_tree. apply m_fold. reflexivity. Qed.
  Lemma m_try_activate e s n s' : try_activate e s n = Some s' -> macros s' = macros s.
  Proof.
    unfold try_activate. destruct (cancelled (st s n)); [intros H; now inversion H|]. destruct (forced (st s n)); [intros H; now inversion H|].
    destruct (memn n (e_cond_err e)); [discriminate|]. destruct (memn n (e_cond_true e)); intros H; now inversion H.
  Qed.
  Hint Rewrite m_set_ns m_with_ints m_with_tag m_add_mark m_add_sched m_set_error m_complete m_mark_completed m_register
       m_unregister m_abort m_end_block m_end_blocks m_reset_tree : mac.

  Definition out_state (o : outcome) : S := match o with Yield _ _ s' => s' | Go _ s' => s' | Raise _ s' => s' end.

  (* a transition keeps the registry, unless it is the execution of a definition line not yet registered: that puts the
     line under its name and touches no other name *)
  Definition reg_step (f : frame) (s s' : S) : Prop :=
    macros s' = macros s
    \/ exists nm n, f = FNodeTick n /\ n_kind (nd p n) = KMacro nm /\ interrupt_registered (st s n) = false
                    /\ macros s' = macro_put (macros s) nm n.

  Ltac keep := left; cbn [out_state]; autorewrite with mac; reflexivity.
  Ltac cases := repeat match goal with
                       | |- context [match try_activate ?e ?s ?n with _ => _ end] =>
                           let T := fresh "T" in destruct (try_activate e s n) eqn:T; [apply m_try_activate in T|]
                       | |- context [match ?x with _ => _ end] => destruct x eqn:?
                       end.
  Ltac rest := cases; try keep; left; cbn [out_state]; autorewrite with mac; congruence.

  Lemma step_reg e b f k s : reg_step f s (out_state (step p e b f k s)).
  Proof.
    destruct f; cbn [step]; unfold thr_loop, enter, block_wait_end, block_try, block_release, watch_await, alarm_await.
    3: { unfold dispatch, block_try, block_release, watch_await, alarm_await. destruct (n_kind (nd p n)) eqn:K.
         all: try (lazymatch type of K with
                   | _ = KMacro ?nm =>
                       destruct (interrupt_registered (st s n)) eqn:R; [keep|]; right; exists nm, n;
                       repeat split; [exact K|]; cbn [out_state]; now autorewrite with mac
                   end).
         all: rest. }
    all: rest.
  Qed.

  Lemma P_step e b f k s : P s -> outcome_ok P (step p e b f k s).
  Proof.
    intros H. pose proof (step_reg e b f k s) as R.
    assert (G : P (out_state (step p e b f k s))).
    { unfold P in *. destruct R as [R|[nm [n [_ [K [_ R]]]]]]; rewrite R; [exact H|now apply reg_wf_put]. }
    destruct (step p e b f k s); exact G.
  Qed.

  Theorem registry_wf_always ts : Forall P (states p [FVisit 0] (init p) 0 ts).
  Proof.
    apply (run_P p P).
    - intros e b f k s H. now apply P_step.
    - intros s n H. exact H.
    - intros s n sr k H. exact H.
    - intros s n H. unfold P. now rewrite m_mark_completed.
    - intros s H. exact H.
    - constructor.
  Qed.

  (* what a call does in a state with a well-formed registry: nothing but failing or running the children of the
     definition registered under the called name *)
  Theorem call_runs_registered_definition e b n nm k s : P s -> n_kind (nd p n) = KCallMacro nm ->
    dispatch p e b n k s = Raise k s
    \/ exists m s1, macro_lookup (macros s) nm = Some m /\ n_kind (nd p m) = KMacro nm
                    /\ dispatch p e b n k s = Go (FKidsEntry m :: FCallAfter n m :: k) s1.
  Proof.
    intros H K. unfold dispatch. rewrite K. destruct (macro_lookup (macros s) nm) as [m|] eqn:L; [|now left].
    destruct (would_recurse p s nm m); [now left|]. pose proof (reg_wf_lookup _ _ _ H L) as Km. rewrite Km.
    right. eexists m, _. split; [reflexivity|]. split; [exact Km|reflexivity].
  Qed.
End Registry.
