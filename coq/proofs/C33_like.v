(* Supporting finite check for the modelling decision "topics.contains(topic) is list membership":
   SQLite executes  topics LIKE '%' || '"<topic>"' || '%'  on the JSON text of the list, where `_`
   in the pattern matches any character. For every list of at most three topics (a pattern is
   at most as long as two consecutive items, so a match window spans at most three items) the LIKE
   match coincides with membership. *)
From Coq Require Import ZArith List Bool Arith.
From OP Require Import lib.Obs gen.Topics.
Import ListNotations.
Open Scope Z_scope.

Definition quote : Z := 34. Definition underscore : Z := 95. Definition percent : Z := 37.
Definition quoted (n : list Z) : list Z := quote :: n ++ [quote].

Fixpoint join (items : list (list Z)) : list Z :=
  match items with
  | [] => []
  | [x] => x
  | x :: rest => x ++ [44; 32] ++ join rest            (* ", " as json.dumps writes it *)
  end.
Definition json_text (names : list (list Z)) : list Z := 91 :: join (map quoted names) ++ [93].

(* LIKE pattern character match: `_` any one character; `%` does not occur in topic names *)
Fixpoint prefix_match (pat text : list Z) : bool :=
  match pat, text with
  | [], _ => true
  | p :: pat', c :: text' => ((p =? underscore) || (p =? c)) && prefix_match pat' text'
  | _ :: _, [] => false
  end.
Fixpoint like_contains (pat text : list Z) : bool :=
  prefix_match pat text || match text with [] => false | _ :: text' => like_contains pat text' end.

Definition idxs := seq 0 topic_count.
Definition lists_upto3 : list (list nat) :=
  [[]] ++ map (fun a => [a]) idxs ++ flat_map (fun a => map (fun b => [a; b]) idxs) idxs
  ++ flat_map (fun a => flat_map (fun b => map (fun c => [a; b; c]) idxs) idxs) idxs.
Definition name_of (i : nat) : list Z := nth i topic_names [].

Definition check_one (t : nat) (l : list nat) : bool :=
  Bool.eqb (like_contains (quoted (name_of t)) (json_text (map name_of l))) (existsb (Nat.eqb t) l).

Lemma contains_is_membership_upto3 :
  forallb (fun t => forallb (check_one t) lists_upto3) idxs = true.
Proof. vm_compute. reflexivity. Qed.

Lemma no_percent_in_topic_names :
  forallb (fun n => negb (existsb (Z.eqb percent) n)) topic_names = true.
Proof. vm_compute. reflexivity. Qed.
