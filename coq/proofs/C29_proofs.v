From Coq Require Import ZArith List Bool Arith Lia.
From OP Require Import lib.Obs model.C29.
Import ListNotations.
Open Scope Z_scope.

(* ---------- max ---------- *)
Lemma max_time_ge ts : forall acc, acc <= max_time ts acc /\ (forall t, In t ts -> r_time t <= max_time ts acc).
Proof.
  induction ts as [|t ts IH]; intros acc; cbn; [split; [lia|tauto]|].
  destruct (IH (Z.max acc (r_time t))) as [H1 H2]. split; [lia|].
  intros t' [<-|Hin]; [lia|auto].
Qed.

Lemma max_time_attained ts : forall acc,
  max_time ts acc = acc \/ exists t, In t ts /\ r_time t = max_time ts acc.
Proof.
  induction ts as [|t ts IH]; intros acc; cbn; [now left|].
  destruct (IH (Z.max acc (r_time t))) as [H|[t' [Hin Ht']]].
  - destruct (Z.max_spec acc (r_time t)) as [[_ E]|[_ E]]; rewrite E in H.
    + right. exists t. split; [now left|]. rewrite E. now rewrite H.
    + left. rewrite E. exact H.
  - right. exists t'. split; [now right|exact Ht'].
Qed.

Lemma maxt_spec ts m : maxt ts = Some m ->
  (forall t, In t ts -> r_time t <= m) /\ (exists t, In t ts /\ r_time t = m).
Proof.
  destruct ts as [|t ts]; cbn; [discriminate|]. intros H. inversion H; subst. clear H.
  destruct (max_time_ge ts (r_time t)) as [H1 H2]. split.
  - intros t' [<-|Hin]; [exact H1|auto].
  - destruct (max_time_attained ts (r_time t)) as [E|[t' [Hin E]]].
    + exists t. split; [now left|now rewrite E].
    + exists t'. split; [now right|exact E].
Qed.

Lemma maxt_none ts : maxt ts = None -> ts = [].
Proof. destruct ts; [reflexivity|discriminate]. Qed.

(* ---------- invariant ---------- *)
Fixpoint spaced (i : Z) (rs : list row) : Prop :=
  match rs with
  | [] => True
  | w :: rs' => Forall (fun w' => w_time w' = w_time w \/ i < w_time w' - w_time w) rs' /\ spaced i rs'
  end.

(* per tag, engine times of recorded values never go back *)
Fixpoint never_older (rs : list row) : Prop :=
  match rs with
  | [] => True
  | w :: rs' => Forall (fun w' => w_name w' = w_name w -> w_engine_time w < w_engine_time w') rs'
                /\ never_older rs'
  end.

Record Inv (i : Z) (hist : list report) (s : st) : Prop := {
  i_bound : match lp s with
            | Some l => Forall (fun w => w_time w <= l /\ w_engine_time w <= l) (rows s)
            | None => rows s = [] end;
  i_spaced : spaced i (rows s);
  i_older : never_older (rows s);
  i_hist : forall t, In t (tags s) -> In t hist;
  i_faithful : Forall (fun w => w_engine_time w <= w_time w /\
                 In {| r_name := w_name w; r_val := w_val w; r_time := w_engine_time w |} hist) (rows s)
}.

Lemma spaced_app i rs new h :
  spaced i rs -> Forall (fun w => w_time w = h) new ->
  Forall (fun w => i < h - w_time w) rs -> spaced i (rs ++ new).
Proof.
  intros Hs Hn Hgap. induction rs as [|w rs IH]; cbn.
  - induction new as [|n new IHn]; cbn; [exact I|]. inversion Hn; subst. split; [|auto].
    rewrite Forall_forall in *. intros w' Hw'. left. rewrite (H2 w' Hw'). reflexivity.
  - destruct Hs as [H1 H2]. inversion Hgap; subst. split; [|auto].
    apply Forall_app. split; [exact H1|]. rewrite Forall_forall in *. intros w' Hw'. right.
    rewrite (Hn w' Hw'). assumption.
Qed.

Lemma never_older_app rs new l :
  never_older rs -> Forall (fun w => w_engine_time w <= l) rs ->
  Forall (fun w => l < w_engine_time w) new -> NoDup (map w_name new) -> never_older (rs ++ new).
Proof.
  intros Ho Hl Hn Hnd. induction rs as [|w rs IH]; cbn.
  - clear Hl. induction new as [|n new IHn]; cbn; [exact I|].
    inversion Hn; subst. cbn in Hnd. inversion Hnd; subst. split; [|auto].
    rewrite Forall_forall. intros w' Hw' E. exfalso. apply H3. rewrite <- E. now apply in_map.
  - destruct Ho as [H1 H2]. inversion Hl; subst. split; [|auto].
    apply Forall_app. split; [exact H1|]. rewrite Forall_forall in *. intros w' Hw' _.
    specialize (Hn w' Hw'). lia.
Qed.

Lemma never_older_nodup new : NoDup (map w_name new) -> never_older new.
Proof.
  induction new as [|n new IHn]; cbn; intros Hnd; [exact I|]. inversion Hnd; subst. split; [|auto].
  rewrite Forall_forall. intros w' Hw' E. exfalso. apply H1. rewrite <- E. now apply in_map.
Qed.

Lemma upsert_in ts r t : In t (upsert ts r) -> t = r \/ In t ts.
Proof.
  induction ts as [|x ts IH]; cbn; [intuition|].
  destruct (Nat.eqb (r_name x) (r_name r)); cbn; intuition.
Qed.

Lemma upsert_names ts r : NoDup (map r_name ts) -> NoDup (map r_name (upsert ts r)).
Proof.
  induction ts as [|x ts IH]; cbn; intros H; [constructor; [tauto|constructor]|].
  inversion H as [|a l Hnin Hnd]; subst. destruct (Nat.eqb (r_name x) (r_name r)) eqn:E; cbn.
  - apply Nat.eqb_eq in E. rewrite <- E. now constructor.
  - apply Nat.eqb_neq in E. constructor; [|auto]. intros Hin. apply in_map_iff in Hin as [t [Et Ht]].
    apply upsert_in in Ht as [->|Ht]; [congruence|]. apply Hnin. rewrite <- Et. now apply in_map.
Qed.

Lemma fold_upsert_in msg : forall ts t, In t (fold_left upsert msg ts) -> In t msg \/ In t ts.
Proof.
  induction msg as [|r msg IH]; intros ts t H; cbn in *; [now right|].
  apply IH in H as [H|H]; [left; now right|]. apply upsert_in in H as [->|H]; [left; now left|now right].
Qed.
Lemma fold_upsert_names msg : forall ts, NoDup (map r_name ts) -> NoDup (map r_name (fold_left upsert msg ts)).
Proof. induction msg as [|r msg IH]; intros ts H; cbn; [exact H|]. apply IH, upsert_names, H. Qed.

Lemma nodup_map_filter {A B} (f : A -> B) (p : A -> bool) l : NoDup (map f l) -> NoDup (map f (filter p l)).
Proof.
  induction l as [|x l IH]; cbn; intros H; [constructor|]. inversion H; subst.
  destruct (p x); cbn; [|auto]. constructor; [|auto]. intros Hin. apply H2.
  apply in_map_iff in Hin as [y [E Hy]]. apply filter_In in Hy as [Hy _]. rewrite <- E. now apply in_map.
Qed.

Definition interval_ok (interval : option Z) : Prop :=
  match interval with Some i => 0 <= i | None => True end.
Definition ival (interval : option Z) : Z := match interval with Some i => i | None => 0 end.

Lemma persist_inv interval entries hist s :
  interval_ok interval -> NoDup (map r_name (tags s)) ->
  Inv (ival interval) hist s -> Inv (ival interval) hist (persist interval entries s).
Proof.
  intros Hiv Hnd [Hb Hs Ho Hh Hf]. unfold persist.
  set (latest := match maxt (tags s) with Some m => m | None => 0 end).
  destruct (match lp s with
            | None => true
            | Some l => match interval with None => false | Some i => i <? latest - l end end) eqn:Eex;
    [|constructor; assumption].
  set (tp := filter (newer (lp s)) (tags s)).
  destruct (maxt tp) as [h|] eqn:Eh; [|constructor; assumption].
  destruct (maxt_spec tp h Eh) as [Hle [tm [Htm Etm]]].
  set (kept := filter (fun t => existsb (Nat.eqb (r_name t)) entries) tp).
  assert (Hkept : forall t, In t kept -> In t (tags s) /\ newer (lp s) t = true /\ r_time t <= h).
  { intros t Ht. apply filter_In in Ht as [Ht _]. split; [|split].
    - now apply filter_In in Ht.
    - now apply filter_In in Ht.
    - now apply Hle. }
  set (new := map (fun t => {| w_name := r_name t; w_val := r_val t; w_time := h; w_engine_time := r_time t |}) kept).
  assert (Hnew : forall w, In w new -> w_time w = h /\ w_engine_time w <= h /\
             (exists t, In t (tags s) /\ newer (lp s) t = true /\ w_name w = r_name t /\ w_val w = r_val t
                        /\ w_engine_time w = r_time t)).
  { intros w Hw. apply in_map_iff in Hw as [t [<- Ht]]. cbn. destruct (Hkept t Ht) as [H1 [H2 H3]].
    repeat split; [exact H3|]. exists t. auto. }
  (* the gap to everything recorded before *)
  assert (Hgap : match lp s with Some l => ival interval < h - l /\ l < h | None => True end).
  { destruct (lp s) as [l|] eqn:El; [|exact I].
    destruct interval as [i|]; [|discriminate]. apply Z.ltb_lt in Eex. cbn in Hiv. cbn [ival].
    (* the maximal tag is newer than l, hence in tp, hence h >= latest *)
    destruct (maxt (tags s)) as [m|] eqn:Em.
    - destruct (maxt_spec _ _ Em) as [_ [t0 [Ht0 Et0]]]. unfold latest in Eex.
      assert (Hin0 : In t0 tp).
      { apply filter_In. split; [exact Ht0|]. cbn. apply Z.ltb_lt. lia. }
      specialize (Hle t0 Hin0). lia.
    - apply maxt_none in Em. unfold tp in Htm. rewrite Em in Htm. contradiction. }
  constructor; cbn [tags lp rows raised].
  - apply Forall_app. split.
    + destruct (lp s) as [l|] eqn:El.
      * destruct Hgap as [_ Hlt]. eapply Forall_impl; [|exact Hb]. cbn. intros w [H1 H2]. lia.
      * rewrite Hb. constructor.
    + rewrite Forall_forall. intros w Hw. destruct (Hnew w Hw) as [H1 [H2 _]]. lia.
  - apply spaced_app with (h := h); [exact Hs| |].
    + rewrite Forall_forall. intros w Hw. now destruct (Hnew w Hw).
    + destruct (lp s) as [l|] eqn:El.
      * destruct Hgap as [Hg _]. eapply Forall_impl; [|exact Hb]. cbn. intros w [H1 _]. lia.
      * rewrite Hb. constructor.
  - destruct (lp s) as [l|] eqn:El.
    + apply never_older_app with (l := l); [exact Ho| | |].
      * eapply Forall_impl; [|exact Hb]. cbn. tauto.
      * rewrite Forall_forall. intros w Hw. destruct (Hnew w Hw) as [_ [_ [t [_ [Hn [_ [_ Et]]]]]]].
        cbn in Hn. apply Z.ltb_lt in Hn. lia.
      * unfold new. rewrite map_map. cbn. unfold kept, tp. now repeat apply nodup_map_filter.
    + rewrite Hb. cbn [app]. apply never_older_nodup.
      unfold new. rewrite map_map. cbn. unfold kept, tp. now repeat apply nodup_map_filter.
  - exact Hh.
  - apply Forall_app. split; [exact Hf|]. rewrite Forall_forall. intros w Hw.
    destruct (Hnew w Hw) as [H1 [H2 [t [Ht [_ [En [Ev Et]]]]]]]. split; [lia|].
    rewrite En, Ev, Et. destruct t. cbn. now apply Hh.
Qed.

Lemma inv_hist_mono i h1 h2 s : (forall t, In t h1 -> In t h2) -> Inv i h1 s -> Inv i h2 s.
Proof.
  intros Hsub [Hb Hs Ho Hh Hf]. constructor; try assumption.
  - intros t Ht. auto.
  - eapply Forall_impl; [|exact Hf]. cbn. intros w [H1 H2]. split; [exact H1|auto].
Qed.

Definition Inv2 (i : Z) (hist : list report) (s : st) : Prop :=
  Inv i hist s /\ NoDup (map r_name (tags s)).

Lemma persist_tags interval entries s : tags (persist interval entries s) = tags s.
Proof.
  unfold persist. destruct (match lp s with None => true | Some l => _ end); [|reflexivity].
  destruct (maxt _); reflexivity.
Qed.

Lemma message_inv interval entries hist s msg :
  interval_ok interval ->
  Inv2 (ival interval) hist s -> Inv2 (ival interval) (hist ++ msg) (message interval entries s msg).
Proof.
  intros Hiv [HI Hnd]. unfold message. destruct (raised s).
  - split; [|exact Hnd]. eapply inv_hist_mono; [|exact HI]. intros t Ht. apply in_or_app. now left.
  - set (s1 := {| tags := fold_left upsert msg (tags s); lp := lp s; rows := rows s; raised := false |}).
    assert (Hnd1 : NoDup (map r_name (tags s1))) by (apply fold_upsert_names, Hnd).
    split; [|rewrite persist_tags; exact Hnd1].
    apply persist_inv; [exact Hiv|exact Hnd1|].
    destruct HI as [Hb Hs Ho Hh Hf]. constructor; cbn [tags lp rows raised s1]; try assumption.
    + intros t Ht. apply fold_upsert_in in Ht as [Ht|Ht]; apply in_or_app; [now right|left; auto].
    + eapply Forall_impl; [|exact Hf]. cbn. intros w [H1 H2]. split; [exact H1|]. apply in_or_app. now left.
Qed.

Lemma init_inv i : Inv2 i [] init.
Proof. split; [|constructor]. constructor; cbn; auto. Qed.

Lemma run_inv interval entries msgs : forall hist s,
  interval_ok interval -> Inv2 (ival interval) hist s ->
  Inv2 (ival interval) (hist ++ concat msgs) (fold_left (message interval entries) msgs s).
Proof.
  induction msgs as [|m msgs IH]; intros hist s Hiv HI; cbn.
  - now rewrite app_nil_r.
  - rewrite app_assoc. apply IH; [exact Hiv|]. now apply message_inv.
Qed.

Lemma reachable interval entries msgs :
  interval_ok interval ->
  Inv (ival interval) (concat msgs) (run_msgs interval entries msgs).
Proof.
  intros Hiv. exact (proj1 (run_inv interval entries msgs [] init Hiv (init_inv _))).
Qed.

(* with an infinite interval at most one batch is ever written *)
Lemma inf_one_batch entries s :
  lp s <> None -> persist None entries s = s.
Proof. unfold persist. destruct (lp s); [reflexivity|congruence]. Qed.
