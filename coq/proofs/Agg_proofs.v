From Coq Require Import ZArith List Bool Arith Lia.
From OP Require Import lib.Obs model.C29 model.Agg.
Import ListNotations.
Open Scope Z_scope.

Lemma er_eqb_eq a b : er_eqb a b = true <-> a = b.
Proof.
  destruct a as [e1 r1], b as [e2 r2]. unfold er_eqb. cbn.
  rewrite andb_true_iff, Nat.eqb_eq, Z.eqb_eq. split; [intros [-> ->]; reflexivity|intros H; inversion H; auto].
Qed.

Lemma existsb_er_false l p : existsb (er_eqb p) l = false -> ~ In p l.
Proof.
  intros H Hin. assert (existsb (er_eqb p) l = true); [|congruence].
  apply existsb_exists. exists p. split; [exact Hin|now apply er_eqb_eq].
Qed.

Lemma NoDup_snoc {A} (l : list A) x : NoDup l -> ~ In x l -> NoDup (l ++ [x]).
Proof.
  induction l as [|y l IH]; cbn; intros Hnd Hnin; [constructor; [tauto|constructor]|].
  inversion Hnd; subst. constructor.
  - intros Hin. apply in_app_or in Hin as [Hin|[<-|[]]]; [contradiction|]. apply Hnin. now left.
  - apply IH; [assumption|]. intros Hin. apply Hnin. now right.
Qed.

(* ---------- C30: one plot log per run, for ALL histories (crashes included) ---------- *)
Definition PL (d : db) : Prop := NoDup (plot_logs d).

Lemma pl_create d e r : PL d -> PL (create_plot_log d e r).
Proof.
  unfold PL, create_plot_log. intros H. destruct (has_plot_log d e r) eqn:E; [exact H|]. cbn.
  apply NoDup_snoc; [exact H|]. now apply existsb_er_false.
Qed.

Lemma recent_runs_create d e r : recent_runs (create_plot_log d e r) = recent_runs d.
Proof. unfold create_plot_log. destruct (has_plot_log d e r); reflexivity. Qed.
Lemma recent_engines_create d e r : recent_engines (create_plot_log d e r) = recent_engines d.
Proof. unfold create_plot_log. destruct (has_plot_log d e r); reflexivity. Qed.

Lemma pl_store_engines l : forall d, plot_logs (fold_left store_recent_engine l d) = plot_logs d.
Proof. induction l as [|x l IH]; intros d; cbn; [reflexivity|]. now rewrite IH. Qed.
Lemma rr_store_engines l : forall d, recent_runs (fold_left store_recent_engine l d) = recent_runs d.
Proof. induction l as [|x l IH]; intros d; cbn; [reflexivity|]. now rewrite IH. Qed.

Lemma step_pl interval entries s o : PL (data s) -> PL (data (step interval entries s o)).
Proof.
  intros H. destruct o as [e|e|e r t|e r|e mr msg| |]; cbn [step].
  - destruct (find_engine s e); [exact H|]. destruct (get_recent _ e) as [[[r t]|]|]; exact H.
  - destruct (find_engine s e); exact H.
  - destruct (find_engine s e) as [x|]; [|exact H]. destruct (e_run x) as [cur|]; cbn [data].
    + destruct (rd_id cur =? r); cbn [data]; apply pl_create; exact H.
    + apply pl_create, H.
  - destruct (find_engine s e) as [x|]; [|exact H]. destruct (e_run x); exact H.
  - destruct (find_engine s e) as [x|]; [|exact H].
    destruct (negb _); [exact H|]. destruct (e_run x) as [c|]; exact H.
  - cbn [data]. unfold PL. rewrite pl_store_engines. exact H.
  - exact H.
Qed.

Lemma reachable_pl interval entries os : forall s, PL (data s) -> PL (data (final interval entries s os)).
Proof. induction os as [|o os IH]; intros s H; cbn; [exact H|]. apply IH, step_pl, H. Qed.

(* ---------- engine map ---------- *)
Definition ids (l : list edata) := map e_id l.

Lemma find_engine_some s e x : find_engine s e = Some x -> In x (engines s) /\ e_id x = e.
Proof.
  unfold find_engine. intros H. apply find_some in H as [H1 H2]. apply Nat.eqb_eq in H2. auto.
Qed.
Lemma find_engine_none s e : find_engine s e = None -> ~ In e (ids (engines s)).
Proof.
  unfold find_engine, ids. intros H Hin. apply in_map_iff in Hin as [x [E Hx]].
  pose proof (find_none _ _ H x Hx) as Hn. cbn in Hn. rewrite E, Nat.eqb_refl in Hn. discriminate.
Qed.

Lemma set_engine_ids l d : In (e_id d) (ids l) -> ids (set_engine l d) = ids l.
Proof.
  unfold ids. induction l as [|x l IH]; cbn; [tauto|]. destruct (Nat.eqb (e_id x) (e_id d)) eqn:E.
  - apply Nat.eqb_eq in E. intros _. cbn. now rewrite E.
  - intros [H|H]; [apply Nat.eqb_neq in E; congruence|]. cbn. now rewrite IH.
Qed.

Lemma in_set_engine l d y :
  NoDup (ids l) -> In y (set_engine l d) -> y = d \/ (In y l /\ e_id y <> e_id d).
Proof.
  unfold ids. induction l as [|x l IH]; cbn; intros Hnd; [intuition|].
  inversion Hnd as [|a b Hnin Hnd']; subst. destruct (Nat.eqb (e_id x) (e_id d)) eqn:E; cbn.
  - apply Nat.eqb_eq in E. intros [<-|H]; [now left|]. right. split; [now right|].
    intros E'. apply Hnin. rewrite E, <- E'. now apply in_map.
  - apply Nat.eqb_neq in E. intros [<-|H]; [right; auto|]. destruct (IH Hnd' H) as [->|[H1 H2]]; auto.
Qed.

Lemma in_del_engine l e y : In y (del_engine l e) -> In y l /\ e_id y <> e.
Proof.
  unfold del_engine. intros H. apply filter_In in H as [H1 H2]. split; [exact H1|].
  apply negb_true_iff, Nat.eqb_neq in H2. exact H2.
Qed.
Lemma del_engine_nodup l e : NoDup (ids l) -> NoDup (ids (del_engine l e)).
Proof.
  unfold ids, del_engine. induction l as [|x l IH]; cbn; intros H; [constructor|].
  inversion H; subst. destruct (negb (Nat.eqb (e_id x) e)); cbn; [|auto].
  constructor; [|auto]. intros Hin. apply H2. apply in_map_iff in Hin as [y [Ey Hy]].
  apply filter_In in Hy as [Hy _]. rewrite <- Ey. now apply in_map.
Qed.

(* ---------- C30: one recent run per run, when no stored run is re-opened ---------- *)
Definition stored (s : st) (e : eid) (r : rid) : bool := existsb (er_eqb (e, r)) (recent_runs (data s)).

(* the only ways a run id enters an engine's run data *)
Definition guard (s : st) (o : op) : bool :=
  match o with
  | RunStarted e r _ =>
      match find_engine s e with
      | Some x => match e_run x with
                  | Some cur => (rd_id cur =? r) || negb (stored s e r)
                  | None => negb (stored s e r) end
      | None => true end
  | Register e =>
      match find_engine s e with
      | Some _ => true
      | None => match get_recent (recent_engines (data s)) e with
                | Some (Some (r, _)) => negb (stored s e r)
                | _ => true end
      end
  | _ => true
  end.

Fixpoint guarded (interval : option Z) (entries : list tname) (s : st) (os : list op) : bool :=
  match os with
  | [] => true
  | o :: os' => guard s o && guarded interval entries (step interval entries s o) os'
  end.

Record RR (s : st) : Prop := {
  rr_nodup : NoDup (recent_runs (data s));
  rr_ids : NoDup (ids (engines s));
  rr_open : forall x c, In x (engines s) -> e_run x = Some c -> ~ In (e_id x, rd_id c) (recent_runs (data s))
}.

Lemma step_rr interval entries s o : RR s -> guard s o = true -> RR (step interval entries s o).
Proof.
  intros [Hnd Hids Hopen] Hg. destruct o as [e|e|e r t|e r|e mr msg| |]; cbn [step guard] in *.
  - (* Register *)
    destruct (find_engine s e) eqn:Ef; [constructor; assumption|].
    constructor; cbn [engines data].
    + exact Hnd.
    + unfold ids. rewrite map_app. cbn. apply NoDup_snoc; [exact Hids|now apply find_engine_none].
    + intros x c Hin Hr. apply in_app_or in Hin as [Hin|[<-|[]]]; [now apply Hopen|].
      cbn in Hr. cbn [e_id]. destruct (get_recent _ e) as [[[r t]|]|]; try discriminate.
      inversion Hr; subst. cbn. apply existsb_er_false. now apply negb_true_iff in Hg.
  - (* Disconnect *)
    destruct (find_engine s e) eqn:Ef; [|constructor; assumption].
    constructor; cbn [engines data store_recent_engine recent_runs].
    + exact Hnd.
    + now apply del_engine_nodup.
    + intros x c Hin Hr. apply in_del_engine in Hin as [Hin _]. now apply Hopen.
  - (* RunStarted *)
    destruct (find_engine s e) as [x|] eqn:Ef; [|constructor; assumption].
    apply find_engine_some in Ef as [Hx Ex]. subst e.
    assert (Hidin : In (e_id x) (ids (engines s))) by (unfold ids; now apply in_map).
    destruct (e_run x) as [cur|] eqn:Er.
    + destruct (rd_id cur =? r) eqn:Eid.
      * constructor; cbn [engines data]; rewrite ?recent_runs_create; assumption.
      * cbn in Hg. apply negb_true_iff in Hg. apply Z.eqb_neq in Eid.
        assert (Hrr : recent_runs (create_plot_log (store_recent_run (data s) (e_id x) (rd_id cur)) (e_id x) r)
                      = recent_runs (data s) ++ [(e_id x, rd_id cur)])
          by (unfold create_plot_log; destruct (has_plot_log _ _ _); reflexivity).
        constructor; cbn [engines data]; rewrite ?Hrr.
        -- apply NoDup_snoc; [exact Hnd|]. now apply (Hopen x cur).
        -- change (e_id x) with (e_id {| e_id := e_id x; e_run := Some (new_run r t); e_tags := e_tags x |}) in Hidin.
           rewrite set_engine_ids; assumption.
        -- intros y c Hin Hr Hmem. destruct (in_set_engine _ _ _ Hids Hin) as [->|[Hin' Hne]].
           ++ cbn in Hr. inversion Hr; subst c. cbn in Hmem.
              apply in_app_or in Hmem as [Hmem|[E|[]]]; [now apply existsb_er_false in Hg|].
              inversion E. congruence.
           ++ cbn in Hne. apply in_app_or in Hmem as [Hmem|[E|[]]]; [now apply (Hopen y c)|].
              inversion E. congruence.
    + apply negb_true_iff in Hg.
      assert (Hrr : recent_runs (create_plot_log (data s) (e_id x) r) = recent_runs (data s))
        by (unfold create_plot_log; destruct (has_plot_log _ _ _); reflexivity).
      constructor; cbn [engines data]; rewrite ?Hrr.
      * exact Hnd.
      * change (e_id x) with (e_id {| e_id := e_id x; e_run := Some (new_run r t); e_tags := e_tags x |}) in Hidin.
        rewrite set_engine_ids; assumption.
      * intros y c Hin Hr. destruct (in_set_engine _ _ _ Hids Hin) as [->|[Hin' Hne]]; [|now apply Hopen].
        cbn in Hr. inversion Hr; subst c. cbn. now apply existsb_er_false.
  - (* RunStopped *)
    destruct (find_engine s e) as [x|] eqn:Ef; [|constructor; assumption].
    apply find_engine_some in Ef as [Hx Ex]. subst e.
    assert (Hidin : In (e_id x) (ids (engines s))) by (unfold ids; now apply in_map).
    destruct (e_run x) as [cur|] eqn:Er; [|constructor; assumption].
    constructor; cbn [engines data store_recent_run recent_runs].
    + apply NoDup_snoc; [exact Hnd|]. now apply (Hopen x cur).
    + change (e_id x) with (e_id {| e_id := e_id x; e_run := None; e_tags := e_tags x |}) in Hidin.
      rewrite set_engine_ids; assumption.
    + intros y c Hin Hr Hmem. destruct (in_set_engine _ _ _ Hids Hin) as [->|[Hin' Hne]]; [discriminate|].
      cbn in Hne. apply in_app_or in Hmem as [Hmem|[E|[]]]; [now apply (Hopen y c)|].
      inversion E. congruence.
  - (* Tags *)
    destruct (find_engine s e) as [x|] eqn:Ef; [|constructor; assumption].
    apply find_engine_some in Ef as [Hx Ex]. subst e.
    assert (Hidin : In (e_id x) (ids (engines s))) by (unfold ids; now apply in_map).
    destruct (negb _); [constructor; assumption|].
    destruct (e_run x) as [c0|] eqn:Er.
    + constructor; cbn [engines data add_rows recent_runs].
      * exact Hnd.
      * match goal with |- context [set_engine _ ?d] => change (e_id x) with (e_id d) in Hidin end.
        rewrite set_engine_ids; assumption.
      * intros y c Hin Hr. destruct (in_set_engine _ _ _ Hids Hin) as [->|[Hin' Hne]]; [|now apply Hopen].
        cbn in Hr. inversion Hr; subst c. cbn. now apply (Hopen x c0).
    + constructor; cbn [engines data].
      * exact Hnd.
      * match goal with |- context [set_engine _ ?d] => change (e_id x) with (e_id d) in Hidin end.
        rewrite set_engine_ids; assumption.
      * intros y c Hin Hr. destruct (in_set_engine _ _ _ Hids Hin) as [->|[Hin' Hne]]; [discriminate|now apply Hopen].
  - (* Restart *)
    constructor; cbn [engines data]; [rewrite rr_store_engines; exact Hnd|constructor|contradiction].
  - constructor; cbn [engines data]; [exact Hnd|constructor|contradiction].
Qed.

Lemma reachable_rr interval entries os : forall s,
  RR s -> guarded interval entries s os = true -> RR (final interval entries s os).
Proof.
  induction os as [|o os IH]; intros s H Hg; cbn in *; [exact H|].
  apply andb_true_iff in Hg as [H1 H2]. apply IH; [now apply step_rr|exact H2].
Qed.

Lemma init_rr : RR init.
Proof. constructor; cbn; [constructor|constructor|contradiction]. Qed.

(* ---------- C28: the run survives ---------- *)
Lemma get_set_recent l e v : get_recent (set_recent l e v) e = Some v.
Proof.
  induction l as [|x l IH]; cbn; [now rewrite Nat.eqb_refl|].
  destruct (Nat.eqb (fst x) e) eqn:E; cbn; [now rewrite Nat.eqb_refl|now rewrite E].
Qed.
Lemma get_set_recent_other l e e' v : e <> e' -> get_recent (set_recent l e v) e' = get_recent l e'.
Proof.
  intros Hne. assert (Hee : Nat.eqb e e' = false) by now apply Nat.eqb_neq.
  induction l as [|[a w] l IH]; cbn.
  - now rewrite Hee.
  - destruct (Nat.eqb a e) eqn:E; cbn.
    + apply Nat.eqb_eq in E. subst a. now rewrite Hee.
    + destruct (Nat.eqb a e'); [reflexivity|exact IH].
Qed.

Lemma find_del l e : find (fun d => Nat.eqb (e_id d) e) (del_engine l e) = None.
Proof.
  unfold del_engine. induction l as [|x l IH]; cbn; [reflexivity|].
  destruct (Nat.eqb (e_id x) e) eqn:E; cbn; [exact IH|]. now rewrite E.
Qed.

Lemma find_snoc l x e :
  find (fun d => Nat.eqb (e_id d) e) l = None -> e_id x = e ->
  find (fun d => Nat.eqb (e_id d) e) (l ++ [x]) = Some x.
Proof.
  intros H E. induction l as [|y l IH]; cbn in *.
  - now rewrite E, Nat.eqb_refl.
  - destruct (Nat.eqb (e_id y) e); [discriminate|auto].
Qed.

Definition run_of (s : st) (e : eid) : option (option (rid * Z)) :=
  match find_engine s e with
  | Some x => Some (match e_run x with Some c => Some (rd_id c, rd_started c) | None => None end)
  | None => None end.

(* after the engine's data is gone, with its run recorded, a later registration restores the run *)
Lemma register_restores interval entries s e r t :
  find_engine s e = None -> get_recent (recent_engines (data s)) e = Some (Some (r, t)) ->
  run_of (step interval entries s (Register e)) e = Some (Some (r, t)).
Proof.
  intros Hf Hg. unfold run_of. cbn [step]. rewrite Hf, Hg. unfold find_engine. cbn [engines].
  rewrite find_snoc; [reflexivity|exact Hf|reflexivity].
Qed.

Definition touches (e : eid) (o : op) : bool :=
  match o with
  | Register e' | Disconnect e' | RunStarted e' _ _ | RunStopped e' _ | Tags e' _ _ => Nat.eqb e e'
  | Restart | Crash => false
  end.

Lemma find_set_engine_other l d e :
  e_id d <> e -> find (fun x => Nat.eqb (e_id x) e) (set_engine l d) = None <->
                 find (fun x => Nat.eqb (e_id x) e) l = None.
Proof.
  intros Hne. induction l as [|x l IH]; cbn.
  - destruct (Nat.eqb (e_id d) e) eqn:E; [apply Nat.eqb_eq in E; contradiction|tauto].
  - destruct (Nat.eqb (e_id x) (e_id d)) eqn:Exd; cbn.
    + apply Nat.eqb_eq in Exd. destruct (Nat.eqb (e_id d) e) eqn:E; [apply Nat.eqb_eq in E; contradiction|].
      rewrite Exd, E. tauto.
    + destruct (Nat.eqb (e_id x) e); [tauto|exact IH].
Qed.

Lemma recent_fold_other l : forall d e,
  ~ In e (ids l) -> get_recent (recent_engines (fold_left store_recent_engine l d)) e = get_recent (recent_engines d) e.
Proof.
  induction l as [|x l IH]; intros d e Hnin; cbn; [reflexivity|].
  rewrite IH by (intros H; apply Hnin; now right). cbn.
  apply get_set_recent_other. intros E. apply Hnin. now left.
Qed.

(* operations that do not mention e leave "e unregistered, run recorded" untouched
   -- restarts and crashes of the aggregator included *)
Lemma untouched_step interval entries s e o v :
  touches e o = false -> find_engine s e = None -> get_recent (recent_engines (data s)) e = Some v ->
  find_engine (step interval entries s o) e = None /\
  get_recent (recent_engines (data (step interval entries s o))) e = Some v.
Proof.
  intros Ht Hf Hg. destruct o as [e'|e'|e' r t|e' r|e' mr msg| |]; cbn [touches] in Ht; cbn [step].
  - apply Nat.eqb_neq in Ht. destruct (find_engine s e'); [auto|]. split; [|exact Hg].
    unfold find_engine in *. cbn [engines].
    destruct (find _ (engines s ++ _)) eqn:E; [|reflexivity].
    apply find_some in E as [Hin Hid]. apply Nat.eqb_eq in Hid.
    apply in_app_or in Hin as [Hin|[<-|[]]]; [|cbn in Hid; congruence].
    pose proof (find_none _ _ Hf e0 Hin) as Hn. cbn in Hn. rewrite Hid, Nat.eqb_refl in Hn. discriminate.
  - apply Nat.eqb_neq in Ht. destruct (find_engine s e') as [x|] eqn:Ef; [|auto].
    apply find_engine_some in Ef as [_ Ex]. split.
    + unfold find_engine in *. cbn [engines]. unfold del_engine.
      destruct (find _ (filter _ _)) eqn:E; [|reflexivity]. apply find_some in E as [Hin Hid].
      apply filter_In in Hin as [Hin _]. pose proof (find_none _ _ Hf e0 Hin) as Hn. cbn in *. congruence.
    + cbn [data store_recent_engine recent_engines]. rewrite get_set_recent_other; [exact Hg|congruence].
  - apply Nat.eqb_neq in Ht. destruct (find_engine s e') as [x|] eqn:Ef; [|auto].
    assert (Hrec : forall d r0, recent_engines (create_plot_log d e' r0) = recent_engines d)
      by (intros; unfold create_plot_log; destruct (has_plot_log _ _ _); reflexivity).
    destruct (e_run x) as [cur|].
    + destruct (rd_id cur =? r); cbn [engines data]; unfold find_engine; cbn [engines]; rewrite Hrec; split; auto.
      apply find_set_engine_other; [cbn; congruence|exact Hf].
    + unfold find_engine; cbn [engines data]. rewrite Hrec. split; [|exact Hg].
      apply find_set_engine_other; [cbn; congruence|exact Hf].
  - apply Nat.eqb_neq in Ht. destruct (find_engine s e') as [x|] eqn:Ef; [|auto].
    destruct (e_run x); [|auto]. unfold find_engine; cbn [engines data store_recent_run recent_engines].
    split; [|exact Hg]. apply find_set_engine_other; [cbn; congruence|exact Hf].
  - apply Nat.eqb_neq in Ht. destruct (find_engine s e') as [x|] eqn:Ef; [|auto].
    destruct (negb _); [auto|].
    destruct (e_run x) as [c|]; unfold find_engine; cbn [engines data add_rows recent_engines];
      (split; [|exact Hg]); apply find_set_engine_other; try exact Hf; cbn; congruence.
  - split; [reflexivity|]. cbn [data]. rewrite recent_fold_other; [exact Hg|now apply find_engine_none].
  - split; [reflexivity|exact Hg].
Qed.

Lemma untouched_steps interval entries os : forall s e v,
  forallb (fun o => negb (touches e o)) os = true ->
  find_engine s e = None -> get_recent (recent_engines (data s)) e = Some v ->
  find_engine (final interval entries s os) e = None /\
  get_recent (recent_engines (data (final interval entries s os))) e = Some v.
Proof.
  induction os as [|o os IH]; intros s e v Hall Hf Hg; cbn in *; [auto|].
  apply andb_true_iff in Hall as [H1 H2]. apply negb_true_iff in H1.
  destruct (untouched_step interval entries s e o v H1 Hf Hg) as [Hf' Hg']. now apply IH.
Qed.

(* Disconnect during a run, anything not involving e (incl. aggregator restarts), re-register:
   same run id, same start time *)
Lemma same_run_after_reconnect interval entries s e r t os :
  run_of s e = Some (Some (r, t)) ->
  forallb (fun o => negb (touches e o)) os = true ->
  run_of (step interval entries (final interval entries (step interval entries s (Disconnect e)) os) (Register e)) e
  = Some (Some (r, t)).
Proof.
  intros Hrun Hall. unfold run_of in Hrun. destruct (find_engine s e) as [x|] eqn:Ef; [|discriminate].
  destruct (e_run x) as [c|] eqn:Er; [|discriminate]. inversion Hrun; subst r t. clear Hrun.
  set (s1 := step interval entries s (Disconnect e)).
  assert (H1 : find_engine s1 e = None /\ get_recent (recent_engines (data s1)) e = Some (Some (rd_id c, rd_started c))).
  { unfold s1. cbn [step]. rewrite Ef. unfold find_engine. cbn [engines data store_recent_engine recent_engines].
    apply find_engine_some in Ef as [_ Ex]. split; [apply find_del|]. rewrite Ex, Er. apply get_set_recent. }
  destruct H1 as [Hf1 Hg1].
  destruct (untouched_steps interval entries os s1 e _ Hall Hf1 Hg1) as [Hf2 Hg2].
  now apply register_restores.
Qed.

Lemma recent_fold_member l : forall d x,
  NoDup (ids l) -> In x l ->
  get_recent (recent_engines (fold_left store_recent_engine l d)) (e_id x)
  = Some (match e_run x with Some r => Some (rd_id r, rd_started r) | None => None end).
Proof.
  induction l as [|y l IH]; intros d x Hnd Hin; [contradiction|]. cbn in Hnd. inversion Hnd; subst. cbn.
  destruct Hin as [->|Hin].
  - rewrite recent_fold_other by exact H1. cbn. apply get_set_recent.
  - now apply IH.
Qed.

(* graceful aggregator restart during a run, then re-register: same run *)
Lemma same_run_after_restart interval entries s e r t os :
  NoDup (ids (engines s)) -> run_of s e = Some (Some (r, t)) ->
  forallb (fun o => negb (touches e o)) os = true ->
  run_of (step interval entries (final interval entries (step interval entries s Restart) os) (Register e)) e
  = Some (Some (r, t)).
Proof.
  intros Hnd Hrun Hall. unfold run_of in Hrun. destruct (find_engine s e) as [x|] eqn:Ef; [|discriminate].
  destruct (e_run x) as [c|] eqn:Er; [|discriminate]. inversion Hrun; subst r t. clear Hrun.
  apply find_engine_some in Ef as [Hin Ex].
  set (s1 := step interval entries s Restart).
  assert (Hf1 : find_engine s1 e = None) by reflexivity.
  assert (Hg1 : get_recent (recent_engines (data s1)) e = Some (Some (rd_id c, rd_started c))).
  { unfold s1. cbn [step data]. rewrite <- Ex. rewrite (recent_fold_member _ _ x Hnd Hin). now rewrite Er. }
  destruct (untouched_steps interval entries os s1 e _ Hall Hf1 Hg1) as [Hf2 Hg2].
  now apply register_restores.
Qed.

(* tag data accepted for the current run is recorded in that run's plot log, and nowhere else *)
Lemma tags_in_run interval entries s e x c msg :
  find_engine s e = Some x -> e_run x = Some c ->
  exists new, plot_rows (data (step interval entries s (Tags e (Some (rd_id c)) msg))) = plot_rows (data s) ++ new
              /\ Forall (fun w => fst w = (e, rd_id c)) new.
Proof.
  intros Hf Hr. cbn [step]. rewrite Hf, Hr. cbn [option_eqb]. rewrite Z.eqb_refl. cbn [negb data add_rows plot_rows].
  eexists. split; [reflexivity|]. destruct (has_plot_log _ _ _); [|constructor].
  rewrite Forall_forall. intros w Hw. apply in_map_iff in Hw as [y [<- _]]. reflexivity.
Qed.
