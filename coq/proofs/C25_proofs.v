From Coq Require Import ZArith List Bool Arith Lia.
From OP Require Import lib.Obs model.C25.
Import ListNotations.
Open Scope Z_scope.

(* ---------- association lists ---------- *)
Lemma assoc_app a b r :
  assoc (a ++ b) r = match assoc a r with Some v => Some v | None => assoc b r end.
Proof.
  induction a as [|e a IH]; cbn; [reflexivity|].
  destruct (Nat.eqb (fst e) r); [reflexivity|exact IH].
Qed.

Lemma assoc_none d r : ~ In r (map fst d) -> assoc d r = None.
Proof.
  induction d as [|e d IH]; cbn; intros H; [reflexivity|].
  destruct (Nat.eqb (fst e) r) eqn:E.
  - apply Nat.eqb_eq in E. exfalso. apply H. now left.
  - apply IH. intros Hin. apply H. now right.
Qed.

Lemma assoc_same d r v :
  (forall e, In e d -> fst e = r -> snd e = v) -> In r (map fst d) -> assoc d r = Some v.
Proof.
  induction d as [|e d IH]; cbn; intros Hall Hin; [tauto|].
  destruct (Nat.eqb (fst e) r) eqn:E.
  - apply Nat.eqb_eq in E. f_equal. apply Hall; auto.
  - apply Nat.eqb_neq in E. apply IH; [intros e' He'; apply Hall; now right|].
    destruct Hin as [Hin|Hin]; [contradiction|exact Hin].
Qed.

Lemma in_map_fst_rev {A B} (d : list (A * B)) r : In r (map fst (rev d)) <-> In r (map fst d).
Proof. rewrite map_rev, <- in_rev. tauto. Qed.

(* ---------- layer order ---------- *)
Lemma dedup_in l : forall seen x, In x l -> ~ In x seen -> In x (dedup l seen).
Proof.
  induction l as [|y l IH]; intros seen x Hin Hns; [contradiction|]. cbn.
  destruct (existsb (Nat.eqb y) seen) eqn:E.
  - destruct Hin as [->|Hin]; [|now apply IH].
    apply existsb_exists in E as [z [Hz Ez]]. apply Nat.eqb_eq in Ez. subst. contradiction.
  - destruct (Nat.eq_dec x y) as [->|Hne]; [now left|]. right.
    destruct Hin as [Hin|Hin]; [congruence|]. apply IH; [exact Hin|].
    intros [H|H]; [congruence|contradiction].
Qed.

Lemma dedup_nodup l : forall seen, NoDup (dedup l seen) /\ (forall x, In x (dedup l seen) -> ~ In x seen).
Proof.
  induction l as [|y l IH]; intros seen; cbn; [split; [constructor|tauto]|].
  destruct (existsb (Nat.eqb y) seen) eqn:E; [apply IH|].
  destruct (IH (y :: seen)) as [Hnd Hns]. split.
  - constructor; [|exact Hnd]. intros Hin. apply (Hns y Hin). now left.
  - intros x [<-|Hin].
    + intros Hin. assert (existsb (Nat.eqb y) seen = true); [|congruence].
      apply existsb_exists. exists y. split; [exact Hin|apply Nat.eqb_refl].
    + intros Hs. apply (Hns x Hin). now right.
Qed.

Lemma layer_in_order lay rs r : In r rs -> In (layer_of lay r) (layer_order lay rs).
Proof. intros H. apply dedup_in; [now apply in_map|tauto]. Qed.

(* all (reg,value) entries produced through a function f of the register *)
Definition graph_of (f : reg -> Z) (d : list (reg * Z)) : Prop := forall e, In e d -> snd e = f (fst e).

Lemma combine_map_graph f rl : graph_of f (combine rl (map f rl)).
Proof.
  induction rl as [|r rl IH]; cbn; intros e He; [contradiction|].
  destruct He as [<-|He]; [reflexivity|now apply IH].
Qed.
Lemma combine_map_fst (f : reg -> Z) rl : map fst (combine rl (map f rl)) = rl.
Proof. induction rl as [|r rl IH]; cbn; [reflexivity|now rewrite IH]. Qed.

Definition entries (lay : list nat) (f : reg -> Z) (rs : list reg) : list (reg * Z) :=
  flat_map (fun L => let rl := regs_of lay L rs in combine rl (map f rl)) (layer_order lay rs).

Lemma entries_graph lay f rs : graph_of f (entries lay f rs).
Proof.
  unfold entries. intros e He. apply in_flat_map in He as [L [_ He]].
  now apply (combine_map_graph f (regs_of lay L rs) e).
Qed.

Lemma entries_keys lay f rs r : In r (map fst (entries lay f rs)) <-> In r rs.
Proof.
  unfold entries. split.
  - intros H. apply in_map_iff in H as [e [<- He]]. apply in_flat_map in He as [L [_ He]].
    apply (in_map fst) in He. rewrite combine_map_fst in He. unfold regs_of in He.
    now apply filter_In in He.
  - intros H. apply in_map_iff.
    exists (r, f r). split; [reflexivity|]. apply in_flat_map. exists (layer_of lay r).
    split; [now apply layer_in_order|].
    assert (Hr : In r (regs_of lay (layer_of lay r) rs)).
    { unfold regs_of. apply filter_In. split; [exact H|apply Nat.eqb_refl]. }
    revert Hr. generalize (regs_of lay (layer_of lay r) rs). intros rl.
    induction rl as [|x rl IH]; cbn; [tauto|]. intros [->|Hr]; [now left|right; auto].
Qed.

Lemma assoc_entries lay f rs r :
  assoc (rev (entries lay f rs)) r = if in_dec Nat.eq_dec r rs then Some (f r) else None.
Proof.
  destruct (in_dec Nat.eq_dec r rs) as [Hin|Hnin].
  - apply assoc_same.
    + intros e He <-. apply in_rev in He. now apply entries_graph in He.
    + apply in_map_fst_rev. now apply entries_keys.
  - apply assoc_none. rewrite in_map_fst_rev, entries_keys. exact Hnin.
Qed.

(* ---------- reads ---------- *)
Lemma comp_read_spec lay m rs : comp_read lay m rs = map (mget m) rs.
Proof.
  unfold comp_read. apply map_ext_in. intros r Hr.
  fold (entries lay (mget m) rs). rewrite assoc_entries.
  destruct (in_dec Nat.eq_dec r rs); [reflexivity|contradiction].
Qed.

(* ---------- writes ---------- *)
Definition meq (m1 m2 : mem) : Prop := forall r, mget m1 r = mget m2 r.

Lemma seq_write_list P : forall m, fold_left write1 P m = value_dict P ++ m.
Proof.
  unfold value_dict. induction P as [|p P IH]; intros m; cbn; [reflexivity|].
  rewrite IH. unfold write1. now rewrite <- app_assoc.
Qed.

Lemma apply_call_list c m : apply_call m c = rev (snd c) ++ m.
Proof.
  unfold apply_call. revert m. induction (snd c) as [|e d IH]; intros m; cbn; [reflexivity|].
  rewrite IH, <- app_assoc. destruct e. reflexivity.
Qed.

Lemma apply_calls_list cs : forall m,
  fold_left apply_call cs m = rev (flat_map snd cs) ++ m.
Proof.
  induction cs as [|c cs IH]; intros m; cbn; [reflexivity|].
  rewrite IH, apply_call_list, rev_app_distr, <- app_assoc. reflexivity.
Qed.

Lemma layer_calls_entries lay vs rs :
  flat_map snd (layer_calls lay vs rs)
  = entries lay (look (combine vs rs)) (map snd (combine vs rs)).
Proof.
  unfold layer_calls, entries. induction (layer_order lay (map snd (combine vs rs))) as [|L Ls IH]; cbn;
    [reflexivity|]. now rewrite IH.
Qed.

Lemma look_value_dict P r : In r (map snd P) -> assoc (value_dict P) r = Some (look P r).
Proof.
  intros H. unfold look. destruct (assoc (value_dict P) r) eqn:E; [reflexivity|].
  exfalso. assert (Hin : In r (map fst (value_dict P))).
  { unfold value_dict. rewrite in_map_fst_rev, map_map. cbn. exact H. }
  revert E Hin. generalize (value_dict P). intros d.
  induction d as [|e d IH]; cbn; [tauto|].
  destruct (Nat.eqb (fst e) r) eqn:Er; [discriminate|]. apply Nat.eqb_neq in Er.
  intros E [Hh|Hin]; [contradiction|auto].
Qed.

Lemma value_dict_none P r : ~ In r (map snd P) -> assoc (value_dict P) r = None.
Proof.
  intros H. apply assoc_none. unfold value_dict. rewrite in_map_fst_rev, map_map. exact H.
Qed.

Lemma comp_write_spec lay m vs rs :
  meq (comp_write lay m vs rs) (fold_left write1 (combine vs rs) m).
Proof.
  intros r. unfold comp_write, mget. rewrite apply_calls_list, seq_write_list, layer_calls_entries.
  rewrite !assoc_app, assoc_entries. set (P := combine vs rs).
  destruct (in_dec Nat.eq_dec r (map snd P)) as [Hin|Hnin].
  - now rewrite look_value_dict.
  - now rewrite value_dict_none.
Qed.

(* meq is a congruence for everything observable *)
Lemma meq_read m1 m2 rs : meq m1 m2 -> map (mget m1) rs = map (mget m2) rs.
Proof. intros H. apply map_ext. exact H. Qed.

Lemma meq_seq_write P m1 m2 : meq m1 m2 -> meq (fold_left write1 P m1) (fold_left write1 P m2).
Proof.
  intros H r. rewrite !seq_write_list. unfold mget. rewrite !assoc_app.
  destruct (assoc (value_dict P) r); [reflexivity|apply H].
Qed.

Lemma run_refines lay os : forall m1 m2, meq m1 m2 ->
  fst (fst (comp_run lay m1 os)) = fst (spec_run m2 os)
  /\ meq (snd (comp_run lay m1 os)) (snd (spec_run m2 os)).
Proof.
  induction os as [|o os IH]; intros m1 m2 H; cbn [comp_run spec_run]; [split; [reflexivity|exact H]|].
  destruct o as [rs|vs rs|r|v r|v r]; cbn [comp_step spec_step].
  - destruct (IH m1 m2 H) as [Ho Hm].
    destruct (comp_run lay m1 os) as [[outs log] mf]. destruct (spec_run m2 os) as [souts smf].
    cbn in *. split; [|exact Hm]. rewrite comp_read_spec, (meq_read _ _ _ H). now f_equal.
  - assert (H' : meq (comp_write lay m1 vs rs) (fold_left write1 (combine vs rs) m2)).
    { intros r. rewrite comp_write_spec. now apply meq_seq_write. }
    destruct (IH _ _ H') as [Ho Hm].
    destruct (comp_run lay (comp_write lay m1 vs rs) os) as [[outs log] mf].
    destruct (spec_run (fold_left write1 (combine vs rs) m2) os) as [souts smf].
    cbn in *. split; [now f_equal|exact Hm].
  - destruct (IH m1 m2 H) as [Ho Hm].
    destruct (comp_run lay m1 os) as [[outs log] mf]. destruct (spec_run m2 os) as [souts smf].
    cbn in *. split; [|exact Hm]. rewrite (H r). now f_equal.
  - assert (H' : meq (write1 m1 (v, r)) (write1 m2 (v, r))) by (apply (meq_seq_write [(v, r)]); exact H).
    destruct (IH _ _ H') as [Ho Hm].
    destruct (comp_run lay (write1 m1 (v, r)) os) as [[outs log] mf].
    destruct (spec_run (write1 m2 (v, r)) os) as [souts smf].
    cbn in *. split; [now f_equal|exact Hm].
  - assert (H' : meq (write1 m1 (v, r)) (write1 m2 (v, r))) by (apply (meq_seq_write [(v, r)]); exact H).
    destruct (IH _ _ H') as [Ho Hm].
    destruct (comp_run lay (write1 m1 (v, r)) os) as [[outs log] mf].
    destruct (spec_run (write1 m2 (v, r)) os) as [souts smf].
    cbn in *. split; [now f_equal|exact Hm].
Qed.

(* ---------- what each layer receives, for a batch without repeated registers ---------- *)
Lemma look_unique P v r : NoDup (map snd P) -> In (v, r) P -> look P r = v.
Proof.
  intros Hnd Hin. unfold look.
  rewrite (assoc_same (value_dict P) r v); [reflexivity| |].
  - intros e He <-. unfold value_dict in He. apply in_rev in He.
    apply in_map_iff in He as [[v' r'] [<- Hp]]. cbn.
    (* two pairs with the same register in a NoDup list are the same pair *)
    clear -Hnd Hin Hp. induction P as [|p P IH]; [contradiction|].
    cbn in Hnd. inversion Hnd as [|x l Hnin Hnd']; subst.
    destruct Hin as [->|Hin], Hp as [Hp|Hp].
    + now inversion Hp.
    + exfalso. apply Hnin. now apply (in_map snd) in Hp.
    + subst p. exfalso. apply Hnin. now apply (in_map snd) in Hin.
    + now apply IH.
  - unfold value_dict. rewrite in_map_fst_rev, map_map. cbn.
    now apply (in_map snd) in Hin.
Qed.

Lemma layer_receives_subsequence lay vs rs L :
  NoDup (map snd (combine vs rs)) ->
  let P := combine vs rs in
  let rl := regs_of lay L (map snd P) in
  combine rl (map (look P) rl)
  = map (fun p => (snd p, fst p)) (filter (fun p => Nat.eqb (layer_of lay (snd p)) L) P).
Proof.
  intros Hnd P rl. subst rl. unfold regs_of.
  assert (Hall : forall p, In p P -> look P (snd p) = fst p).
  { intros [v r] Hp. now apply look_unique. }
  clearbody P. revert Hall. generalize (look P). intros f.
  induction P as [|p P IH]; intros Hall; cbn; [reflexivity|].
  destruct (Nat.eqb (layer_of lay (snd p)) L); cbn.
  - rewrite Hall by now left. f_equal. apply IH. intros q Hq. apply Hall. now right.
  - apply IH. intros q Hq. apply Hall. now right.
Qed.

(* ---------- monitor soundness ---------- *)
Lemma zs_eqb_refl l : zs_eqb l l = true.
Proof. induction l as [|x l IH]; cbn; [reflexivity|]. now rewrite Z.eqb_refl, IH. Qed.
Lemma zss_eqb_refl l : list_eqb zs_eqb l l = true.
Proof. induction l as [|x l IH]; cbn; [reflexivity|]. now rewrite zs_eqb_refl, IH. Qed.

Lemma model_satisfies_monitor i : holds_b i (run i) = true.
Proof.
  unfold holds_b, run. destruct i as [lay os]. cbn [fst snd].
  destruct (run_refines lay os [] [] (fun r => eq_refl)) as [Ho Hm].
  destruct (comp_run lay [] os) as [[outs log] mf]. destruct (spec_run [] os) as [souts smf].
  cbn in Ho, Hm. subst. rewrite zss_eqb_refl. cbn [andb]. unfold dump.
  rewrite (map_ext _ _ Hm). apply zs_eqb_refl.
Qed.
