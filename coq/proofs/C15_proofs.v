(* C15: proofs about the run-log distillation. *)
From Coq Require Import ZArith List Bool Arith Lia.
From OP Require Import lib.Obs model.C15.
Import ListNotations.
Open Scope Z_scope.

Definition good (it : item) : Prop := item_ok it = true.

(* the item an invocation is building: it starts at lo, does not end before lo, and a conclusive state has given it an end *)
Definition bounded (lo : Z) (it : item) : Prop :=
  i_start it = lo /\ (match i_end it with Some e => lo <= e | None => True end) /\
  (concluded (i_state it) = true -> i_end it <> None).

Lemma good_finalize lo it : bounded lo it -> good (finalize it) /\ i_start (finalize it) = lo /\ i_id (finalize it) = i_id it.
Proof.
  intros [Hs [He Hc]]. unfold finalize. destruct (i_end it) as [e|] eqn:Ee.
  - split; [|split; [exact Hs|reflexivity]]. unfold good, item_ok. cbn [i_end i_start i_state i_cancellable i_forcible].
    apply andb_true_intro. split; [apply Z.leb_le; lia|]. destruct (concluded (i_state it)); reflexivity.
  - split; [|split; [exact Hs|reflexivity]]. unfold good, item_ok. rewrite Ee. cbn [andb].
    destruct (concluded (i_state it)) eqn:Ec; [|reflexivity]. exfalso. now apply Hc.
Qed.

(* the accumulator while the states of one invocation (first state at time lo, instance id k) are processed: the items of
   earlier invocations followed by at most one item of this invocation *)
Record AInv (base : list item) (lo : Z) (k : nat) (a : acc) : Prop := {
  ai_shape : (a_concluded a = false /\ a_items a = base) \/
             (a_concluded a = true /\ a_item a = None /\
              exists it, a_items a = base ++ [finalize it] /\ bounded lo it /\ i_id it = k);
  ai_item : forall it, a_item a = Some it -> bounded lo it /\ i_id it = k;
  ai_live : a_item a <> None \/ a_concluded a = true }.

Lemma bounded_finalize lo it : bounded lo it -> bounded lo (finalize it).
Proof.
  intros [A [B C]]. unfold finalize. destruct (i_end it) as [e|] eqn:E.
  - split; [exact A|split; cbn [i_end i_state]; [exact B|intros _; discriminate]].
  - split; [exact A|split; [now rewrite E|intros H; rewrite E; now apply C]].
Qed.

Lemma step_ok base lo k a s is_start has_more :
  (is_start = true -> a_item a = None /\ a_concluded a = false /\ a_items a = base /\ s_time s = lo /\ s_inst s = k) ->
  (is_start = false -> AInv base lo k a) -> lo <= s_time s ->
  exists a', step a s is_start has_more = Some a' /\ AInv base lo k a'.
Proof.
  intros Hstart Hrest Hlo. unfold step.
  set (d := {| i_id := 0%nat; i_state := IUnknown; i_start := 0; i_end := None; i_cancellable := false; i_cancelled := false;
               i_forcible := false; i_forced := false; i_failed := false |}).
  assert (Pre : exists item0,
            (match a_item a, a_concluded a with
             | None, true => (removelast (a_items a), match a_items a with [] => None | _ => Some (last (a_items a) d) end)
             | it, _ => (a_items a, it)
             end) = (base, item0) /\
            (is_start = false -> exists it, item0 = Some it /\ bounded lo it /\ i_id it = k)).
  { destruct is_start.
    - destruct (Hstart eq_refl) as [A [B [C _]]]. rewrite A, B. exists None. split; [now rewrite C|discriminate].
    - destruct (Hrest eq_refl) as [Sh It Lv].
      destruct (a_item a) as [it|] eqn:Ei.
      + destruct Sh as [[S1 S2]|[S1 [S2 _]]]; [|discriminate].
        exists (Some it). split; [destruct (a_concluded a); now rewrite S2|].
        intros _. exists it. split; [reflexivity|now apply It].
      + destruct Lv as [Lv|Lv]; [contradiction|]. rewrite Lv.
        destruct Sh as [[S1 _]|[_ [_ [it [S2 [G S3]]]]]]; [congruence|].
        rewrite S2, removelast_last, last_last. exists (Some (finalize it)). split.
        * destruct (base ++ [finalize it]) eqn:E; [apply app_eq_nil in E as [_ E]; discriminate|reflexivity].
        * intros _. exists (finalize it). split; [reflexivity|]. split; [now apply bounded_finalize|].
          destruct (good_finalize lo it G) as [_ [_ Q]]. now rewrite Q. }
  destruct Pre as [item0 [E0 Hit]]. rewrite E0.
  set (item1 := if is_start then Some _ else item0).
  assert (H1 : exists it, item1 = Some it /\ bounded lo it /\ i_id it = k).
  { unfold item1. destruct is_start.
    - eexists. split; [reflexivity|]. destruct (Hstart eq_refl) as [_ [_ [_ [T U]]]].
      split; [split; cbn; [exact T|split; [exact I|discriminate]]|exact U].
    - now apply Hit. }
  destruct H1 as [it [E1 [[Bs [Be Bc]] Bk]]]. rewrite E1.
  set (st := match s_name s with SCompleted => ICompleted | SFailed => IFailed | SCancelled => ICancelled | SForced => IForced
                             | SAwaitingThreshold => IAwaitingThreshold | _ => i_state it end).
  set (cmd := match s_name s with SUodCommandSet => Some true | SInternalCommandSet => Some false | _ => a_cmd a end).
  set (it' := {| i_id := i_id it; i_state := st; i_start := i_start it;
                 i_end := if conclusive (s_name s) then Some (s_time s) else i_end it;
                 i_cancellable := if conclusive (s_name s) then false else match cmd with Some true => true | _ => s_cancellable s end;
                 i_cancelled := s_cancelled s; i_forcible := if conclusive (s_name s) then false else s_forcible s;
                 i_forced := s_forced s; i_failed := match s_name s with SFailed => true | _ => i_failed it end |}).
  assert (B' : bounded lo it' /\ i_id it' = k).
  { split; [|exact Bk]. split; [exact Bs|split]; cbn [it' i_end i_state].
    - destruct (conclusive (s_name s)); [exact Hlo|exact Be].
    - intros Hc. destruct (conclusive (s_name s)) eqn:Ec; [discriminate|]. apply Bc.
      unfold st in Hc. destruct (s_name s); cbn in Ec, Hc; try discriminate; exact Hc. }
  assert (Keep : AInv base lo k {| a_items := base; a_item := Some it'; a_concluded := false; a_cmd := cmd |}).
  { split; cbn [a_items a_item a_concluded].
    - left. split; reflexivity.
    - intros x Hx. inversion Hx; subst. exact B'.
    - left. discriminate. }
  assert (App : AInv base lo k {| a_items := base ++ [finalize it']; a_item := None; a_concluded := true; a_cmd := None |}).
  { split; cbn [a_items a_item a_concluded].
    - right. split; [reflexivity|split; [reflexivity|]]. exists it'. split; [reflexivity|exact B'].
    - intros x Hx. discriminate.
    - right. reflexivity. }
  destruct (negb has_more || conclusive (s_name s)); [|eexists; split; [reflexivity|exact Keep]].
  destruct st; eexists; (split; [reflexivity|]); first [exact Keep|exact App].
Qed.

(* ---------- one invocation ---------- *)
Fixpoint times_from (lo : Z) (l : list rstate) : Prop :=
  match l with [] => True | s :: l' => lo <= s_time s /\ times_from lo l' end.

Lemma ordered_times l : ordered l = true -> forall lo, (match l with [] => True | s :: _ => lo <= s_time s end) -> times_from lo l.
Proof.
  induction l as [|a l IH]; intros Ho lo H; [exact I|]. cbn [times_from]. split; [exact H|].
  destruct l as [|b l]; [exact I|]. cbn [ordered] in Ho. apply andb_prop in Ho as [Ho1 Ho2]. apply andb_prop in Ho1 as [_ Ht].
  apply Z.leb_le in Ht. apply IH; [exact Ho2|lia].
Qed.

Lemma invocation_rest base lo k l : forall a, AInv base lo k a -> times_from lo l ->
  exists a', invocation a l false = Some a' /\ AInv base lo k a'.
Proof.
  induction l as [|s l IH]; intros a Ha Ht; cbn [invocation]; [exists a; split; [reflexivity|exact Ha]|].
  destruct Ht as [T1 T2].
  destruct (step_ok base lo k a s false (match l with [] => false | _ => true end)) as [a1 [E1 A1]];
    [discriminate|intros _; exact Ha|exact T1|].
  rewrite E1. now apply IH.
Qed.

(* an invocation never raises; it leaves the earlier items alone and adds at most one well-formed item carrying the
   invocation's instance id *)
Theorem invocation_ok base s l :
  ordered (s :: l) = true ->
  exists a', invocation {| a_items := base; a_item := None; a_concluded := false; a_cmd := None |} (s :: l) true = Some a' /\
    (a_items a' = base \/ exists it, a_items a' = base ++ [it] /\ good it /\ i_id it = s_inst s).
Proof.
  intros Ho. cbn [invocation].
  pose proof (ordered_times (s :: l) Ho (s_time s) (Z.le_refl _)) as [_ Tl].
  destruct (step_ok base (s_time s) (s_inst s) {| a_items := base; a_item := None; a_concluded := false; a_cmd := None |} s true
              (match l with [] => false | _ => true end)) as [a1 [E1 A1]];
    [intros _; repeat split|discriminate|lia|].
  rewrite E1. destruct (invocation_rest base (s_time s) (s_inst s) l a1 A1 Tl) as [a2 [E2 A2]].
  exists a2. split; [exact E2|]. destruct (ai_shape _ _ _ _ A2) as [[_ S]|[_ [_ [it [S [B K]]]]]]; [now left|].
  right. exists (finalize it). split; [exact S|]. destruct (good_finalize _ _ B) as [G [_ Q]]. split; [exact G|now rewrite Q].
Qed.

(* ---------- a record ---------- *)
Lemma add_state_nonempty g s : Forall (fun p => snd p <> []) g -> Forall (fun p => snd p <> []) (add_state g s).
Proof.
  induction g as [|[k l] g IH]; intros F; cbn [add_state].
  - constructor; [discriminate|constructor].
  - inversion F; subst. destruct (Nat.eqb k (s_inst s)).
    + constructor; [cbn; intros H; apply app_eq_nil in H as [_ H]; discriminate|assumption].
    + constructor; [assumption|now apply IH].
Qed.
Lemma split_nonempty l : Forall (fun g => g <> []) (split_states l).
Proof.
  unfold split_states.
  assert (H : forall l g, Forall (fun p => snd p <> []) g -> Forall (fun p => snd p <> []) (fold_left add_state l g)).
  { induction l0 as [|s l0 IH]; intros g F; cbn [fold_left]; [exact F|]. apply IH. now apply add_state_nonempty. }
  specialize (H l [] (Forall_nil _)). induction H; cbn [map]; constructor; assumption.
Qed.

Lemma invocations_ok gs : forall items, Forall good items -> Forall (fun g => g <> []) gs ->
  (forallb ordered gs = true -> exists l, invocations items gs = Some l /\ Forall good l) /\
  (forallb ordered gs = false -> invocations items gs = None).
Proof.
  induction gs as [|g gs IH]; intros items Fi Fg; cbn [invocations forallb].
  - split; [intros _; exists items; split; [reflexivity|exact Fi]|discriminate].
  - inversion Fg as [|? ? Hg Fgs]; subst. destruct g as [|s l]; [contradiction|].
    destruct (ordered (s :: l)) eqn:Eo; cbn [negb andb].
    + destruct (invocation_ok items s l Eo) as [a' [Ea Sh]]. rewrite Ea.
      assert (Fa : Forall good (a_items a')).
      { destruct Sh as [->|[it [-> [G _]]]]; [exact Fi|]. apply Forall_app. split; [exact Fi|constructor; [exact G|constructor]]. }
      apply IH; assumption.
    + split; [discriminate|reflexivity].
Qed.

Theorem record_items_spec r :
  (ordered_record r = true -> exists l, record_items r = Some l /\ Forall good l) /\
  (ordered_record r = false -> record_items r = None).
Proof.
  unfold record_items, ordered_record.
  destruct (r_class r), (r_name r); try (split; [intros _; exists []; split; [reflexivity|constructor]|discriminate]).
  all: apply invocations_ok; [constructor|apply split_nonempty].
Qed.

(* ---------- the whole run log ---------- *)
Lemma insert_good x l : good x -> Forall good l -> Forall good (insert x l).
Proof.
  intros Gx F. induction F as [|y l Gy F IH]; cbn [insert]; [constructor; [exact Gx|constructor]|].
  destruct (i_start y <=? i_start x); constructor; try assumption. constructor; assumption.
Qed.
Lemma sorted_cons a b l : sorted_by_start (a :: b :: l) = (i_start a <=? i_start b) && sorted_by_start (b :: l).
Proof. reflexivity. Qed.
Lemma insert_head x l : exists h t, insert x l = h :: t /\ (h = x \/ exists t0, l = h :: t0).
Proof.
  destruct l as [|y l]; cbn [insert]; [exists x, []; split; [reflexivity|now left]|].
  destruct (i_start y <=? i_start x); [exists y, (insert x l); split; [reflexivity|right; now exists l]|exists x, (y :: l); split; [reflexivity|now left]].
Qed.
Lemma insert_sorted x l : sorted_by_start l = true -> sorted_by_start (insert x l) = true.
Proof.
  induction l as [|y l IH]; intros S; [reflexivity|]. cbn [insert].
  destruct (i_start y <=? i_start x) eqn:E.
  - assert (S2 : sorted_by_start l = true) by (destruct l; [reflexivity|rewrite sorted_cons in S; now apply andb_prop in S as [_ S]]).
    specialize (IH S2). destruct (insert_head x l) as [h [t [Eh Hh]]]. rewrite Eh in *. rewrite sorted_cons, IH, andb_true_r.
    destruct Hh as [->|[t0 ->]]; [exact E|]. rewrite sorted_cons in S. now apply andb_prop in S as [S _].
  - rewrite sorted_cons, S, andb_true_r. apply Z.leb_gt in E. apply Z.leb_le. lia.
Qed.
Lemma sort_spec l : Forall good l -> Forall good (sort_items l) /\ sorted_by_start (sort_items l) = true.
Proof.
  unfold sort_items.
  assert (H : forall l acc, Forall good l -> Forall good acc -> sorted_by_start acc = true ->
                 Forall good (fold_left (fun a x => insert x a) l acc) /\ sorted_by_start (fold_left (fun a x => insert x a) l acc) = true).
  { induction l0 as [|x l0 IH]; intros acc F Fa Sa; cbn [fold_left]; [split; assumption|].
    inversion F; subst. apply IH; [assumption|now apply insert_good|now apply insert_sorted]. }
  intros F. apply H; [exact F|constructor|reflexivity].
Qed.

Fixpoint all_ordered (rs : list record) : bool :=
  match rs with [] => true | r :: rs' => (match r_class r with CNull => true | _ => ordered_record r end) && all_ordered rs' end.

Lemma all_items_spec rs :
  (all_ordered rs = true -> exists l, all_items rs = Some l /\ Forall good l) /\
  (all_ordered rs = false -> all_items rs = None).
Proof.
  induction rs as [|r rs [IH1 IH2]]; cbn [all_items all_ordered].
  - split; [intros _; exists []; split; [reflexivity|constructor]|discriminate].
  - destruct (r_class r) eqn:Ec; cbn [andb].
    1,3,4: (destruct (record_items_spec r) as [R1 R2]; destruct (ordered_record r) eqn:Eo; cbn [andb];
            [destruct (R1 eq_refl) as [a [Ea Fa]]; rewrite Ea; split;
               [intros H; destruct (IH1 H) as [b0 [Eb Fb]]; rewrite Eb; exists (a ++ b0); split; [reflexivity|now apply Forall_app]
               |intros H; now rewrite (IH2 H)]
            |split; [discriminate|intros _; now rewrite (R2 eq_refl)]]).
    split; assumption.
Qed.

(* The run log is produced for every list of records whose invocations are time-ordered (whatever states they hold, in
   whatever order: Cancelled then Failed, Completed then Cancelled, states after a conclusive one ...), it is refused only
   for unordered ones, and every run log produced is sorted by start time and made of well-formed items. *)
Theorem runlog_total_and_wellformed rs :
  (all_ordered rs = true -> exists l, get_runlog rs = Some l /\ Forall good l /\ sorted_by_start l = true) /\
  (all_ordered rs = false -> get_runlog rs = None).
Proof.
  unfold get_runlog. destruct (all_items_spec rs) as [A B]. split.
  - intros H. destruct (A H) as [l [E F]]. rewrite E. cbn [option_map]. destruct (sort_spec l F) as [G S].
    exists (sort_items l). repeat split; assumption.
  - intros H. now rewrite (B H).
Qed.
