(* C02 (order clause): in every state of every run of the interpreter model, outside the bodies of Alarms and Macros a line
   that has started lies in a scope that has started -- a line starts only after (the visit of) its parent line has
   started. Proved with the stack invariants of Interp_stack.v: every frame of every generator (running, stored in the
   interrupt map, or in the tick's copy of the map) belongs to a line whose parent has started. *)
From Coq Require Import ZArith List Bool Arith Lia.
From OP Require Import lib.Obs model.Interp model.InterpRun proofs.Interp_inv proofs.C05_proofs proofs.Interp_fields
     proofs.C02_proofs proofs.Interp_stack.
Import ListNotations.
Open Scope Z_scope.

Section Order.
  Variable p : program.

  Definition plain (m : nat) : bool := Nat.ltb m (length p) && negb (under_alarm p m) && negb (is_blank p m).
  Definition par (c q : nat) : Prop := n_parent (nd p c) = Some q.
  (* the method tree: child lists and parent pointers agree; the root has no parent (InterpRun.wf_b, evaluated by the
     monitors on every generated method) *)
  Hypothesis WF : wf_b p = true.
  Lemma kids_par q c : In c (n_children (nd p q)) -> par c q.
  Proof.
    intros H. destruct (Nat.lt_ge_cases q (length p)) as [L|G].
    - unfold wf_b in WF. apply andb_prop in WF as [W _]. rewrite forallb_forall in W. specialize (W q). rewrite in_seq in W.
      assert (L' : (0 <= q < 0 + length p)%nat) by lia. specialize (W L'). rewrite forallb_forall in W. specialize (W c H).
      unfold par. destruct (n_parent (nd p c)) as [q'|]; [|discriminate]. apply Nat.eqb_eq in W. now subst.
    - unfold nd in H. rewrite nth_overflow in H by exact G. destruct H.
  Qed.
  Lemma root_par q : ~ par 0 q.
  Proof. unfold wf_b in WF. apply andb_prop in WF as [_ W]. unfold par. destruct (n_parent (nd p 0)); [discriminate|]. discriminate. Qed.

  Definition on (s : S) (n : nat) : Prop := plain n = true -> started (st s n) = true.
  Definition vis (s : S) (n : nat) : Prop := forall q, par n q -> plain q = true -> started (st s q) = true.
  Definition both (s : S) (n : nat) : Prop := vis s n /\ on s n.
  Definition Q (s : S) (f : frame) : Prop :=
    match f with
    | FVisit c | FThr c => vis s c
    | FRet | FProgAfter | FProgIdle => True
    | FKidsEntry n | FKids n _ | FKidsAfter n _ => on s n
    | FNodeTick n | FVisitEnd n | FMark1 n | FBlankIdle n | FBlank1 n | FBlkA n | FBlkWait n | FBlkB n | FBlkC n | FBlkEnd n
    | FWait n _ | FNoop n _ | FWatchAwait n | FWatchInv n | FWatchBody n | FAlarmAwait n | FAlarmInv n | FAlarmBody n
    | FAlarmPost n | FInjAfter n | FMacro1 n | FCallAfter n _ => both s n
    end.
  Definition T (s : S) : Prop :=
    length (nodes s) = length p
    /\ forall c q, par c q -> plain c = true -> plain q = true -> started (st s c) = true -> started (st s q) = true.
  Definition R (s s' : S) : Prop :=
    length (nodes s') = length (nodes s) /\ forall m, plain m = true -> started (st s m) = true -> started (st s' m) = true.

  Lemma R_refl s : R s s. Proof. split; auto. Qed.
  Lemma R_trans a b c : R a b -> R b c -> R a c.
  Proof. intros [L1 M1] [L2 M2]. split; [congruence|auto]. Qed.
  Lemma on_stable s s' n : R s s' -> on s n -> on s' n. Proof. intros [_ M] H P. apply M; auto. Qed.
  Lemma vis_stable s s' n : R s s' -> vis s n -> vis s' n. Proof. intros [_ M] H q Pq P. apply M; auto. Qed.
  Lemma Q_stable s s' f : R s s' -> Q s f -> Q s' f.
  Proof.
    intros H. destruct f; cbn [Q]; try exact id; try (apply vis_stable; exact H); try (apply on_stable; exact H);
      intros [A B]; (split; [eapply vis_stable|eapply on_stable]; eassumption).
  Qed.

  Lemma plain_repeats a m : repeats p a -> (m = a \/ In m (descendants p a)) -> plain m = false.
  Proof. intros K H. unfold plain. rewrite (under_alarm_of p a m K H). cbn [negb]. now rewrite andb_false_r. Qed.
  Lemma plain_blank m b : n_kind (nd p m) = KBlank b -> plain m = false.
  Proof. intros K. unfold plain, is_blank. rewrite K. cbn [negb]. apply andb_false_r. Qed.

  (* --- what a transition does to the started flags: monotone on plain lines; only visit's own line rises --- *)
  Definition Amon (m : nat) (x x' : ns) : Prop := plain m = true -> started x = true -> started x' = true.
  Lemma step_mono e b f k s m : Amon m (st s m) (st (o_state (step p e b f k s)) m).
  Proof.
    change (o_state (step p e b f k s)) with (out_state (step p e b f k s)).
    apply (step_ok p e Amon (fun _ => True)); unfold Amon; try (intros; cbn; auto; fail).
    - intros m0 x K P. rewrite (plain_blank _ _ K) in P. discriminate.
    - intros a m0 x K H P. rewrite (plain_repeats a m0 K H) in P. discriminate.
  Qed.
  Definition Anew (En : nat -> Prop) (m : nat) (x x' : ns) : Prop :=
    plain m = true -> started x' = true -> started x = true \/ En m.
  Lemma step_new e b f k s m : plain m = true -> started (st (o_state (step p e b f k s)) m) = true ->
    started (st s m) = true \/ f = FVisit m \/ f = FThr m.
  Proof.
    change (o_state (step p e b f k s)) with (out_state (step p e b f k s)).
    apply (step_okG p e (Anew (fun m => f = FVisit m \/ f = FThr m)) (fun m => f = FVisit m \/ f = FThr m)); unfold Anew;
      try (intros; cbn in *; auto; fail).
    - intros m0 x y z H1 H2 P S0. destruct (H2 P S0) as [S1|E]; auto.
    - intros m0 x K P. cbn. discriminate.
    - intros m0 x K P. rewrite (plain_blank _ _ K) in P. discriminate.
    - intros a m0 x K H P. rewrite (plain_repeats a m0 K H) in P. discriminate.
  Qed.

  (* --- the node table keeps its length --- *)
  Lemma upd_length {A} (l : list A) i x : length (upd l i x) = length l.
  Proof. revert i. induction l as [|y l IH]; intros [|i]; cbn [upd length]; auto. Qed.
  Lemma l_set_ns s n x : length (nodes (set_ns s n x)) = length (nodes s). Proof. apply upd_length. Qed.
  Lemma l_with_ints s i sr : length (nodes (with_ints s i sr)) = length (nodes s). Proof. reflexivity. Qed.
  Lemma l_with_tag s t : length (nodes (with_tag s t)) = length (nodes s). Proof. reflexivity. Qed.
  Lemma l_add_mark s n : length (nodes (add_mark s n)) = length (nodes s). Proof. reflexivity. Qed.
  Lemma l_add_sched s : length (nodes (add_sched s)) = length (nodes s). Proof. reflexivity. Qed.
  Lemma l_set_error s n : length (nodes (set_error s n)) = length (nodes s). Proof. reflexivity. Qed.
  Lemma l_with_macros s l : length (nodes (with_macros s l)) = length (nodes s). Proof. reflexivity. Qed.
  Lemma l_complete s n : length (nodes (complete s n)) = length (nodes s). Proof. apply l_set_ns. Qed.
  Lemma l_mark_completed s n : length (nodes (mark_completed s n)) = length (nodes s).
  Proof. unfold mark_completed. destruct (failed (st s n)); [reflexivity|apply l_set_ns]. Qed.
  Lemma l_fold {B} (f : S -> B -> S) : (forall s a, length (nodes (f s a)) = length (nodes s)) ->
    forall l s, length (nodes (fold_left f l s)) = length (nodes s).
  Proof. intros H. induction l as [|a l IH]; intros s; cbn [fold_left]; [reflexivity|]. now rewrite IH, H. Qed.
  Lemma l_register s n : length (nodes (register_interrupt p s n)) = length (nodes s).
  Proof. unfold register_interrupt. destruct (in_ended_block p s n); [reflexivity|]. now rewrite l_set_ns. Qed.
  Lemma l_unregister s n : length (nodes (unregister_interrupt s n)) = length (nodes s).
  Proof. unfold unregister_interrupt. cbn [nodes with_ints]. apply l_set_ns. Qed.
  Lemma l_abort s b : length (nodes (abort_block_interrupts p s b)) = length (nodes s).
  Proof.
    unfold abort_block_interrupts. apply l_fold. intros s0 x. destruct (memn (fst x) (descendants p b)); [|reflexivity].
    now rewrite l_unregister, l_set_ns.
  Qed.
  Lemma l_end_block s b : length (nodes (end_block p s b)) = length (nodes s).
  Proof. unfold end_block. now rewrite l_abort, l_set_ns. Qed.
  Lemma l_end_blocks l s : length (nodes (fold_left (end_block p) l s)) = length (nodes s).
  Proof. apply l_fold. intros. apply l_end_block. Qed.
  Lemma l_reset_tree s a : length (nodes (reset_tree p s a)) = length (nodes s).
  Proof. unfold reset_tree. apply l_fold. intros. apply l_set_ns. Qed.
  Lemma l_try_activate e s n s' : try_activate e s n = Some s' -> length (nodes s') = length (nodes s).
  Proof.
    unfold try_activate. destruct (cancelled (st s n)); [intros H; now inversion H|].
    destruct (forced (st s n)); [intros H; inversion H; apply l_set_ns|].
    destruct (memn n (e_cond_err e)); [discriminate|]. destruct (memn n (e_cond_true e)); intros H; inversion H; [apply l_set_ns|reflexivity].
  Qed.
  Hint Rewrite l_set_ns l_with_ints l_with_tag l_add_mark l_add_sched l_set_error l_with_macros l_complete l_mark_completed
       l_register l_unregister l_abort l_end_block l_end_blocks l_reset_tree : len.

  Ltac cases := repeat match goal with
                       | |- context [match try_activate ?e ?s ?n with _ => _ end] =>
                           let X := fresh "X" in destruct (try_activate e s n) eqn:X
                       | |- context [match ?x with _ => _ end] => destruct x eqn:?
                       end.
  Ltac unf := unfold thr_loop, enter, block_wait_end, block_try, block_release, watch_await, alarm_await.

  Lemma step_len e b f k s : length (nodes (o_state (step p e b f k s))) = length (nodes s).
  Proof.
    destruct f; cbn [step]; unf.
    3: unfold dispatch; unf.
    all: cases; cbn [o_state]; autorewrite with len; try reflexivity.
    all: match goal with X : try_activate _ _ _ = Some _ |- _ => apply l_try_activate in X; congruence end.
  Qed.

  (* --- the interrupt map: entries disappear, are kept, or are fresh generators [FVisit n] of the line n at hand --- *)
  Definition isub (N : nat -> Prop) (s s' : S) : Prop :=
    forall x, In x (ints s') -> In x (ints s) \/ exists n, N n /\ snd (snd x) = [FVisit n].
  Lemma isub_refl N s : isub N s s. Proof. intros x H. now left. Qed.
  Lemma isub_trans N a b c : isub N a b -> isub N b c -> isub N a c.
  Proof. intros H1 H2 x H. destruct (H2 x H) as [H3|H3]; [now apply H1|now right]. Qed.
  Lemma isub_same N s s' : ints s' = ints s -> isub N s s'. Proof. intros E x H. left. now rewrite <- E. Qed.
  Lemma isub_set_ns N s n x : isub N s (set_ns s n x). Proof. now apply isub_same. Qed.
  Lemma isub_with_tag N s t : isub N s (with_tag s t). Proof. now apply isub_same. Qed.
  Lemma isub_add_mark N s n : isub N s (add_mark s n). Proof. now apply isub_same. Qed.
  Lemma isub_add_sched N s : isub N s (add_sched s). Proof. now apply isub_same. Qed.
  Lemma isub_set_error N s n : isub N s (set_error s n). Proof. now apply isub_same. Qed.
  Lemma isub_with_macros N s l : isub N s (with_macros s l). Proof. now apply isub_same. Qed.
  Lemma isub_complete N s n : isub N s (complete s n). Proof. now apply isub_same. Qed.
  Lemma isub_mark_completed N s n : isub N s (mark_completed s n).
  Proof. apply isub_same. unfold mark_completed. now destruct (failed (st s n)). Qed.
  Lemma isub_fold N {B} (f : S -> B -> S) : (forall s a, isub N s (f s a)) -> forall l s, isub N s (fold_left f l s).
  Proof.
    intros H. induction l as [|a l IH]; intros s; cbn [fold_left]; [apply isub_refl|].
    eapply isub_trans; [apply H|apply IH].
  Qed.
  Lemma isub_unregister N s n : isub N s (unregister_interrupt s n).
  Proof. intros x H. left. unfold unregister_interrupt in H. cbn [ints with_ints set_ns] in H. unfold del_int in H. now apply filter_In in H. Qed.
  Lemma put_int_In l n g x : In x (put_int l n g) -> In x l \/ x = (n, g).
  Proof.
    induction l as [|[m g0] l IH]; cbn [put_int In]; [intros [H|[]]; now right|].
    destruct (Nat.eqb m n) eqn:E; cbn [In].
    - apply Nat.eqb_eq in E. subst m. intros [H|H]; [now right|left; now right].
    - intros [H|H]; [left; now left|]. destruct (IH H) as [A|A]; [left; now right|now right].
  Qed.
  Lemma isub_register (N : nat -> Prop) s n : N n -> isub N s (register_interrupt p s n).
  Proof.
    intros Nn x H. unfold register_interrupt in H. destruct (in_ended_block p s n); [now left|].
    cbn [ints with_ints set_ns] in H. apply put_int_In in H as [H|H]; [now left|]. right. exists n. split; [exact Nn|now subst x].
  Qed.
  Lemma isub_abort N s b : isub N s (abort_block_interrupts p s b).
  Proof.
    unfold abort_block_interrupts. apply isub_fold. intros s0 x. destruct (memn (fst x) (descendants p b)); [|apply isub_refl].
    eapply isub_trans; [apply isub_set_ns|apply isub_unregister].
  Qed.
  Lemma isub_end_block N s b : isub N s (end_block p s b).
  Proof. unfold end_block. eapply isub_trans; [apply isub_set_ns|apply isub_abort]. Qed.
  Lemma isub_end_blocks N l s : isub N s (fold_left (end_block p) l s).
  Proof. apply isub_fold. intros. apply isub_end_block. Qed.
  Lemma isub_reset_tree N s a : isub N s (reset_tree p s a).
  Proof. unfold reset_tree. apply isub_fold. intros. apply isub_set_ns. Qed.
  Lemma isub_try_activate N e s n s' : try_activate e s n = Some s' -> isub N s s'.
  Proof.
    unfold try_activate. destruct (cancelled (st s n)); [intros H; inversion H; apply isub_refl|].
    destruct (forced (st s n)); [intros H; inversion H; apply isub_set_ns|].
    destruct (memn n (e_cond_err e)); [discriminate|].
    destruct (memn n (e_cond_true e)); intros H; inversion H; [apply isub_set_ns|apply isub_refl].
  Qed.

  Ltac isub1 := lazymatch goal with
                | |- isub _ _ (set_ns _ _ _) => apply isub_set_ns
                | |- isub _ _ (with_tag _ _) => apply isub_with_tag
                | |- isub _ _ (add_mark _ _) => apply isub_add_mark
                | |- isub _ _ (add_sched _) => apply isub_add_sched
                | |- isub _ _ (set_error _ _) => apply isub_set_error
                | |- isub _ _ (with_macros _ _) => apply isub_with_macros
                | |- isub _ _ (complete _ _) => apply isub_complete
                | |- isub _ _ (mark_completed _ _) => apply isub_mark_completed
                | |- isub _ _ (unregister_interrupt _ _) => apply isub_unregister
                | |- isub _ _ (abort_block_interrupts _ _ _) => apply isub_abort
                | |- isub _ _ (end_block _ _ _) => apply isub_end_block
                | |- isub _ _ (fold_left (end_block _) _ _) => apply isub_end_blocks
                | |- isub _ _ (reset_tree _ _ _) => apply isub_reset_tree
                | |- isub _ _ (register_interrupt _ _ _) => apply isub_register; first [left; reflexivity | right; reflexivity]
                end.
  Ltac isub := repeat first [ apply isub_refl | (eapply isub_trans; [|isub1]) ].

  Lemma step_ints e b f k s :
    isub (fun n => f = FNodeTick n \/ f = FAlarmPost n) s (o_state (step p e b f k s)).
  Proof.
    destruct f; cbn [step]; unf.
    3: unfold dispatch; unf.
    all: cases; cbn [o_state]; try (isub; fail).
    all: match goal with X : try_activate _ _ _ = Some _ |- _ => apply (isub_try_activate _ _ _ _ _ X) end.
  Qed.

  (* --- the frames a transition pushes --- *)
  Lemma plain_lt s n : T s -> plain n = true -> Nat.ltb n (length (nodes s)) = true.
  Proof. intros [L _] P. rewrite L. unfold plain in P. now destruct (Nat.ltb n (length p)). Qed.
  Lemma on_enter s n : T s -> on (set_ns s n (set_started (st s n) true)) n.
  Proof. intros HT P. rewrite st_set_ns, Nat.eqb_refl, (plain_lt s n HT P). reflexivity. Qed.
  Lemma on_macro s m nm : n_kind (nd p m) = KMacro nm -> on s m.
  Proof. intros K P. rewrite (plain_repeats m m) in P; [discriminate|right; eauto|now left]. Qed.
  Lemma vis_kid s n i c : nth_error (n_children (nd p n)) i = Some c -> on s n -> vis s c.
  Proof.
    intros H Ho q Pq P. apply nth_error_In in H. apply kids_par in H. unfold par in *. rewrite H in Pq. inversion Pq; subst. now apply Ho.
  Qed.

  Ltac frame HR :=
    lazymatch goal with
    | |- True => exact I
    | |- both _ _ => split; frame HR
    | |- vis _ _ => first [ eapply vis_stable; [exact HR|assumption]
                          | match goal with H : nth_error _ _ = Some ?c |- vis _ ?c =>
                              eapply vis_kid; [exact H|eapply on_stable; [exact HR|assumption]] end ]
    | |- on _ _ => first [ eapply on_stable; [exact HR|assumption]
                         | match goal with HT : T _ |- _ => apply (on_enter _ _ HT) end
                         | match goal with H : n_kind (nd p ?m) = KMacro _ |- on _ ?m => apply (on_macro _ _ _ H) end ]
    end.

  Lemma step_frames e b f k s : T s -> Q s f ->
    R s (o_state (step p e b f k s)) -> Forall (Q (o_state (step p e b f k s))) k ->
    Forall (Q (o_state (step p e b f k s))) (o_stack (step p e b f k s)).
  Proof.
    intros HT HQ. destruct f; cbn [Q] in HQ; try (match type of HQ with both _ _ => destruct HQ as [Hv Ho] end); cbn [step]; unf.
    3: unfold dispatch; unf.
    all: cases; cbn [o_state o_stack]. all: try (intros HR Hk; repeat (apply Forall_cons); try exact Hk; cbn [Q]; try (frame HR; fail)).
  Qed.

  (* --- one transition --- *)
  Lemma step_R e b f k s : R s (o_state (step p e b f k s)).
  Proof. split; [apply step_len|]. intros m P S0. now apply (step_mono e b f k s m). Qed.

  Lemma step_G e b f k s : G Q T s (f :: k) ->
    R s (o_state (step p e b f k s)) /\ G Q T (o_state (step p e b f k s)) (o_stack (step p e b f k s)).
  Proof.
    intros [HT [HF HO]]. pose proof (Forall_inv HF) as HQ. pose proof (Forall_inv_tail HF) as Hk.
    pose proof (step_R e b f k s) as HR. split; [exact HR|].
    assert (Hk' : Forall (Q (o_state (step p e b f k s))) k) by (eapply Forall_impl; [|exact Hk]; intros a; now apply Q_stable).
    split; [|split].
    - destruct HT as [L HT]. split; [now rewrite step_len|]. intros c q Pq Pc Pl Sc.
      destruct (step_new e b f k s c Pc Sc) as [S0|[E|E]].
      + apply HR; [exact Pl|]. now apply (HT c q).
      + subst f. cbn [Q] in HQ. apply HR; [exact Pl|]. now apply HQ.
      + subst f. cbn [Q] in HQ. apply HR; [exact Pl|]. now apply HQ.
    - now apply step_frames.
    - intros x Hx. destruct (step_ints e b f k s x Hx) as [Hin|[n [E Ex]]].
      + eapply Forall_impl; [|exact (HO x Hin)]. intros a. now apply Q_stable.
      + rewrite Ex. constructor; [|constructor]. cbn [Q]. eapply vis_stable; [exact HR|].
        destruct E as [E|E]; subst f; cbn [Q] in HQ; apply HQ.
  Qed.

  (* --- the updates outside the transitions change no started flag --- *)
  Lemma same_R s s' : length (nodes s') = length (nodes s) -> (forall m, started (st s' m) = started (st s m)) -> R s s'.
  Proof. intros L E. split; [exact L|]. intros m _ S0. now rewrite E. Qed.
  Lemma same_T s s' : length (nodes s') = length (nodes s) -> (forall m, started (st s' m) = started (st s m)) -> T s -> T s'.
  Proof. intros L E [L0 H]. split; [congruence|]. intros c q Pq Pc Pl. rewrite !E. now apply H. Qed.
  Lemma started_set_ns s n x m : started x = started (st s n) -> started (st (set_ns s n x) m) = started (st s m).
  Proof.
    intros E. rewrite st_set_ns. destruct (Nat.eqb m n && Nat.ltb n (length (nodes s))) eqn:C; [|reflexivity].
    apply andb_prop in C as [C _]. apply Nat.eqb_eq in C. now subst.
  Qed.
  Lemma started_fail s n m : started (st (set_error (set_ns s n (set_failed (st s n) true)) n) m) = started (st s m).
  Proof. change (st (set_error ?a n) m) with (st a m). now apply started_set_ns. Qed.
  Lemma started_cmd s n m : started (st (mark_completed s n) m) = started (st s m).
  Proof. unfold mark_completed. destruct (failed (st s n)); [reflexivity|]. now apply started_set_ns. Qed.

  Lemma init_started c : started (st (init p) c) = false.
  Proof.
    unfold st, init. cbn [nodes]. destruct (nth_in_or_default c (repeat ns0 (length p)) ns0) as [H|H].
    - apply repeat_spec in H. now rewrite H.
    - now rewrite H.
  Qed.

  Theorem order_always ts : Forall T (states p [FVisit 0] (init p) 0 ts).
  Proof.
    apply (run_G p Q T R R_refl R_trans Q_stable step_G).
    - intros s n. apply same_R; [apply l_set_ns|apply started_fail].
    - intros s n. apply same_T; [apply l_set_ns|apply started_fail].
    - intros s i sr. now apply same_R.
    - intros s i sr. now apply same_T.
    - intros s n. apply same_R; [apply l_mark_completed|apply started_cmd].
    - intros s n. apply same_T; [apply l_mark_completed|apply started_cmd].
    - intros s. now apply same_R.
    - intros s. now apply same_T.
    - split; [|split].
      + split; [unfold init; cbn [nodes]; apply repeat_length|]. intros c q _ _ _ Sc. now rewrite init_started in Sc.
      + constructor; [|constructor]. cbn [Q]. intros q Pq. now apply root_par in Pq.
      + intros x [].
  Qed.

  (* the same over runs in which updates are applied between the ticks that change no started flag, keep the node table's
     length and leave the interrupt map alone or add fresh generators [FVisit r] of parentless roots r (cancel / force
     requests; injected snippets) *)
  Theorem order_always_upd (upd : Type) (apply : S -> upd -> S) :
    (forall s u m, started (st (apply s u) m) = started (st s m)) ->
    (forall s u, length (nodes (apply s u)) = length (nodes s)) ->
    (forall s u x, In x (ints (apply s u)) -> In x (ints s) \/ exists r, n_parent (nd p r) = None /\ snd (snd x) = [FVisit r]) ->
    forall ts, Forall T (gstates p upd apply [FVisit 0] (init p) 0 ts).
  Proof.
    intros Es El Ei ts. apply (grun_G p Q T R R_refl R_trans Q_stable step_G).
    - intros s n. apply same_R; [apply l_set_ns|apply started_fail].
    - intros s n. apply same_T; [apply l_set_ns|apply started_fail].
    - intros s i sr. now apply same_R.
    - intros s i sr. now apply same_T.
    - intros s n. apply same_R; [apply l_mark_completed|apply started_cmd].
    - intros s n. apply same_T; [apply l_mark_completed|apply started_cmd].
    - intros s. now apply same_R.
    - intros s. now apply same_T.
    - intros s u. apply same_R; [apply El|apply Es].
    - intros s u. apply same_T; [apply El|apply Es].
    - intros s u _ O x Hx. destruct (Ei s u x Hx) as [Hin|[r [Pr Ex]]].
      + eapply Forall_impl; [|exact (O x Hin)]. intros a. apply Q_stable. apply same_R; [apply El|apply Es].
      + rewrite Ex. constructor; [|constructor]. cbn [Q]. intros q Pq. unfold par in Pq. congruence.
    - split; [|split].
      + split; [unfold init; cbn [nodes]; apply repeat_length|]. intros c q _ _ _ Sc. now rewrite init_started in Sc.
      + constructor; [|constructor]. cbn [Q]. intros q Pq. now apply root_par in Pq.
      + intros x [].
  Qed.
End Order.

(* the statement for the property file *)
Theorem started_line_lies_in_started_scope p ts : wf_b p = true ->
  Forall (fun s => forall c q, n_parent (nd p c) = Some q -> plain p c = true -> plain p q = true ->
                               started (st s c) = true -> started (st s q) = true)
         (states p [FVisit 0] (init p) 0 ts).
Proof.
  intros W. eapply Forall_impl; [|exact (order_always p W ts)]. intros s [_ H]. exact H.
Qed.
