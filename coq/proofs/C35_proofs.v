From Coq Require Import ZArith List Bool Lia.
From OP Require Import lib.Obs model.C35.
Import ListNotations.
Open Scope Z_scope.

Lemma aggregate_app log b1 b2 :
  aggregate (aggregate log b1) b2 = aggregate log (b1 ++ b2).
Proof. unfold aggregate. now rewrite fold_left_app. Qed.

Lemma aggregate_batches_concat bs : forall log,
  aggregate_batches log bs = aggregate log (concat bs).
Proof.
  induction bs as [|b bs IH]; intros log; cbn [aggregate_batches fold_left concat].
  - reflexivity.
  - unfold aggregate_batches in IH. rewrite IH. apply aggregate_app.
Qed.

(* ---- refinement to group_runs ---- *)
Lemma aggregate_cons_spec es : forall a rest,
  rev (aggregate (a :: rest) es) = rev rest ++ group_runs_aux a es.
Proof.
  induction es as [|e es IH]; intros a rest.
  - cbn. reflexivity.
  - unfold aggregate. cbn [fold_left]. unfold step_log at 2. cbn [step fst].
    cbn [group_runs_aux].
    destruct (same_key a e) eqn:Hk.
    + destruct (a_time a <? e_time e) eqn:Hlt; cbn [fst].
      * apply IH.
      * destruct (a_time a =? e_time e); cbn [fst]; apply IH.
    + cbn [fst]. fold (aggregate (from_entry e :: a :: rest) es).
      rewrite IH. cbn [rev]. now rewrite <- app_assoc.
Qed.

Lemma aggregate_spec es : rev (aggregate [] es) = group_runs es.
Proof.
  destruct es as [|e es]; [reflexivity|].
  unfold aggregate. cbn [fold_left]. unfold step_log at 2. cbn [step fst].
  fold (aggregate [from_entry e] es). now rewrite aggregate_cons_spec.
Qed.

(* ---- conservation ---- *)
Definition total (log : list agg) : Z := fold_right (fun a s => a_occ a + s) 0 log.
Definition kindn (k : kind) (k' : kind) : Z :=
  match k, k' with
  | New, New | Merged, Merged | Redelivered, Redelivered | Earlier, Earlier => 1
  | _, _ => 0 end.

(* counts of redelivered / earlier entries along a run *)
Fixpoint count (k : kind) (log : list agg) (es : list entry) : Z :=
  match es with
  | [] => 0
  | e :: es' => kindn k (snd (step log e)) + count k (step_log log e) es'
  end.

Lemma step_total log e :
  total (step_log log e) + kindn Redelivered (snd (step log e)) + kindn Earlier (snd (step log e))
  = total log + 1.
Proof.
  unfold step_log, step. destruct log as [|a rest].
  - cbn [fst snd total fold_right kindn from_entry a_occ]. lia.
  - destruct (same_key a e).
    + destruct (a_time a <? e_time e).
      * cbn [fst snd total fold_right kindn a_occ]. lia.
      * destruct (a_time a =? e_time e); cbn [fst snd total fold_right kindn a_occ]; lia.
    + cbn [fst snd total fold_right kindn from_entry a_occ]. lia.
Qed.

Lemma conservation es : forall log,
  total (aggregate log es) + count Redelivered log es + count Earlier log es
  = total log + Z.of_nat (length es).
Proof.
  induction es as [|e es IH]; intros log.
  - unfold aggregate. cbn [fold_left count length]. change (Z.of_nat 0) with 0. lia.
  - unfold aggregate. cbn [fold_left count length]. fold (aggregate (step_log log e) es).
    specialize (IH (step_log log e)). pose proof (step_total log e). lia.
Qed.

(* Within a run of equal keys, times never go backwards => nothing is dropped. *)
Fixpoint nondecreasing_runs_aux (cur : agg) (es : list entry) : Prop :=
  match es with
  | [] => True
  | e :: es' =>
      if same_key cur e then
        a_time cur <= e_time e /\
        nondecreasing_runs_aux
          (if a_time cur <? e_time e
           then {| a_msg := a_msg cur; a_sev := a_sev cur; a_time := e_time e; a_occ := a_occ cur + 1 |}
           else cur) es'
      else nondecreasing_runs_aux (from_entry e) es'
  end.
Definition nondecreasing_runs (es : list entry) : Prop :=
  match es with [] => True | e :: es' => nondecreasing_runs_aux (from_entry e) es' end.

Lemma no_earlier_aux es : forall a rest,
  nondecreasing_runs_aux a es -> count Earlier (a :: rest) es = 0.
Proof.
  induction es as [|e es IH]; intros a rest H; cbn [count]; [reflexivity|].
  cbn [nondecreasing_runs_aux] in H. unfold step_log, step.
  destruct (same_key a e) eqn:Hk.
  - destruct H as [Hle H].
    destruct (a_time a <? e_time e) eqn:Hlt; cbn [fst snd kindn].
    + rewrite IH by exact H. reflexivity.
    + destruct (a_time a =? e_time e) eqn:Heq; cbn [fst snd kindn].
      * rewrite IH by exact H. reflexivity.
      * apply Z.ltb_ge in Hlt. apply Z.eqb_neq in Heq. lia.
  - cbn [fst snd kindn]. rewrite IH by exact H. reflexivity.
Qed.

Lemma no_earlier es : nondecreasing_runs es -> count Earlier [] es = 0.
Proof.
  destruct es as [|e es]; intros H; [reflexivity|].
  cbn [count]. unfold step_log. cbn [step fst snd kindn].
  now rewrite no_earlier_aux.
Qed.

Lemma nothing_lost es :
  nondecreasing_runs es ->
  total (aggregate [] es) + count Redelivered [] es = Z.of_nat (length es).
Proof.
  intros H. pose proof (conservation es []) as C. rewrite (no_earlier es H) in C.
  cbn [total fold_right] in C. lia.
Qed.

(* ---- order: keys of the log = input keys with adjacent repeats removed ---- *)
Definition ekey (e : entry) := (e_msg e, e_sev e).
Definition akey (a : agg) := (a_msg a, a_sev a).
Definition key_eqb (k1 k2 : Z * Z) := (fst k1 =? fst k2) && (snd k1 =? snd k2).
Fixpoint compress_aux (cur : Z * Z) (ks : list (Z * Z)) : list (Z * Z) :=
  match ks with
  | [] => [cur]
  | k :: ks' => if key_eqb k cur then compress_aux cur ks' else cur :: compress_aux k ks'
  end.
Definition compress ks := match ks with [] => [] | k :: ks' => compress_aux k ks' end.

Lemma group_runs_aux_keys es : forall a,
  map akey (group_runs_aux a es) = compress_aux (akey a) (map ekey es).
Proof.
  induction es as [|e es IH]; intros a; cbn [group_runs_aux map compress_aux]; [reflexivity|].
  assert (Hk : key_eqb (ekey e) (akey a) = same_key a e) by reflexivity.
  rewrite Hk. destruct (same_key a e).
  - rewrite IH. destruct (a_time a <? e_time e); reflexivity.
  - cbn [map]. rewrite IH. reflexivity.
Qed.

Lemma order_kept es :
  map akey (rev (aggregate [] es)) = compress (map ekey es).
Proof.
  rewrite aggregate_spec. destruct es as [|e es]; [reflexivity|].
  cbn [group_runs map compress]. now rewrite group_runs_aux_keys.
Qed.

(* occurrences: 1 + number of strict increases inside the run *)
Fixpoint increases (t : Z) (ts : list Z) : Z :=
  match ts with
  | [] => 0
  | t' :: ts' => if t <? t' then 1 + increases t' ts' else increases t ts'
  end.
Fixpoint last_max (t : Z) (ts : list Z) : Z :=
  match ts with
  | [] => t
  | t' :: ts' => if t <? t' then last_max t' ts' else last_max t ts'
  end.

Lemma single_run_count a es :
  forallb (same_key a) es = true ->
  group_runs_aux a es =
  [{| a_msg := a_msg a; a_sev := a_sev a;
      a_time := last_max (a_time a) (map e_time es);
      a_occ := a_occ a + increases (a_time a) (map e_time es) |}].
Proof.
  revert a. induction es as [|e es IH]; intros a H.
  - cbn. destruct a; cbn. f_equal. f_equal. lia.
  - cbn [forallb] in H. apply andb_true_iff in H as [Hk H].
    cbn [group_runs_aux map last_max increases]. rewrite Hk.
    destruct (a_time a <? e_time e) eqn:Hlt.
    + rewrite IH; cbn [a_msg a_sev a_time a_occ].
      * f_equal. f_equal. lia.
      * exact H.
    + now rewrite IH.
Qed.

(* monitor soundness: holds_b says exactly "output = group_runs of the stream" *)
Lemma q4_eqb_eq a b : q4_eqb a b = true <-> a = b.
Proof.
  destruct a as [[[a1 a2] a3] a4], b as [[[b1 b2] b3] b4]. unfold q4_eqb.
  rewrite !andb_true_iff, !Z.eqb_eq. split; [intros [[[-> ->] ->] ->]; reflexivity|].
  intros H; inversion H; auto.
Qed.

Lemma list_eqb_eq {A} (eqb : A -> A -> bool) :
  (forall x y, eqb x y = true <-> x = y) ->
  forall a b, list_eqb eqb a b = true <-> a = b.
Proof.
  intros He. induction a as [|x a IH]; destruct b as [|y b]; cbn; try (split; congruence).
  rewrite andb_true_iff, He, IH. split; [intros [-> ->]; reflexivity|]. intros H; inversion H; auto.
Qed.

Lemma model_satisfies_monitor i : holds_b i (run i) = true.
Proof.
  unfold holds_b, run, out_eqb. apply (list_eqb_eq _ (list_eqb_eq _ q4_eqb_eq)).
  induction i as [|seg i IH]; cbn [run_from map]; [reflexivity|].
  unfold clear at 1. rewrite IH. f_equal. unfold out_of.
  now rewrite aggregate_batches_concat, concat_map, aggregate_spec.
Qed.
