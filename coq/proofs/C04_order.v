(* C04 (activation clause): in every state of every run of the interpreter model, outside the bodies of Alarms and Macros a
   started line whose parent is a Watch has an ACTIVATED parent -- the body of a Watch runs only after its condition held.
   Same stack invariant technique as C02_order.v: every frame that may push the children loop of a Watch carries the
   activation of that Watch, and activation is never withdrawn outside Alarm / Macro bodies. *)
From Coq Require Import ZArith List Bool Arith Lia.
From OP Require Import lib.Obs model.Interp model.InterpRun proofs.Interp_inv proofs.C05_proofs proofs.Interp_fields
     proofs.C02_proofs proofs.Interp_stack proofs.C02_order.
Import ListNotations.
Open Scope Z_scope.

Section Activation.
  Variable p : program.
  Hypothesis WF : wf_b p = true.

  Definition isW (q : nat) : bool := match n_kind (nd p q) with KWatch => true | _ => false end.
  Definition actd (s : S) (q : nat) : Prop := plain p q = true -> isW q = true -> activated (st s q) = true.
  Definition visA (s : S) (n : nat) : Prop := forall q, par p n q -> actd s q.
  Definition Q (s : S) (f : frame) : Prop :=
    match f with
    | FVisit c | FThr c => visA s c
    | FRet | FProgAfter | FProgIdle => True
    | FKidsEntry n | FKids n _ | FKidsAfter n _ => actd s n
    | FBlkA n | FBlkWait n | FBlkB n | FWatchInv n | FAlarmInv n => visA s n /\ actd s n
    | FNodeTick n | FVisitEnd n | FMark1 n | FBlankIdle n | FBlank1 n | FBlkC n | FBlkEnd n
    | FWait n _ | FNoop n _ | FWatchAwait n | FWatchBody n | FAlarmAwait n | FAlarmBody n
    | FAlarmPost n | FInjAfter n | FMacro1 n | FCallAfter n _ => visA s n
    end.
  Definition T (s : S) : Prop :=
    forall c q, par p c q -> plain p c = true -> started (st s c) = true -> actd s q.
  Definition R (s s' : S) : Prop := forall m, plain p m = true -> activated (st s m) = true -> activated (st s' m) = true.

  Lemma R_refl s : R s s. Proof. intros m _ H. exact H. Qed.
  Lemma R_trans a b c : R a b -> R b c -> R a c. Proof. intros H1 H2 m P H. auto. Qed.
  Lemma actd_stable s s' n : R s s' -> actd s n -> actd s' n. Proof. intros H A P W. apply H; auto. Qed.
  Lemma visA_stable s s' n : R s s' -> visA s n -> visA s' n. Proof. intros H V q Pq. eapply actd_stable; eauto. Qed.
  Lemma Q_stable s s' f : R s s' -> Q s f -> Q s' f.
  Proof.
    intros H. destruct f; cbn [Q]; try exact id; try (apply visA_stable; exact H); try (apply actd_stable; exact H);
      intros [A B]; (split; [eapply visA_stable|eapply actd_stable]; eassumption).
  Qed.

  Definition Aact (m : nat) (x x' : ns) : Prop := plain p m = true -> activated x = true -> activated x' = true.
  Lemma step_R e b f k s : R s (o_state (step p e b f k s)).
  Proof.
    intros m. change (o_state (step p e b f k s)) with (out_state (step p e b f k s)).
    apply (step_ok p e Aact (fun _ => True)); unfold Aact; try (intros; cbn; auto; fail).
    intros a m0 x K H P. rewrite (plain_repeats p a m0 K H) in P. discriminate.
  Qed.

  Lemma actd_kind s n : isW n = false -> actd s n. Proof. intros K _ W. congruence. Qed.
  Lemma visA_kid s n i c : nth_error (n_children (nd p n)) i = Some c -> actd s n -> visA s c.
  Proof.
    intros H A q Pq. apply nth_error_In in H. apply (kids_par p WF) in H. unfold par in *. rewrite H in Pq. inversion Pq; subst. exact A.
  Qed.

  Ltac cases := repeat match goal with
                       | |- context [match try_activate ?e ?s ?n with _ => _ end] =>
                           let X := fresh "X" in destruct (try_activate e s n) eqn:X
                       | |- context [match ?x with _ => _ end] => destruct x eqn:?
                       end.
  Ltac unf := unfold thr_loop, enter, block_wait_end, block_try, block_release, watch_await, alarm_await.
  Ltac frame HR :=
    lazymatch goal with
    | |- True => exact I
    | |- _ /\ _ => split; frame HR
    | |- visA _ _ => first [ eapply visA_stable; [exact HR|assumption]
                           | match goal with H : nth_error _ _ = Some ?c |- visA _ ?c =>
                               eapply visA_kid; [exact H|eapply actd_stable; [exact HR|assumption]] end ]
    | |- actd _ ?n => first [ eapply actd_stable; [exact HR|assumption]
                            | match goal with K : n_kind (nd p n) = _ |- _ => apply actd_kind; unfold isW; rewrite K; reflexivity end
                            | match goal with H : activated (st ?s n) = true |- _ =>
                                eapply actd_stable; [exact HR|intros _ _; exact H] end ]
    end.

  Lemma step_frames e b f k s : Q s f ->
    R s (o_state (step p e b f k s)) -> Forall (Q (o_state (step p e b f k s))) k ->
    Forall (Q (o_state (step p e b f k s))) (o_stack (step p e b f k s)).
  Proof.
    intros HQ. destruct f; cbn [Q] in HQ; try (match type of HQ with _ /\ _ => destruct HQ as [Hv Ho] end); cbn [step]; unf.
    3: unfold dispatch; unf.
    all: cases; cbn [o_state o_stack]. all: try (intros HR Hk; repeat (apply Forall_cons); try exact Hk; cbn [Q]; try (frame HR; fail)).
  Qed.

  Lemma step_G e b f k s : G Q T s (f :: k) ->
    R s (o_state (step p e b f k s)) /\ G Q T (o_state (step p e b f k s)) (o_stack (step p e b f k s)).
  Proof.
    intros [HT [HF HO]]. pose proof (Forall_inv HF) as HQ. pose proof (Forall_inv_tail HF) as Hk.
    pose proof (step_R e b f k s) as HR. split; [exact HR|].
    assert (Hk' : Forall (Q (o_state (step p e b f k s))) k) by (eapply Forall_impl; [|exact Hk]; intros a; now apply Q_stable).
    split; [|split].
    - intros c q Pq Pc Sc. destruct (step_new p e b f k s c Pc Sc) as [S0|[E|E]].
      + eapply actd_stable; [exact HR|]. now apply (HT c q).
      + subst f. cbn [Q] in HQ. eapply actd_stable; [exact HR|]. now apply HQ.
      + subst f. cbn [Q] in HQ. eapply actd_stable; [exact HR|]. now apply HQ.
    - now apply step_frames.
    - intros x Hx. destruct (step_ints p e b f k s x Hx) as [Hin|[n [E Ex]]].
      + eapply Forall_impl; [|exact (HO x Hin)]. intros a. now apply Q_stable.
      + rewrite Ex. constructor; [|constructor]. cbn [Q]. eapply visA_stable; [exact HR|].
        destruct E as [E|E]; subst f; cbn [Q] in HQ; apply HQ.
  Qed.

  Lemma same_R s s' : (forall m, activated (st s' m) = activated (st s m)) -> R s s'.
  Proof. intros E m _ H. now rewrite E. Qed.
  Lemma same_T s s' : (forall m, activated (st s' m) = activated (st s m)) -> (forall m, started (st s' m) = started (st s m)) ->
    T s -> T s'.
  Proof. intros E1 E2 H c q Pq Pc Sc P W. rewrite E1. rewrite E2 in Sc. now apply (H c q). Qed.
  Lemma activated_set_ns s n x m : activated x = activated (st s n) -> activated (st (set_ns s n x) m) = activated (st s m).
  Proof.
    intros E. rewrite st_set_ns. destruct (Nat.eqb m n && Nat.ltb n (length (nodes s))) eqn:C; [|reflexivity].
    apply andb_prop in C as [C _]. apply Nat.eqb_eq in C. now subst.
  Qed.
  Lemma activated_fail s n m : activated (st (set_error (set_ns s n (set_failed (st s n) true)) n) m) = activated (st s m).
  Proof. change (st (set_error ?a n) m) with (st a m). now apply activated_set_ns. Qed.
  Lemma activated_cmd s n m : activated (st (mark_completed s n) m) = activated (st s m).
  Proof. unfold mark_completed. destruct (failed (st s n)); [reflexivity|]. now apply activated_set_ns. Qed.

  Theorem activation_always ts : Forall T (states p [FVisit 0] (init p) 0 ts).
  Proof.
    apply (run_G p Q T R R_refl R_trans Q_stable step_G).
    - intros s n. apply same_R. apply activated_fail.
    - intros s n. apply same_T; [apply activated_fail|apply started_fail].
    - intros s i sr. now apply same_R.
    - intros s i sr. now apply same_T.
    - intros s n. apply same_R. apply activated_cmd.
    - intros s n. apply same_T; [apply activated_cmd|apply started_cmd].
    - intros s. now apply same_R.
    - intros s. now apply same_T.
    - split; [|split].
      + intros c q _ _ Sc. now rewrite init_started in Sc.
      + constructor; [|constructor]. cbn [Q]. intros q Pq. now apply (root_par p WF) in Pq.
      + intros x [].
  Qed.

  (* the same over runs in which further updates that touch neither started nor activated flags nor the interrupt map are
     applied between the ticks, or add fresh generators of parentless roots (cancel / force requests, proofs/C12_runs.v;
     injected snippets, proofs/C14_order.v) *)
  Theorem activation_always_upd (upd : Type) (apply : S -> upd -> S) :
    (forall s u m, activated (st (apply s u) m) = activated (st s m)) ->
    (forall s u m, started (st (apply s u) m) = started (st s m)) ->
    (forall s u x, In x (ints (apply s u)) -> In x (ints s) \/ exists r, n_parent (nd p r) = None /\ snd (snd x) = [FVisit r]) ->
    forall ts, Forall T (gstates p upd apply [FVisit 0] (init p) 0 ts).
  Proof.
    intros Ea Es Ei ts. apply (grun_G p Q T R R_refl R_trans Q_stable step_G).
    - intros s n. apply same_R. apply activated_fail.
    - intros s n. apply same_T; [apply activated_fail|apply started_fail].
    - intros s i sr. now apply same_R.
    - intros s i sr. now apply same_T.
    - intros s n. apply same_R. apply activated_cmd.
    - intros s n. apply same_T; [apply activated_cmd|apply started_cmd].
    - intros s. now apply same_R.
    - intros s. now apply same_T.
    - intros s u. apply same_R. apply Ea.
    - intros s u. apply same_T; [apply Ea|apply Es].
    - intros s u _ O x Hx. destruct (Ei s u x Hx) as [Hin|[r [Pr Ex]]].
      + eapply Forall_impl; [|exact (O x Hin)]. intros a. apply Q_stable. apply same_R. apply Ea.
      + rewrite Ex. constructor; [|constructor]. cbn [Q]. intros q Pq. unfold par in Pq. congruence.
    - split; [|split].
      + intros c q _ _ Sc. now rewrite init_started in Sc.
      + constructor; [|constructor]. cbn [Q]. intros q Pq. now apply (root_par p WF) in Pq.
      + intros x [].
  Qed.
End Activation.

Theorem watch_body_runs_only_after_activation p ts : wf_b p = true ->
  Forall (fun s => forall c q, n_parent (nd p c) = Some q -> n_kind (nd p q) = KWatch -> plain p c = true -> plain p q = true ->
                               started (st s c) = true -> activated (st s q) = true)
         (states p [FVisit 0] (init p) 0 ts).
Proof.
  intros W. eapply Forall_impl; [|exact (activation_always p W ts)]. intros s H c q Pq K Pc Pl Sc.
  apply (H c q Pq Pc Sc Pl). unfold isW. now rewrite K.
Qed.
