From Coq Require Import ZArith List Bool Arith Lia.
From OP Require Import lib.Obs model.C37.
Import ListNotations.

Definition Inv (s : st) : Prop :=
  forall l, In l (active s) -> forall u, In u l -> live u (switches s) = true.

Lemma in_upd {A} n (f : A -> A) l x : In x (upd n f l) -> In x l \/ exists y, In y l /\ x = f y.
Proof.
  revert n. induction l as [|a l IH]; intros n H; [destruct n; cbn in H; contradiction|].
  destruct n; cbn in H.
  - destruct H as [<-|H]; [right; exists a; split; [now left|reflexivity]|left; now right].
  - destruct H as [<-|H]; [left; now left|].
    destruct (IH _ H) as [H'|[y [Hy ->]]]; [left; now right|right; exists y; split; [now right|reflexivity]].
Qed.

Lemma in_remove_user u x l : In x (remove_user u l) -> In x l /\ x <> u.
Proof.
  unfold remove_user. intros H. apply filter_In in H as [H1 H2]. split; [exact H1|].
  apply negb_true_iff, Nat.eqb_neq in H2. exact H2.
Qed.

Lemma live_set_switch_same c u sw : live u (set_switch c u sw) = true.
Proof. cbn. now rewrite Nat.eqb_refl. Qed.

Lemma in_get_switch c u sw :
  (forall c' u1 u2, In (c', u1) sw -> In (c', u2) sw -> u1 = u2) ->
  In (c, u) sw -> get_switch c sw = Some u.
Proof.
  induction sw as [|e sw IH]; intros Hfun Hin; [contradiction|]. cbn.
  destruct (Nat.eqb (fst e) c) eqn:E.
  - apply Nat.eqb_eq in E. destruct e as [c0 u0]. cbn in *. subst c0. f_equal.
    apply (Hfun c); [now left|exact Hin].
  - destruct Hin as [->|Hin]; [cbn in E; rewrite Nat.eqb_refl in E; discriminate|].
    apply IH; [|exact Hin]. intros c' u1 u2 H1 H2. apply (Hfun c'); now right.
Qed.

Lemma live_filter_other c u sw :
  live u sw = true -> get_switch c sw <> Some u ->
  (forall c' u1 u2, In (c', u1) sw -> In (c', u2) sw -> u1 = u2) ->
  live u (filter (fun e => negb (Nat.eqb (fst e) c)) sw) = true.
Proof.
  intros Hl Hg Hfun. unfold live in *. apply existsb_exists in Hl as [[c' u'] [Hin Hu]].
  cbn in Hu. apply Nat.eqb_eq in Hu. subst u'.
  apply existsb_exists. exists (c', u). split; [|cbn; apply Nat.eqb_refl].
  apply filter_In. split; [exact Hin|]. cbn. apply negb_true_iff, Nat.eqb_neq. intros ->.
  apply Hg. now apply in_get_switch.
Qed.

(* the switch map is functional (a dict) *)
Definition Fun (sw : list (conn * user)) : Prop :=
  forall c u1 u2, In (c, u1) sw -> In (c, u2) sw -> u1 = u2.

Lemma Fun_filter f sw : Fun sw -> Fun (filter f sw).
Proof. intros H c u1 u2 H1 H2. apply filter_In in H1 as [H1 _], H2 as [H2 _]. eapply H; eauto. Qed.

Lemma Fun_set_switch c u sw : Fun sw -> Fun (set_switch c u sw).
Proof.
  intros H c' u1 u2 [E1|H1] [E2|H2].
  - congruence.
  - inversion E1; subst. apply filter_In in H2 as [_ H2]. cbn in H2. rewrite Nat.eqb_refl in H2. discriminate.
  - inversion E2; subst. apply filter_In in H1 as [_ H1]. cbn in H1. rewrite Nat.eqb_refl in H1. discriminate.
  - apply filter_In in H1 as [H1 _], H2 as [H2 _]. eapply H; eauto.
Qed.

Lemma live_mono_set_switch c u v sw :
  Fun sw -> (match get_switch c sw with Some u' => u = u' | None => True end) ->
  live v sw = true -> live v (set_switch c u sw) = true.
Proof.
  intros HF Hc Hl. destruct (Nat.eq_dec v u) as [->|Hne]; [apply live_set_switch_same|].
  unfold set_switch. cbn. destruct (Nat.eqb u v); [reflexivity|]. cbn.
  apply live_filter_other; [exact Hl| |exact HF].
  destruct (get_switch c sw); [|discriminate]. intros E. inversion E. congruence.
Qed.

Lemma get_switch_in c sw u : get_switch c sw = Some u -> In (c, u) sw.
Proof.
  induction sw as [|e sw IH]; cbn; [discriminate|]. destruct (Nat.eqb (fst e) c) eqn:E.
  - intros H. inversion H. apply Nat.eqb_eq in E. destruct e. cbn in *. subst. now left.
  - intros H. right. auto.
Qed.

Lemma get_none_filter c (sw : list (conn * user)) :
  get_switch c sw = None -> filter (fun e => negb (Nat.eqb (fst e) c)) sw = sw.
Proof.
  induction sw as [|[c0 u0] sw IH]; cbn; [reflexivity|].
  destruct (Nat.eqb c0 c); [discriminate|]. intros H. cbn. f_equal. auto.
Qed.

(* one step of a valid history keeps the invariant; g in `valid` is exactly the switch map *)
Lemma step_inv s o os :
  Fun (switches s) -> Inv s -> valid (switches s) (o :: os) = true ->
  let s' := fst (step s o) in
  Fun (switches s') /\ Inv s' /\ valid (switches s') os = true.
Proof.
  intros HF HI HV. destruct o as [c u|e u|e u|c]; cbn [valid] in HV; cbn [step].
  - apply andb_true_iff in HV as [Hc HV]. cbn [fst switches active].
    split; [now apply Fun_set_switch|]. split; [|exact HV].
    intros l Hl v Hv. cbn [switches active] in *. apply live_mono_set_switch; [exact HF| |now apply (HI l)].
    destruct (get_switch c (switches s)); [now apply Nat.eqb_eq in Hc|exact I].
  - apply andb_true_iff in HV as [Hlive HV].
    destruct (Nat.ltb e (length (active s))); cbn [fst switches active]; [|auto].
    split; [exact HF|]. split; [|exact HV].
    intros l Hl v Hv. cbn [switches active] in *.
    apply in_upd in Hl as [Hl|[y [Hy ->]]]; [now apply (HI l)|].
    destruct (has_user u y); [now apply (HI y)|].
    apply in_app_or in Hv as [Hv|[<-|[]]]; [now apply (HI y)|exact Hlive].
  - destruct (Nat.ltb e (length (active s))); cbn [fst]; [|auto].
    destruct (has_user u (nth e (active s) [])); cbn [fst switches active]; [|auto].
    split; [exact HF|]. split; [|exact HV].
    intros l Hl v Hv. cbn [switches active] in *.
    apply in_upd in Hl as [Hl|[y [Hy ->]]]; [now apply (HI l)|].
    apply in_remove_user in Hv as [Hv _]. now apply (HI y).
  - destruct (get_switch c (switches s)) as [u|] eqn:Hg; cbn [fst].
    + set (sw := filter (fun e => negb (Nat.eqb (fst e) c)) (switches s)) in *.
      assert (Hother : forall v, v <> u -> live v (switches s) = true -> live v sw = true).
      { intros v Hne Hl. apply live_filter_other; [exact Hl| |exact HF]. rewrite Hg. congruence. }
      destruct (live u sw) eqn:Hlu; cbn [fst switches active].
      * split; [now apply Fun_filter|]. split; [|exact HV].
        intros l Hl v Hv. cbn [switches active] in *.
        destruct (Nat.eq_dec v u) as [->|Hne]; [exact Hlu|]. apply Hother; [exact Hne|now apply (HI l)].
      * split; [now apply Fun_filter|]. split; [|exact HV].
        intros l Hl v Hv. cbn [switches active] in *.
        apply in_map_iff in Hl as [y [<- Hy]]. apply in_remove_user in Hv as [Hv Hne].
        apply Hother; [exact Hne|now apply (HI y)].
    + (* unknown connection: nothing changes; filtering removes nothing *)
      pose proof (get_none_filter c _ Hg) as Hf.
      rewrite Hf in HV. auto.
Qed.

Lemma reachable_inv os : forall s,
  Fun (switches s) -> Inv s -> valid (switches s) os = true -> Inv (final s os).
Proof.
  induction os as [|o os IH]; intros s HF HI HV; [exact HI|].
  destruct (step_inv s o os HF HI HV) as [HF' [HI' HV']]. cbn. apply IH; assumption.
Qed.

(* last connection closes => removed from every unit *)
Lemma not_in_remove u l : has_user u (remove_user u l) = false.
Proof.
  unfold has_user, remove_user. induction l as [|x l IH]; [reflexivity|]. cbn.
  destruct (Nat.eqb x u) eqn:E; cbn; [exact IH|]. rewrite Nat.eqb_sym, E. exact IH.
Qed.

Lemma last_disconnect_removes s c u :
  get_switch c (switches s) = Some u ->
  live u (filter (fun e => negb (Nat.eqb (fst e) c)) (switches s)) = false ->
  forall l, In l (active (fst (step s (Disc c)))) -> has_user u l = false.
Proof.
  intros Hg Hl l Hin. cbn [step] in Hin. rewrite Hg, Hl in Hin. cbn in Hin.
  apply in_map_iff in Hin as [y [<- _]]. apply not_in_remove.
Qed.

(* unregister removes; only Reg adds *)
Lemma unreg_removes s e u l :
  In l (active (fst (step s (Unreg e u)))) -> snd (step s (Unreg e u)) = true ->
  nth e (active (fst (step s (Unreg e u)))) [] = remove_user u (nth e (active s) []).
Proof.
  intros _. cbn [step]. destruct (Nat.ltb e (length (active s))) eqn:E; [|discriminate].
  destruct (has_user u (nth e (active s) [])); [|discriminate]. intros _. cbn [fst active].
  apply Nat.ltb_lt in E. revert e E. induction (active s) as [|a l' IH]; intros e E; [cbn in E; lia|].
  destruct e; cbn; [reflexivity|]. apply IH. cbn in E. lia.
Qed.

(* monitor soundness on the model's own runs *)
Lemma monitor_sound os : forall s,
  Fun (switches s) -> Inv s -> valid (switches s) os = true ->
  monitor (switches s) os (run_ops s os) = true.
Proof.
  induction os as [|o os IH]; intros s HF HI HV; [reflexivity|].
  destruct (step_inv s o os HF HI HV) as [HF' [HI' HV']].
  cbn [run_ops]. destruct (step s o) as [s' r] eqn:Es. cbn [fst] in *.
  cbn [monitor].
  assert (Hg : match o with
               | Sub c u => (c, u) :: filter (fun e => negb (Nat.eqb (fst e) c)) (switches s)
               | Disc c => filter (fun e => negb (Nat.eqb (fst e) c)) (switches s)
               | _ => switches s end = switches s').
  { destruct o as [c u|e u|e u|c]; cbn [step] in Es.
    - inversion Es. reflexivity.
    - destruct (Nat.ltb e (length (active s))); inversion Es; reflexivity.
    - destruct (Nat.ltb e (length (active s))); [|inversion Es; reflexivity].
      destruct (has_user u (nth e (active s) [])); inversion Es; reflexivity.
    - destruct (get_switch c (switches s)) eqn:Hgs.
      + destruct (live _ _); inversion Es; reflexivity.
      + inversion Es. subst. now apply get_none_filter. }
  rewrite Hg. apply andb_true_iff. split; [|now apply IH].
  apply forallb_forall. intros l Hl. apply forallb_forall. intros u Hu. now apply (HI' l).
Qed.

Lemma model_satisfies_monitor i : holds_b i (run i) = true.
Proof.
  unfold holds_b, run. destruct (valid [] (snd i)) eqn:HV; [|reflexivity].
  apply (monitor_sound (snd i) (init (fst i))); [intros c u1 u2 []| |exact HV].
  intros l Hl u Hu. cbn in Hl. apply repeat_spec in Hl. subst. contradiction.
Qed.
