(* Mutual exclusion makes every interleaving equal to a serial order of whole sections (C40). *)
From Coq Require Import List Bool Arith Lia.
From OP Require Import model.Ser.
Import ListNotations.

Section Proofs.
  Variable S : Type.
  Notation section := (section S).
  Notation cfg := (cfg S).
  Notation tstate := (tstate S).

  Lemma upd_length {A} (l : list A) i x : length (upd l i x) = length l.
  Proof. revert i; induction l as [|y l IH]; intros [|i]; cbn; auto. Qed.
  Lemma nth_upd_same {A} (l : list A) i x y : nth_error l i = Some y -> nth_error (upd l i x) i = Some x.
  Proof. revert i; induction l as [|z l IH]; intros [|i] H; cbn in *; try discriminate; auto. Qed.
  Lemma nth_upd_other {A} (l : list A) i j x : i <> j -> nth_error (upd l i x) j = nth_error l j.
  Proof. revert i j; induction l as [|z l IH]; intros [|i] [|j] H; cbn; auto; congruence. Qed.

  Definition done_of (c : cfg) : list (mstep S) :=
    match holder c with
    | Some h => match nth_error (threads c) h with
                | Some t => match cur t with Some (_, d, _) => d | None => [] end
                | None => [] end
    | None => []
    end.

  Definition proj (i : nat) (h : list (nat * section)) : list section :=
    map snd (filter (fun p => Nat.eqb (fst p) i) h).

  Definition cur_list (t : tstate) : list section := match cur t with Some (sec, _, _) => [sec] | None => [] end.

  Record Inv (s0 : S) (progs : list (list section)) (c : cfg) : Prop := {
    i_excl : forall i t, nth_error (threads c) i = Some t -> cur t <> None -> holder c = Some i;
    i_hold : forall h, holder c = Some h -> exists t, nth_error (threads c) h = Some t /\ cur t <> None;
    i_state : state c = run_steps S (done_of c) (run_serial S s0 (map snd (hist c)));
    i_split : forall i t sec d r, nth_error (threads c) i = Some t -> cur t = Some (sec, d, r) -> d ++ r = steps sec;
    i_locked : forall i t sec, nth_error (threads c) i = Some t -> In sec (cur_list t ++ todo t) -> locked sec = true;
    i_prog : forall i t, nth_error (threads c) i = Some t ->
             nth_error progs i = Some (proj i (hist c) ++ cur_list t ++ todo t) }.

  Lemma Inv_start s0 progs :
    (forall p sec, In p progs -> In sec p -> locked sec = true) -> Inv s0 progs (start S s0 progs).
  Proof.
    intros L. split; cbn.
    - intros i t H C. rewrite nth_error_map in H. destruct (nth_error progs i); cbn in H; [|discriminate].
      inversion H; subst. cbn in C. congruence.
    - discriminate.
    - reflexivity.
    - intros i t sec d r H C. rewrite nth_error_map in H. destruct (nth_error progs i); cbn in H; [|discriminate].
      inversion H; subst. discriminate.
    - intros i t sec H I. rewrite nth_error_map in H. destruct (nth_error progs i) eqn:E; cbn in H; [|discriminate].
      inversion H; subst. cbn in I. eapply L; [eapply nth_error_In; eauto|exact I].
    - intros i t H. rewrite nth_error_map in H. destruct (nth_error progs i) eqn:E; cbn in H; [|discriminate].
      inversion H; subst. reflexivity.
  Qed.

  Lemma run_steps_app fs gs s : run_steps S (fs ++ gs) s = run_steps S gs (run_steps S fs s).
  Proof. unfold run_steps. apply fold_left_app. Qed.

  Lemma proj_app i h1 h2 : proj i (h1 ++ h2) = proj i h1 ++ proj i h2.
  Proof. unfold proj. now rewrite filter_app, map_app. Qed.

  Lemma move_Inv s0 progs c i : Inv s0 progs c -> Inv s0 progs (move S c i).
  Proof.
    intros I. unfold move. destruct (nth_error (threads c) i) as [t|] eqn:Et; [|exact I].
    destruct (cur t) as [[[sec d] r]|] eqn:Ec.
    - (* inside a section: thread i holds the lock *)
      assert (Hh : holder c = Some i) by (apply (i_excl _ _ _ I i t Et); congruence).
      destruct r as [|f rest].
      + (* leave *)
        assert (Lk : locked sec = true).
        { apply (i_locked _ _ _ I i t sec Et). unfold cur_list. rewrite Ec. now left. }
        rewrite Lk. split; cbn [threads holder state hist].
        * intros j u Hj Cj. exfalso. destruct (Nat.eq_dec i j) as [->|N].
          -- rewrite (nth_upd_same _ _ _ _ Et) in Hj. inversion Hj; subst. cbn in Cj. congruence.
          -- rewrite nth_upd_other in Hj by exact N. pose proof (i_excl _ _ _ I j u Hj Cj). congruence.
        * discriminate.
        * unfold done_of. cbn [holder]. rewrite map_app. unfold run_serial at 1. rewrite fold_left_app. cbn [map fold_left snd].
          rewrite (i_state _ _ _ I). unfold done_of. rewrite Hh, Et, Ec.
          pose proof (i_split _ _ _ I i t sec d [] Et Ec) as Sp. rewrite app_nil_r in Sp. subst d. reflexivity.
        * intros j u sec' d' r' Hj Cj. destruct (Nat.eq_dec i j) as [->|N].
          -- rewrite (nth_upd_same _ _ _ _ Et) in Hj. inversion Hj; subst. discriminate.
          -- rewrite nth_upd_other in Hj by exact N. eapply (i_split _ _ _ I); eauto.
        * intros j u sec' Hj Hin. destruct (Nat.eq_dec i j) as [->|N].
          -- rewrite (nth_upd_same _ _ _ _ Et) in Hj. inversion Hj; subst. cbn in Hin.
             apply (i_locked _ _ _ I j t sec' Et). apply in_or_app. now right.
          -- rewrite nth_upd_other in Hj by exact N. eapply (i_locked _ _ _ I); eauto.
        * intros j u Hj. rewrite proj_app. destruct (Nat.eq_dec i j) as [->|N].
          -- rewrite (nth_upd_same _ _ _ _ Et) in Hj. inversion Hj; subst. cbn [cur_list cur todo app].
             rewrite (i_prog _ _ _ I j t Et). unfold cur_list. rewrite Ec. unfold proj at 3. cbn. rewrite Nat.eqb_refl. cbn.
             now rewrite <- app_assoc.
          -- rewrite nth_upd_other in Hj by exact N. rewrite (i_prog _ _ _ I j u Hj).
             unfold proj at 3. cbn. destruct (Nat.eqb_spec i j); [congruence|]. cbn. now rewrite app_nil_r.
      + (* one micro-step *)
        split; cbn [threads holder state hist].
        * intros j u Hj Cj. destruct (Nat.eq_dec i j) as [->|N]; [exact Hh|].
          rewrite nth_upd_other in Hj by exact N. exact (i_excl _ _ _ I j u Hj Cj).
        * intros h Hhh. rewrite Hh in Hhh. inversion Hhh; subst h.
          eexists. split; [apply (nth_upd_same _ _ _ _ Et)|]. cbn. discriminate.
        * unfold done_of. cbn [holder threads]. rewrite Hh, (nth_upd_same _ _ _ _ Et). cbn [cur].
          rewrite run_steps_app. cbn. rewrite (i_state _ _ _ I). unfold done_of. now rewrite Hh, Et, Ec.
        * intros j u sec' d' r' Hj Cj. destruct (Nat.eq_dec i j) as [->|N].
          -- rewrite (nth_upd_same _ _ _ _ Et) in Hj. inversion Hj; subst. cbn in Cj. inversion Cj; subst.
             rewrite <- app_assoc. cbn. exact (i_split _ _ _ I j t sec' d (f :: r') Et Ec).
          -- rewrite nth_upd_other in Hj by exact N. eapply (i_split _ _ _ I); eauto.
        * intros j u sec' Hj Hin. destruct (Nat.eq_dec i j) as [->|N].
          -- rewrite (nth_upd_same _ _ _ _ Et) in Hj. inversion Hj; subst.
             apply (i_locked _ _ _ I j t sec' Et). unfold cur_list in *. cbn in Hin. now rewrite Ec.
          -- rewrite nth_upd_other in Hj by exact N. eapply (i_locked _ _ _ I); eauto.
        * intros j u Hj. destruct (Nat.eq_dec i j) as [->|N].
          -- rewrite (nth_upd_same _ _ _ _ Et) in Hj. inversion Hj; subst.
             rewrite (i_prog _ _ _ I j t Et). unfold cur_list. now rewrite Ec.
          -- rewrite nth_upd_other in Hj by exact N. exact (i_prog _ _ _ I j u Hj).
    - (* between sections *)
      destruct (todo t) as [|sec more] eqn:Etd; [exact I|].
      assert (Lk : locked sec = true).
      { apply (i_locked _ _ _ I i t sec Et). unfold cur_list. rewrite Ec, Etd. now left. }
      rewrite Lk. unfold free. destruct (holder c) as [h|] eqn:Eh; [exact I|].
      split; cbn [threads holder state hist].
      + intros j u Hj Cj. destruct (Nat.eq_dec i j) as [->|N]; [reflexivity|].
        rewrite nth_upd_other in Hj by exact N. pose proof (i_excl _ _ _ I j u Hj Cj). congruence.
      + intros h Hh. inversion Hh; subst h. eexists. split; [apply (nth_upd_same _ _ _ _ Et)|]. cbn. discriminate.
      + unfold done_of. cbn [holder threads]. rewrite (nth_upd_same _ _ _ _ Et). cbn [cur].
        rewrite (i_state _ _ _ I). unfold done_of. now rewrite Eh.
      + intros j u sec' d' r' Hj Cj. destruct (Nat.eq_dec i j) as [->|N].
        * rewrite (nth_upd_same _ _ _ _ Et) in Hj. inversion Hj; subst. cbn in Cj. inversion Cj; subst. reflexivity.
        * rewrite nth_upd_other in Hj by exact N. eapply (i_split _ _ _ I); eauto.
      + intros j u sec' Hj Hin. destruct (Nat.eq_dec i j) as [->|N].
        * rewrite (nth_upd_same _ _ _ _ Et) in Hj. inversion Hj; subst.
          apply (i_locked _ _ _ I j t sec' Et). unfold cur_list in *. cbn in Hin. now rewrite Ec, Etd.
        * rewrite nth_upd_other in Hj by exact N. eapply (i_locked _ _ _ I); eauto.
      + intros j u Hj. destruct (Nat.eq_dec i j) as [->|N].
        * rewrite (nth_upd_same _ _ _ _ Et) in Hj. inversion Hj; subst.
          rewrite (i_prog _ _ _ I j t Et). unfold cur_list. now rewrite Ec, Etd.
        * rewrite nth_upd_other in Hj by exact N. exact (i_prog _ _ _ I j u Hj).
  Qed.

  Lemma run_Inv s0 progs sched :
    (forall p sec, In p progs -> In sec p -> locked sec = true) -> Inv s0 progs (run S s0 progs sched).
  Proof.
    intros L. unfold run. generalize (Inv_start s0 progs L). generalize (start S s0 progs).
    induction sched as [|i sched IH]; intros c I; cbn; [exact I|]. apply IH. now apply move_Inv.
  Qed.

  (* every interleaving of threads whose sections all run under the lock ends, once all threads are
     done, in the state of the SERIAL execution of the whole sections in the order they completed;
     that order contains each thread's sections exactly, in program order *)
  Theorem serialisable s0 progs sched :
    (forall p sec, In p progs -> In sec p -> locked sec = true) ->
    let c := run S s0 progs sched in
    finished S c = true ->
    state c = run_serial S s0 (map snd (hist c)) /\
    forall i p, nth_error progs i = Some p -> proj i (hist c) = p.
  Proof.
    intros L c F. pose proof (run_Inv s0 progs sched L) as I. fold c in I.
    assert (Hn : forall i t, nth_error (threads c) i = Some t -> cur t = None /\ todo t = []).
    { intros i t H. unfold finished in F. rewrite forallb_forall in F. specialize (F t (nth_error_In _ _ H)).
      destruct (cur t); [discriminate|]. destruct (todo t); [auto|discriminate]. }
    split.
    - rewrite (i_state _ _ _ I). unfold done_of. destruct (holder c) as [h|] eqn:Eh; [|reflexivity].
      destruct (i_hold _ _ _ I h Eh) as [t [Ht Ct]]. destruct (Hn h t Ht). congruence.
    - intros i p Hp.
      assert (Hlen : length (threads c) = length progs).
      { unfold c, run. assert (G : forall sched c0, length (threads (fold_left (move S) sched c0)) = length (threads c0)).
        { induction sched0 as [|j s IH]; intros c0; cbn; [reflexivity|]. rewrite IH. unfold move.
          destruct (nth_error (threads c0) j) as [t|]; [|reflexivity].
          destruct (cur t) as [[[sec d] [|f r]]|]; cbn; rewrite ?upd_length; auto.
          destruct (todo t) as [|sec more]; [reflexivity|]. destruct (locked sec); [destruct (free S c0)|]; cbn; rewrite ?upd_length; auto. }
        rewrite G. cbn. apply map_length. }
      destruct (nth_error (threads c) i) as [t|] eqn:Et.
      + pose proof (i_prog _ _ _ I i t Et) as P. destruct (Hn i t Et) as [C T]. unfold cur_list in P. rewrite C, T in P.
        cbn in P. rewrite app_nil_r in P. congruence.
      + apply nth_error_None in Et. assert (i < length progs) by (apply nth_error_Some; congruence). lia.
  Qed.
End Proofs.

(* Without the lock the statement is false: two read-modify-write requests on one counter. *)
Definition rmw_state := (nat * nat * nat)%type.      (* shared x, local a, local b *)
Definition incr_a (lk : bool) : section rmw_state :=
  {| locked := lk; steps := [fun s => let '(x, a, b) := s in (x, x, b); fun s => let '(x, a, b) := s in (a + 1, a, b)] |}.
Definition incr_b (lk : bool) : section rmw_state :=
  {| locked := lk; steps := [fun s => let '(x, a, b) := s in (x, a, x); fun s => let '(x, a, b) := s in (b + 1, a, b)] |}.

Lemma unlocked_not_serialisable :
  let c := run rmw_state (0, 0, 0) [[incr_a false]; [incr_b false]] [0; 1; 0; 1; 0; 1; 0; 1] in
  finished rmw_state c = true /\
  fst (fst (state c)) = 1 /\
  fst (fst (run_serial rmw_state (0, 0, 0) [incr_a false; incr_b false])) = 2 /\
  fst (fst (run_serial rmw_state (0, 0, 0) [incr_b false; incr_a false])) = 2.
Proof. vm_compute. repeat split. Qed.

Lemma locked_same_schedule :
  let c := run rmw_state (0, 0, 0) [[incr_a true]; [incr_b true]] [0; 1; 0; 1; 0; 1; 0; 1; 1; 1; 1; 1] in
  finished rmw_state c = true /\ fst (fst (state c)) = 2.
Proof. vm_compute. repeat split. Qed.
