(* C09: proofs. The pending capture computed by the monitor from the event trace IS the engine's stored state, in every
   reachable state, for all operation sequences (via the primitive decomposition of Eng_prims). *)
From Coq Require Import ZArith List Bool Arith Lia.
From OP Require Import lib.Obs model.Eng model.EngRun model.C09 proofs.Eng_prims.
Import ListNotations.
Open Scope Z_scope.

Lemma nz_eqb_refl a : nz_eqb a a = true.
Proof. unfold nz_eqb. now rewrite Nat.eqb_refl, Z.eqb_refl. Qed.
Lemma cap_eqb_refl c : cap_eqb c c = true.
Proof. unfold cap_eqb. induction c as [|a c IH]; cbn [list_eqb]; [reflexivity|]. now rewrite nz_eqb_refl, IH. Qed.
Lemma ocap_eqb_refl c : ocap_eqb c c = true.
Proof. destruct c; cbn [ocap_eqb option_eqb]; [apply cap_eqb_refl|reflexivity]. Qed.
Lemma nz_eqb_eq a b : nz_eqb a b = true -> a = b.
Proof.
  destruct a, b. unfold nz_eqb. cbn. intros H. apply andb_prop in H as [H1 H2].
  apply Nat.eqb_eq in H1. apply Z.eqb_eq in H2. now subst.
Qed.
Lemma cap_eqb_eq a : forall b, cap_eqb a b = true -> a = b.
Proof.
  unfold cap_eqb. induction a as [|x a IH]; intros [|y b]; cbn [list_eqb]; try discriminate; [reflexivity|].
  intros H. apply andb_prop in H as [H1 H2]. apply nz_eqb_eq in H1. apply IH in H2. now subst.
Qed.
Lemma ocap_eqb_eq a b : ocap_eqb a b = true -> a = b.
Proof. destruct a, b; cbn [ocap_eqb option_eqb]; try discriminate; [|reflexivity]. intros H. now rewrite (cap_eqb_eq _ _ H). Qed.

Lemma mon9_app l : forall p l',
  mon9 p (l ++ l') = match mon9 p l with Some p' => mon9 p' l' | None => None end.
Proof.
  induction l as [|x l IH]; intros p l'; [reflexivity|].
  cbn [app]. destruct x; cbn [mon9]; try apply IH.
  - destruct p as [p|]; [destruct (cap_eqb captured p)|]; try apply IH. reflexivity.
  - destruct (ocap_eqb restored p); [apply IH|reflexivity].
Qed.

(* ---------- restore o capture = identity ---------- *)
Lemma upd_nth_app {A} (pre : list A) x l v : upd_nth (pre ++ x :: l) (length pre) v = pre ++ v :: l.
Proof. induction pre as [|y pre IH]; cbn; [reflexivity|]. now rewrite IH. Qed.

Lemma restore_capture sf : forall o pre,
  apply_state (pre ++ snd (safe_from (length pre) sf o)) (fst (safe_from (length pre) sf o)) = pre ++ o.
Proof.
  induction sf as [|s sf IH]; intros o pre; [reflexivity|].
  destruct o as [|v o]; [reflexivity|]. cbn [safe_from].
  specialize (IH o (pre ++ [v])). rewrite app_length in IH. cbn [length] in IH. rewrite Nat.add_1_r in IH.
  destruct (safe_from (S (length pre)) sf o) as [c o''] eqn:Es. cbn [fst snd] in IH.
  destruct s as [sv|]; cbn [fst snd].
  - unfold apply_state in *. cbn [fold_left fst snd]. rewrite upd_nth_app.
    rewrite <- app_assoc in IH. cbn [app] in IH. rewrite IH. now rewrite <- app_assoc.
  - rewrite <- app_assoc in IH. cbn [app] in IH. rewrite IH. now rewrite <- app_assoc.
Qed.

Section C09.
  Variable safe : list (option Z).
  Variable overlaps : list (list nat).

  Definition R9 (e : E) : Prop := mon9 None (trace e) = Some (prev e).

  Lemma apply_safe_same e : trace (fst (apply_safe safe e)) = trace e /\ prev (fst (apply_safe safe e)) = prev e.
  Proof. unfold apply_safe. destruct (safe_from 0 safe (outs e)). cbn. split; reflexivity. Qed.

  Lemma R9_neutral e e' : trace e' = trace e -> prev e' = prev e -> R9 e -> R9 e'.
  Proof. unfold R9. intros -> ->. exact id. Qed.

  Definition silent9 (x : ev) : bool :=
    match x with EStarted _ | EStoppedRun | EPause _ _ | EUnpause _ => false | _ => true end.
  Lemma R9_emit e x : silent9 x = true -> R9 e -> R9 (emit e x).
  Proof.
    unfold R9. intros U H. cbn [emit trace prev]. rewrite mon9_app, H. destruct x; try discriminate U; reflexivity.
  Qed.
  Lemma R9_write e : R9 e -> R9 (write_image e).
  Proof.
    intros H. unfold write_image. destruct (negb (started e)); [exact H|]. destruct (wok e).
    - apply (R9_emit (set_io e (prev e) (outs e) (map Some (outs e)))); [reflexivity|exact H].
    - destruct (last_err e); [exact H|]. unfold set_error_state. apply R9_emit; [reflexivity|].
      apply (R9_neutral e); [reflexivity|reflexivity|exact H].
  Qed.

  Lemma R9_prim e e' : prim safe e e' -> R9 e -> R9 e'.
  Proof.
    intros P H. destruct P; try (apply (R9_neutral e); [reflexivity|reflexivity|exact H]).
    - (* update_clocks *) unfold R9 in *. unfold update_clocks. cbv zeta. cbn [emit trace prev].
      assert (A : trace (advance_clocks e dt) = trace e /\ prev (advance_clocks e dt) = prev e)
        by (unfold advance_clocks; cbv zeta; destruct (bpaused e || negb (sys_eqb (sys e) Running)); split; reflexivity).
      destruct A as [A1 A2]. rewrite A1, A2, mon9_app, H. reflexivity.
    - (* init *) apply (R9_neutral (emit e (EUInit n (c_id c)))); [reflexivity|reflexivity|]. apply R9_emit; [reflexivity|exact H].
    - (* exec *) apply R9_emit; [reflexivity|exact H].
    - (* finalize *) unfold fin_u. apply (R9_neutral (emit e (EUFinal (c_name c) (c_id c)))); [reflexivity|reflexivity|].
      apply R9_emit; [reflexivity|exact H].
    - now apply R9_write.
    - (* set_out_by *) unfold set_out_by. apply R9_emit; [reflexivity|]. apply (R9_neutral e); [reflexivity|reflexivity|exact H].
    - (* unpause *) unfold R9 in *. unfold unpause_body. cbv zeta.
      set (e1 := emit e (EUnpause (prev e))).
      assert (T : mon9 None (trace e1) = Some None).
      { unfold e1. cbn [emit trace]. rewrite mon9_app, H. cbn [mon9]. now rewrite ocap_eqb_refl. }
      destruct (prev e) as [c|] eqn:Ep; cbn [prev set_sys upd_flags e1 emit set_io set_clk trace]; cbn [prev set_sys upd_flags e1 emit set_io set_clk trace] in T;
        rewrite ?Ep; cbn [prev set_sys upd_flags e1 emit set_io set_clk trace]; rewrite ?Ep; exact T.
    - (* unhold *) apply (R9_neutral e); [| |exact H]; unfold unhold_body; destruct (paused e); reflexivity.
    - (* pause *) unfold R9 in *. unfold pause_begin. cbv zeta.
      set (e1 := set_sys _ _).
      destruct (apply_safe_same e1) as [T1 P1]. destruct (apply_safe safe e1) as [e2 c] eqn:Ea. cbn [fst] in T1, P1.
      cbn [set_clk emit set_io trace prev]. rewrite T1. unfold e1 at 1. cbn [set_sys upd_flags trace].
      rewrite mon9_app, H. rewrite P1. unfold e1. cbn [set_sys upd_flags prev]. cbn [mon9].
      destruct (prev e) as [p|]; [now rewrite cap_eqb_refl|reflexivity].
    - (* hold *) apply (R9_neutral e); [| |exact H]; unfold hold_begin; destruct (paused e); reflexivity.
    - (* start_body *) unfold R9 in *. unfold start_body, new_run. cbv zeta.
      cbn [set_sys set_trk set_clk set_err emit set_run set_io upd_flags trace prev]. rewrite mon9_app, H. reflexivity.
    - (* stop_core *) unfold stop_core. apply (R9_neutral (write_image (stop_pre safe e))); [reflexivity|reflexivity|].
      apply R9_write. unfold R9 in *. unfold stop_pre.
      destruct (apply_safe_same e) as [T1 P1]. destruct (apply_safe safe e) as [e1 c]. cbn [fst] in T1, P1.
      cbn [set_sys set_trk set_clk set_err emit set_run set_io upd_flags trace prev]. rewrite T1, mon9_app, H. reflexivity.
    - (* restart_stop *) unfold R9 in *. unfold restart_stop. cbv zeta.
      cbn [set_sys set_trk set_clk set_err emit set_run set_io upd_flags trace prev]. rewrite mon9_app, H. reflexivity.
    - (* restart_finish *) unfold R9 in *. unfold restart_finish, new_run. cbv zeta.
      cbn [set_sys set_trk set_clk set_err emit set_run set_io upd_flags trace prev]. rewrite mon9_app, H. reflexivity.
    - (* set_error_state *) unfold set_error_state. apply R9_emit; [reflexivity|]. apply (R9_neutral e); [reflexivity|reflexivity|exact H].
  Qed.

  Lemma R9_boot n outs0 : R9 (boot safe (init n outs0)).
  Proof.
    unfold boot. cbv zeta. destruct (apply_safe_same (init n outs0)) as [T1 P1].
    apply R9_emit; [reflexivity|]. apply (R9_neutral (fst (apply_safe safe (init n outs0)))); [reflexivity|reflexivity|].
    unfold R9. now rewrite T1, P1.
  Qed.

  (* in every reachable state -- any operations, faults and timed commands included *)
  Theorem R9_reachable n outs0 ops :
    R9 (fold_left (fun e o => fst (step safe overlaps e o)) ops (boot safe (init n outs0))).
  Proof. apply (invariant_by_prims safe overlaps R9 R9_prim). apply R9_boot. Qed.

  (* hence every Unpause in every execution applies exactly the pending capture: the monitor never fails on a trace *)
  Corollary monitor_never_fails n outs0 ops :
    mon9 None (trace (fold_left (fun e o => fst (step safe overlaps e o)) ops (boot safe (init n outs0)))) <> None.
  Proof. rewrite (R9_reachable n outs0 ops). discriminate. Qed.

  (* the captured values, applied back, give the outputs as they were before the pause *)
  Lemma pause_unpause_outs e : prev e = None -> outs (unpause_body (pause_begin safe e)) = outs e.
  Proof.
    intros Hp. unfold pause_begin. cbv zeta. set (e1 := set_sys _ _).
    pose proof (restore_capture safe (outs e) []) as RC. cbn [length app] in RC.
    unfold apply_safe. replace (outs e1) with (outs e) by reflexivity.
    destruct (safe_from 0 safe (outs e)) as [c o] eqn:Es. cbn [fst snd] in RC.
    replace (prev e1) with (prev e) by reflexivity. cbn [set_io prev]. rewrite Hp.
    unfold unpause_body. cbv zeta. cbn [set_clk emit set_io set_sys upd_flags prev outs]. exact RC.
  Qed.
End C09.
