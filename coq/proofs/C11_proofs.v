(* C11: proofs. *)
From Coq Require Import ZArith List Bool Arith Lia.
From OP Require Import lib.Obs model.Eng model.EngRun model.C11 proofs.Eng_prims.
Import ListNotations.
Open Scope Z_scope.

Lemma mon11_app st ov l : forall s l',
  mon11 st ov s (l ++ l') = match mon11 st ov s l with Some s' => mon11 st ov s' l' | None => None end.
Proof.
  induction l as [|x l IH]; intros s l'; [reflexivity|].
  cbn [app mon11]. destruct (ev11 st ov s x); [apply IH|reflexivity].
Qed.

Lemma key_eqb_eq a b : key_eqb a b = true <-> a = b.
Proof.
  destruct a as [a1 a2], b as [b1 b2]. unfold key_eqb. cbn [fst snd]. rewrite andb_true_iff, !Nat.eqb_eq.
  split; [intros [-> ->]; reflexivity|intros H; inversion H; auto].
Qed.
Lemma memk_In k l : memk k l = true <-> In k l.
Proof.
  unfold memk. rewrite existsb_exists. split.
  - intros [x [Hx E]]. apply key_eqb_eq in E. now subst.
  - intros H. exists k. split; [exact H|now apply key_eqb_eq].
Qed.
Lemma has_name_In n l : has_name n l = true <-> exists id, In (n, id) l.
Proof.
  unfold has_name. rewrite existsb_exists. split.
  - intros [[a b] [Hx E]]. cbn [fst] in E. apply Nat.eqb_eq in E. subst. now exists b.
  - intros [id H]. exists (n, id). split; [exact H|apply Nat.eqb_refl].
Qed.

(* ---------- the registry as a dictionary ---------- *)
Lemma find_u_add_other e c n : n <> c_name c -> find_u (set_cmds e (reg e) (uods e ++ [c])) n = find_u e n.
Proof.
  intros H. unfold find_u. cbn [set_cmds uods]. induction (uods e) as [|x l IH]; cbn [find app].
  - destruct (Nat.eqb (c_name c) n) eqn:E; [apply Nat.eqb_eq in E; congruence|reflexivity].
  - destruct (Nat.eqb (c_name x) n); [reflexivity|exact IH].
Qed.
Lemma find_u_put_other e c n : n <> c_name c -> find_u (put_u e c) n = find_u e n.
Proof.
  intros H. unfold find_u, put_u. cbn [set_cmds uods]. induction (uods e) as [|x l IH]; cbn [find map]; [reflexivity|].
  destruct (Nat.eqb (c_name x) (c_name c)) eqn:Ex.
  - apply Nat.eqb_eq in Ex. destruct (Nat.eqb (c_name c) n) eqn:E1; [apply Nat.eqb_eq in E1; congruence|].
    destruct (Nat.eqb (c_name x) n) eqn:E2; [apply Nat.eqb_eq in E2; congruence|]. exact IH.
  - destruct (Nat.eqb (c_name x) n); [reflexivity|exact IH].
Qed.
Lemma find_u_put_none e c : find_u e (c_name c) = None -> find_u (put_u e c) (c_name c) = None.
Proof.
  unfold find_u, put_u. cbn [set_cmds uods]. induction (uods e) as [|x l IH]; cbn [find map]; [reflexivity|].
  destruct (Nat.eqb (c_name x) (c_name c)) eqn:Ex; [discriminate|]. cbn [find]. rewrite Ex. exact IH.
Qed.
Lemma find_u_drop_same e n : find_u (drop_u e n) n = None.
Proof.
  unfold find_u, drop_u. cbn [set_cmds uods]. induction (uods e) as [|x l IH]; cbn [find filter]; [reflexivity|].
  destruct (Nat.eqb (c_name x) n) eqn:Ex; cbn [negb]; [exact IH|]. cbn [find]. now rewrite Ex.
Qed.
Lemma find_u_drop_other e n k : k <> n -> find_u (drop_u e n) k = find_u e k.
Proof.
  intros H. unfold find_u, drop_u. cbn [set_cmds uods]. induction (uods e) as [|x l IH]; cbn [find filter]; [reflexivity|].
  destruct (Nat.eqb (c_name x) n) eqn:Ex; cbn [negb].
  - apply Nat.eqb_eq in Ex. destruct (Nat.eqb (c_name x) k) eqn:E2; [apply Nat.eqb_eq in E2; congruence|exact IH].
  - cbn [find]. destruct (Nat.eqb (c_name x) k); [reflexivity|exact IH].
Qed.

Section C11.
  Variable safe : list (option Z).
  Variable overlaps : list (list nat).

  Definition inited_in (e : E) (n id : nat) : Prop := exists c, find_u e n = Some c /\ c_id c = id /\ c_init c = true.
  Definition agrees (e : E) (s : st11) : Prop := forall n id, In (n, id) (live s) <-> inited_in e n id.
  Definition J (e : E) : Prop := exists s, mon11 false overlaps st11_0 (trace e) = Some s /\ agrees e s.

  Lemma J_same e e' : trace e' = trace e -> uods e' = uods e -> J e -> J e'.
  Proof.
    intros Ht Hu [s [M A]]. exists s. rewrite Ht. split; [exact M|].
    intros n id. unfold inited_in, find_u. rewrite Hu. apply A.
  Qed.

  Definition quiet11 (x : ev) : bool :=
    match x with EUInit _ _ | EUExec _ _ _ | EUFinal _ _ => false | _ => true end.
  Lemma J_emit_quiet e x : quiet11 x = true -> J e -> J (emit e x).
  Proof.
    intros Q [s [M A]]. exists s. split.
    - cbn [emit trace]. rewrite mon11_app, M. cbn [mon11]. destruct x; try discriminate Q; reflexivity.
    - exact A.
  Qed.

  Lemma J_uadd e c : find_u e (c_name c) = None -> c_init c = false -> J e -> J (set_cmds e (reg e) (uods e ++ [c])).
  Proof.
    intros F I [s [M A]]. exists s. split; [exact M|]. intros n id. rewrite (A n id). unfold inited_in.
    destruct (Nat.eq_dec n (c_name c)) as [->|Hn].
    - rewrite (find_u_add e c F), F. split; intros [c0 [H1 [H2 H3]]]; [discriminate|]. inversion H1; subst. congruence.
    - now rewrite (find_u_add_other e c n Hn).
  Qed.

  Lemma J_uinit e n c : find_u e n = Some c -> c_init c = false -> J e -> J (put_u (emit e (EUInit n (c_id c))) (inited c)).
  Proof.
    intros F I [s [M A]]. pose proof (find_u_name _ _ _ F) as Hn.
    assert (Hno : has_name n (live s) = false).
    { destruct (has_name n (live s)) eqn:E; [|reflexivity]. apply has_name_In in E as [id Hin].
      apply A in Hin as [c0 [H1 [_ H3]]]. rewrite F in H1. inversion H1; subst. congruence. }
    exists {| live := (n, c_id c) :: live s; superseded := []; dead := dead s |}. split.
    - cbn [put_u set_cmds emit trace]. rewrite mon11_app, M. cbn [mon11 ev11 andb]. rewrite Hno. reflexivity.
    - intros k id. cbn [live In]. unfold inited_in.
      destruct (Nat.eq_dec k n) as [->|Hk].
      + assert (Fp : find_u (put_u (emit e (EUInit n (c_id c))) (inited c)) n = Some (inited c)).
        { rewrite <- Hn. apply (find_u_put (emit e (EUInit (c_name c) (c_id c))) c (inited c)). cbn [inited c_name]. now rewrite Hn. }
        rewrite Fp. split.
        * intros [H|H]; [inversion H; subst; exists (inited c); repeat split|].
          exfalso. assert (E : has_name n (live s) = true) by (apply has_name_In; now exists id). congruence.
        * intros [c0 [H1 [H2 _]]]. inversion H1; subst. left. reflexivity.
      + rewrite (find_u_put_other _ (inited c) k) by (cbn [inited c_name]; congruence).
        change (find_u (emit e (EUInit n (c_id c))) k) with (find_u e k). rewrite <- (A k id). split; [|tauto].
        intros [H|H]; [inversion H; congruence|exact H].
  Qed.

  Lemma J_uexec e n c id k : find_u e n = Some c -> c_id c = id -> c_init c = true -> J e -> J (emit e (EUExec n id k)).
  Proof.
    intros F D I [s [M A]]. exists s. split; [|exact A].
    cbn [emit trace]. rewrite mon11_app, M. cbn [mon11 ev11 andb].
    assert (L : memk (n, id) (live s) = true) by (apply memk_In, A; exists c; repeat split; assumption).
    now rewrite L.
  Qed.

  Lemma J_uput e c c' : find_u e (c_name c') = Some c -> c_id c' = c_id c -> c_init c' = c_init c -> J e -> J (put_u e c').
  Proof.
    intros F D I [s [M A]]. exists s. split; [exact M|]. intros n id. rewrite (A n id). unfold inited_in.
    destruct (Nat.eq_dec n (c_name c')) as [->|Hn].
    - rewrite (find_u_put e c c' F), F. split; intros [c0 [H1 [H2 H3]]]; inversion H1; subst; eexists; repeat split; congruence.
    - now rewrite (find_u_put_other e c' n Hn).
  Qed.

  Lemma J_ufin e c c0 : find_u e (c_name c) = Some c0 -> c_id c0 = c_id c -> J e -> J (fin_u e c).
  Proof.
    intros F D [s [M A]].
    eexists. split.
    - unfold fin_u. cbn [drop_u set_cmds emit trace]. rewrite mon11_app, M. cbn [mon11 ev11 andb]. reflexivity.
    - intros n id. cbn [live]. rewrite filter_In. unfold inited_in, fin_u.
      destruct (Nat.eq_dec n (c_name c)) as [->|Hn].
      + rewrite find_u_drop_same. split; [|intros [x [H _]]; discriminate].
        intros [Hin Hne]. apply A in Hin as [c1 [H1 [H2 _]]]. rewrite F in H1. inversion H1; subst.
        rewrite D in Hne. assert (E : key_eqb (c_name c, c_id c) (c_name c, c_id c) = true) by (now apply key_eqb_eq).
        rewrite E in Hne. discriminate.
      + rewrite (find_u_drop_other _ (c_name c) n Hn).
        change (find_u (emit e (EUFinal (c_name c) (c_id c))) n) with (find_u e n). rewrite <- (A n id). split; [tauto|].
        intros H. split; [exact H|]. destruct (key_eqb (n, id) (c_name c, c_id c)) eqn:E; [|reflexivity].
        apply key_eqb_eq in E. inversion E. congruence.
  Qed.

  Lemma J_write e : J e -> J (write_image e).
  Proof.
    intros H. unfold write_image. destruct (negb (started e)); [exact H|]. destruct (wok e).
    - apply (J_emit_quiet (set_io e (prev e) (outs e) (map Some (outs e)))); [reflexivity|]. revert H. apply J_same; reflexivity.
    - destruct (last_err e); [exact H|]. unfold set_error_state. apply J_emit_quiet; [reflexivity|]. revert H. apply J_same; reflexivity.
  Qed.

  Lemma apply_safe_same e : trace (fst (apply_safe safe e)) = trace e /\ uods (fst (apply_safe safe e)) = uods e.
  Proof. unfold apply_safe. destruct (safe_from 0 safe (outs e)). split; reflexivity. Qed.

  Lemma J_prim e e' : prim safe e e' -> J e -> J e'.
  Proof.
    intros P H. destruct P; try (revert H; apply J_same; reflexivity).
    - (* update_clocks *) unfold update_clocks. cbv zeta. apply J_emit_quiet; [reflexivity|].
      revert H. apply J_same; unfold advance_clocks; cbv zeta; destruct (bpaused e || _); reflexivity.
    - now apply J_uadd.
    - now apply J_uinit.
    - now apply (J_uexec e n c).
    - now apply (J_uput e c).
    - now apply (J_ufin e c c0).
    - now apply J_write.
    - (* set_out_by *) unfold set_out_by. apply J_emit_quiet; [reflexivity|]. revert H. apply J_same; reflexivity.
    - (* unpause *) unfold unpause_body. cbv zeta.
      apply (J_same (emit e (EUnpause (prev e)))); [| |apply J_emit_quiet; [reflexivity|exact H]];
        cbn [emit prev set_sys upd_flags]; destruct (prev e); reflexivity.
    - (* unhold *) revert H. apply J_same; unfold unhold_body; destruct (paused e); reflexivity.
    - (* pause *) unfold pause_begin. cbv zeta. set (e1 := set_sys _ _).
      destruct (apply_safe_same e1) as [T1 U1]. destruct (apply_safe safe e1) as [e2 c]. cbn [fst] in T1, U1.
      apply (J_same (emit e (EPause (paused e) (match prev e2 with None => c | Some p => p end)))).
      + cbn [set_clk emit set_io trace]. now rewrite T1.
      + cbn [set_clk emit set_io uods]. now rewrite U1.
      + apply J_emit_quiet; [reflexivity|exact H].
    - (* hold *) revert H. apply J_same; unfold hold_begin; destruct (paused e); reflexivity.
    - (* start_body *) apply (J_same (emit e (EStarted (next_run e)))); [reflexivity|reflexivity|]. now apply J_emit_quiet.
    - (* stop_core *) unfold stop_core. apply (J_same (write_image (stop_pre safe e))); [reflexivity|reflexivity|].
      apply J_write. unfold stop_pre. destruct (apply_safe_same e) as [T1 U1]. destruct (apply_safe safe e) as [e1 c]. cbn [fst] in T1, U1.
      apply (J_same (emit e EStoppedRun)).
      + cbn [set_sys set_trk set_err emit set_run set_io upd_flags trace]. now rewrite T1.
      + cbn [set_sys set_trk set_err emit set_run set_io upd_flags uods]. now rewrite U1.
      + now apply J_emit_quiet.
    - (* restart_stop *) apply (J_same (emit e EStoppedRun)); [reflexivity|reflexivity|]. now apply J_emit_quiet.
    - (* restart_finish *) apply (J_same (emit e (EStarted (next_run e)))); [reflexivity|reflexivity|]. now apply J_emit_quiet.
    - (* set_error_state *) unfold set_error_state. apply J_emit_quiet; [reflexivity|]. revert H. apply J_same; reflexivity.
  Qed.

  Lemma J_boot n outs0 : J (boot safe (init n outs0)).
  Proof.
    unfold boot. cbv zeta. destruct (apply_safe_same (init n outs0)) as [T1 U1].
    apply J_emit_quiet; [reflexivity|].
    apply (J_same (init n outs0)); [exact T1|exact U1|].
    exists st11_0. split; [reflexivity|]. intros k id. cbn. split; [tauto|]. intros [c [H _]]. discriminate.
  Qed.

  Theorem J_reachable n outs0 ops :
    J (fold_left (fun e o => fst (step safe overlaps e o)) ops (boot safe (init n outs0))).
  Proof. apply (invariant_by_prims safe overlaps J J_prim). apply J_boot. Qed.

  (* requesting a command cancels the older one: after _cancel_command of a UOD request, the instance that request
     started -- if it is still registered -- is marked cancelled (and a cancelled instance is never executed again:
     exec_uod finalizes it instead); an instance of another request is left alone *)
  Lemma find_u_mark_done x m r k : find_u (fst (mark_done x m r)) k = find_u x k.
  Proof. unfold mark_done. destruct (existsb _ _); [|reflexivity]. destruct m as [[a d]|]; reflexivity. Qed.

  Lemma find_u_cancel_unstarted e m r k : find_u (fst (cancel_unstarted e m r)) k = find_u e k.
  Proof.
    unfold cancel_unstarted. pose proof (find_u_mark_done e m r k) as K. destruct (mark_done e m r) as [e1 m1]. cbn [fst] in K.
    destruct (mark_cancelled_raises (tk e1 m1) r); cbn [fst]; [exact K|]. now rewrite find_u_note_cancel_m.
  Qed.

  Lemma cancel_request_effect e m r k : r_name r = CU k ->
    match find_u (fst (cancel_request e m r)) k with
    | None => True
    | Some c => c_id c = r_id r -> c_cancelled c = true
    end.
  Proof.
    intros Hr. unfold cancel_request. rewrite Hr. destruct (find_u e k) as [c|] eqn:F.
    - destruct (Nat.eqb (c_id c) (r_id r)) eqn:Eid.
      + pose proof (find_u_name _ _ _ F) as Hn.
        destruct (c_complete c).
        * rewrite find_u_mark_done. unfold fin_u. rewrite Hn. now rewrite find_u_drop_same.
        * destruct (mark_cancelled_raises (tk e m) r); cbn [fst].
          -- assert (Q : forall c', c_name c' = k -> find_u (put_u e c') k = Some c').
             { intros c' Hc'. rewrite <- Hc'. apply (find_u_put e c c'). now rewrite Hc'. }
             rewrite Q; [reflexivity|exact Hn].
          -- rewrite find_u_mark_done. unfold fin_u. rewrite Hn. now rewrite find_u_drop_same.
      + rewrite find_u_cancel_unstarted, F. intros K. apply Nat.eqb_neq in Eid. contradiction.
    - rewrite find_u_cancel_unstarted, F. exact I.
  Qed.

  (* a request that has not started an instance is done once cancelled: it never starts one *)
  Lemma cancel_unstarted_done e m r :
    existsb (fun x => Nat.eqb (r_id x) (r_id r)) (m_exe e m) = true ->
    memn (r_id r) (m_done (fst (cancel_unstarted e m r)) (snd (cancel_unstarted e m r))) = true.
  Proof.
    intros H. unfold cancel_unstarted, mark_done. rewrite H.
    assert (M : forall d, memn (r_id r) (if memn (r_id r) d then d else r_id r :: d) = true).
    { intros d. destruct (memn (r_id r) d) eqn:E; [exact E|]. unfold memn. cbn [existsb]. now rewrite Nat.eqb_refl. }
    destruct m as [[x d]|].
    - destruct (mark_cancelled_raises _ r); cbn [fst snd m_done]; apply M.
    - destruct (mark_cancelled_raises _ r); cbn [fst snd m_done note_cancel_m]; [apply M|].
      unfold note_cancel. destruct (r_name r) as [[]|]; try apply M; destruct (trk _); apply M.
  Qed.
End C11.
