(* C21: proofs about the comparison model. *)
From Coq Require Import ZArith QArith List Bool Arith Lia.
From OP Require Import lib.Obs gen.Units model.C21.
Import ListNotations.
Open Scope Q_scope.

(* comparability is symmetric -- for every unit table *)
Lemma comparable_sym a b : comparable a b = comparable b a.
Proof.
  destruct a as [x|], b as [y|]; cbn [comparable]; try reflexivity.
  rewrite (Nat.eqb_sym x y), (Nat.eqb_sym (quantity x) (quantity y)), (orb_comm (memn y (compat x))). reflexivity.
Qed.

(* an increasing affine map keeps the order *)
Lemma affine_compare x y f o : 0 < f -> Qcompare (x * f + o) (y * f + o) = Qcompare x y.
Proof.
  intros Hf. destruct (Qcompare_spec x y) as [E|L|G].
  - apply Qeq_alt. now rewrite E.
  - apply Qlt_alt. apply Qplus_lt_l. now apply Qmult_lt_compat_r.
  - apply Qgt_alt. apply Qplus_lt_l. now apply Qmult_lt_compat_r.
Qed.

(* same unit (or no unit): compare_values compares the two decimals exactly, hence agrees with the physical comparison *)
Theorem same_unit_exact c :
  comparable (c_ua c) (c_ub c) = true -> same_unit c = true ->
  0 < c_fa c -> c_fb c == c_fa c -> c_ob c == c_oa c ->
  compare_all c = spec c.
Proof.
  intros Hc Hs Hf Ef Eo. unfold compare_all, spec, phys_a, phys_b. rewrite Hc, Hs. cbn [negb]. unfold cmp.
  rewrite Ef, Eo. now rewrite affine_compare.
Qed.

(* different units: when pint's conversion of b into a's unit is exact, all six operators agree with the physical comparison *)
Theorem exact_conversion_gives_spec c :
  comparable (c_ua c) (c_ub c) = true -> same_unit c = false -> c_dim_ok c = true ->
  0 < c_fa c ->
  val (c_b_in_a c) * c_fa c + c_oa c == phys_b c ->
  compare_all c = spec c.
Proof.
  intros Hc Hs Hd Hfa Eb. unfold compare_all. rewrite Hc, Hs, Hd. cbn [negb]. unfold spec, cmp.
  rewrite <- Eb. unfold phys_a. now rewrite affine_compare.
Qed.

(* the operators are MUTUALLY CONSISTENT for all inputs, exact conversion or not: compare_values either raises for all six
   or answers like one three-way comparison *)
Lemma six_of_laws k :
  let s := six_of k in
  ((r_lt s = RT /\ r_eq s = RF /\ r_gt s = RF) \/ (r_lt s = RF /\ r_eq s = RT /\ r_gt s = RF) \/ (r_lt s = RF /\ r_eq s = RF /\ r_gt s = RT))
  /\ (r_ne s = RT <-> r_eq s = RF)
  /\ (r_le s = RT <-> r_lt s = RT \/ r_eq s = RT)
  /\ (r_ge s = RT <-> r_gt s = RT \/ r_eq s = RT).
Proof.
  cbv zeta. destruct k; cbn; repeat split; intros; try tauto; try discriminate; try (destruct H; discriminate); auto.
Qed.
Theorem compare_all_consistent c : compare_all c = all_raise \/ exists k, compare_all c = six_of k.
Proof.
  unfold compare_all. destruct (negb (comparable _ _)); [now left|]. destruct (same_unit c); [right; eauto|].
  destruct (negb (c_dim_ok c)); [now left|right; eauto].
Qed.

(* the laws the property names hold of the physical comparison, hence of compare_values whenever it equals it *)
Lemma spec_laws c :
  let s := spec c in
  (* exactly one of less, equal, greater *)
  ((r_lt s = RT /\ r_eq s = RF /\ r_gt s = RF) \/ (r_lt s = RF /\ r_eq s = RT /\ r_gt s = RF) \/ (r_lt s = RF /\ r_eq s = RF /\ r_gt s = RT))
  /\ (r_ne s = RT <-> r_eq s = RF)
  /\ (r_le s = RT <-> r_lt s = RT \/ r_eq s = RT)
  /\ (r_ge s = RT <-> r_gt s = RT \/ r_eq s = RT).
Proof.
  apply six_of_laws.
Qed.

Lemma monitor_accepts_model c :
  holds_b (ICmp c) (OCmp (spec c)) = true.
Proof.
  cbn [holds_b]. destruct (comparable _ _ && _); [|reflexivity]. unfold six_eqb. destruct (spec c) as [a b d e f g]; cbn.
  destruct a, b, d, e, f, g; reflexivity.
Qed.
