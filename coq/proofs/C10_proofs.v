(* C10: proofs. *)
From Coq Require Import ZArith List Bool Arith Lia.
From OP Require Import lib.Obs model.Eng model.EngRun model.C10 proofs.Eng_state proofs.Eng_prims.
Import ListNotations.
Open Scope Z_scope.

Lemma ids10_app l : forall n l', ids10 n (l ++ l') = match ids10 n l with Some n' => ids10 n' l' | None => None end.
Proof.
  induction l as [|x l IH]; intros n l'; [reflexivity|].
  cbn [app]. destruct x; cbn [ids10]; try apply IH. destruct (Nat.eqb rid n); [apply IH|reflexivity].
Qed.

Section C10.
  Variable safe : list (option Z).
  Variable overlaps : list (list nat).

  (* the run ids handed out so far are exactly 0 .. next_run-1, in this order; the current one is among them *)
  Definition R10 (e : E) : Prop :=
    ids10 0 (trace e) = Some (next_run e) /\ (forall r, run_id e = Some r -> (r < next_run e)%nat).

  Lemma R10_same e e' : trace e' = trace e -> next_run e' = next_run e -> run_id e' = run_id e -> R10 e -> R10 e'.
  Proof. unfold R10. intros -> -> ->. exact id. Qed.

  Lemma R10_emit e x : (match x with EStarted _ => false | _ => true end) = true -> R10 e -> R10 (emit e x).
  Proof.
    intros Q [A B]. split; [|exact B]. cbn [emit trace next_run]. rewrite ids10_app, A. destruct x; try discriminate Q; reflexivity.
  Qed.

  Lemma R10_new_run e : R10 e -> R10 (new_run e).
  Proof.
    intros [A B]. unfold new_run. split.
    - cbn [emit set_run trace next_run]. rewrite ids10_app, A. cbn [ids10]. now rewrite Nat.eqb_refl.
    - cbn [emit set_run run_id next_run]. intros r H. inversion H. lia.
  Qed.

  Lemma R10_write e : R10 e -> R10 (write_image e).
  Proof.
    intros H. unfold write_image. destruct (negb (started e)); [exact H|]. destruct (wok e).
    - apply (R10_emit (set_io e (prev e) (outs e) (map Some (outs e)))); [reflexivity|]. revert H. apply R10_same; reflexivity.
    - destruct (last_err e); [exact H|]. unfold set_error_state. apply R10_emit; [reflexivity|]. revert H. apply R10_same; reflexivity.
  Qed.

  Lemma apply_safe_same e : trace (fst (apply_safe safe e)) = trace e /\ next_run (fst (apply_safe safe e)) = next_run e
    /\ run_id (fst (apply_safe safe e)) = run_id e.
  Proof. unfold apply_safe. destruct (safe_from 0 safe (outs e)). repeat split. Qed.

  Lemma R10_cleared e x : R10 e -> (match x with EStarted _ => false | _ => true end) = true ->
    forall e', trace e' = trace e ++ [x] -> next_run e' = next_run e -> run_id e' = None -> R10 e'.
  Proof.
    intros [A B] Q e' Ht Hn Hr. split.
    - rewrite Ht, Hn, ids10_app, A. destruct x; try discriminate Q; reflexivity.
    - rewrite Hr. discriminate.
  Qed.

  Lemma R10_prim e e' : prim safe e e' -> R10 e -> R10 e'.
  Proof.
    intros P H. destruct P; try (revert H; apply R10_same; reflexivity).
    - (* update_clocks *) unfold update_clocks. cbv zeta. apply R10_emit; [reflexivity|].
      revert H. apply R10_same; unfold advance_clocks; cbv zeta; destruct (bpaused e || _); reflexivity.
    - (* init *) apply (R10_same (emit e (EUInit n (c_id c)))); try reflexivity. now apply R10_emit.
    - (* exec *) now apply R10_emit.
    - (* finalize *) unfold fin_u. apply (R10_same (emit e (EUFinal (c_name c) (c_id c)))); try reflexivity. now apply R10_emit.
    - now apply R10_write.
    - (* set_out_by *) unfold set_out_by. apply R10_emit; [reflexivity|]. revert H. apply R10_same; reflexivity.
    - (* unpause *) unfold unpause_body. cbv zeta.
      apply (R10_same (emit e (EUnpause (prev e)))); [| | |apply R10_emit; [reflexivity|exact H]];
        cbn [emit prev set_sys upd_flags]; destruct (prev e); reflexivity.
    - (* unhold *) revert H. apply R10_same; unfold unhold_body; destruct (paused e); reflexivity.
    - (* pause *) unfold pause_begin. cbv zeta. set (e1 := set_sys _ _).
      destruct (apply_safe_same e1) as [T1 [N1 U1]]. destruct (apply_safe safe e1) as [e2 c]. cbn [fst] in T1, N1, U1.
      apply (R10_same (emit e (EPause (paused e) (match prev e2 with None => c | Some p => p end)))).
      + cbn [set_clk emit set_io trace]. now rewrite T1.
      + cbn [set_clk emit set_io next_run]. now rewrite N1.
      + cbn [set_clk emit set_io run_id]. now rewrite U1.
      + apply R10_emit; [reflexivity|exact H].
    - (* hold *) revert H. apply R10_same; unfold hold_begin; destruct (paused e); reflexivity.
    - (* start_body *) unfold start_body. cbv zeta.
      apply (R10_same (new_run (upd_flags e true false false (stopping e)))); try reflexivity.
      apply R10_new_run. revert H. apply R10_same; reflexivity.
    - (* stop_core *) unfold stop_core. apply (R10_same (write_image (stop_pre safe e))); try reflexivity.
      apply R10_write. unfold stop_pre. destruct (apply_safe_same e) as [T1 [N1 U1]]. destruct (apply_safe safe e) as [e1 c].
      cbn [fst] in T1, N1, U1. apply (R10_cleared e EStoppedRun H); [reflexivity| | |reflexivity].
      + cbn [set_sys set_trk set_err emit set_run set_io upd_flags trace]. now rewrite T1.
      + cbn [set_sys set_trk set_err emit set_run set_io upd_flags next_run]. now rewrite N1.
    - (* restart_stop *) apply (R10_cleared e EStoppedRun H); reflexivity.
    - (* restart_finish *) unfold restart_finish. cbv zeta.
      apply (R10_same (new_run (set_io (upd_flags e true false false (stopping e)) None (outs e) (hw e)))); try reflexivity.
      apply R10_new_run. revert H. apply R10_same; reflexivity.
    - (* set_error_state *) unfold set_error_state. apply R10_emit; [reflexivity|]. revert H. apply R10_same; reflexivity.
  Qed.

  Lemma R10_boot n outs0 : R10 (boot safe (init n outs0)).
  Proof.
    unfold boot. cbv zeta. destruct (apply_safe_same (init n outs0)) as [T1 [N1 U1]].
    apply R10_emit; [reflexivity|]. apply (R10_same (init n outs0)); try assumption.
    split; [reflexivity|]. cbn. discriminate.
  Qed.

  Theorem R10_reachable n outs0 ops :
    R10 (fold_left (fun e o => fst (step safe overlaps e o)) ops (boot safe (init n outs0))).
  Proof. apply (invariant_by_prims safe overlaps R10 R10_prim). apply R10_boot. Qed.

  (* the run id is cleared by the step that ends the run, whichever way it ends *)
  Lemma stop_clears_run_id e : run_id (stop_core safe e) = None /\ started (stop_core safe e) = false.
  Proof.
    unfold stop_core. destruct (stop_pre_facts safe e) as [_ [_ [_ [_ [_ [A _]]]]]].
    remember (stop_pre safe e) as e4 eqn:E4. clear E4.
    unfold write_image. destruct (negb (started e4)); [split; [exact A|reflexivity]|].
    destruct (wok e4); [split; [exact A|reflexivity]|]. destruct (last_err e4); split; try exact A; reflexivity.
  Qed.
  Lemma restart_clears_run_id e : run_id (restart_stop e) = None /\ started (restart_stop e) = false.
  Proof. split; reflexivity. Qed.
  Lemma restart_new_run_id e : run_id (restart_finish e) = Some (next_run e) /\ started (restart_finish e) = true.
  Proof. split; reflexivity. Qed.
End C10.
