(* C41: the macro recursion search is a sound and complete reachability test. *)
From Coq Require Import ZArith List Bool Arith Lia.
From OP Require Import lib.Obs model.MacroSearch.
Import ListNotations.

(* some chain of calls starting in this body leads to a call of target *)
Inductive reach (t : tbl) (target : nat) : list nat -> Prop :=
| r_here b : In target b -> reach t target b
| r_step b c b' : In c b -> lookup t c = Some b' -> reach t target b' -> reach t target b.

Lemma memn_In x l : memn x l = true <-> In x l.
Proof.
  unfold memn. rewrite existsb_exists. split.
  - intros [y [Hy E]]. apply Nat.eqb_eq in E. now subst.
  - intros H. exists x. split; [exact H|apply Nat.eqb_refl].
Qed.

Section Search.
  Variable t : tbl.
  Variable target : nat.

  (* the inner loop of search (S f), named *)
  Definition go (f : nat) := fix go (vis : list nat) (body : list nat) {struct body} : option (list nat * list nat) :=
    match body with
    | [] => Some ([], vis)
    | c :: rest =>
        if Nat.eqb c target then Some ([c], vis)
        else match lookup t c with
             | Some b =>
                 if memn c vis then go vis rest
                 else match search f t target (c :: vis) b with
                      | None => None
                      | Some ([], vis1) => go vis1 rest
                      | Some (p, vis1) => Some (c :: p, vis1)
                      end
             | None => go vis rest
             end
    end.
  Lemma search_S f vis body : search (S f) t target vis body = go f vis body.
  Proof. reflexivity. Qed.

  (* ---------- soundness: a non-empty result is a genuine chain ending with the target ---------- *)
  Lemma sound f : forall vis body p v, search f t target vis body = Some (p, v) -> p <> [] ->
    reach t target body /\ last p 0%nat = target.
  Proof.
    induction f as [|f IH]; intros vis body p v H Hp; [discriminate|].
    rewrite search_S in H. revert vis H. induction body as [|c rest IHb]; intros vis H; cbn [go] in H.
    - inversion H; subst. contradiction.
    - destruct (Nat.eqb c target) eqn:Ec.
      + apply Nat.eqb_eq in Ec. inversion H; subst. split; [apply r_here; now left|reflexivity].
      + destruct (lookup t c) as [b|] eqn:El.
        * destruct (memn c vis).
          -- destruct (IHb vis H) as [R L]. split; [|exact L]. inversion R; subst;
               [apply r_here; now right|eapply r_step; [right; eassumption|eassumption|assumption]].
          -- destruct (search f t target (c :: vis) b) as [[q v1]|] eqn:Es; [|discriminate].
             destruct q as [|q0 q].
             ++ destruct (IHb v1 H) as [R L]. split; [|exact L]. inversion R; subst;
                  [apply r_here; now right|eapply r_step; [right; eassumption|eassumption|assumption]].
             ++ inversion H; subst. destruct (IH _ _ _ _ Es) as [R L]; [discriminate|].
                split; [eapply r_step; [now left|exact El|exact R]|]. cbn [last] in *. exact L.
        * destruct (IHb vis H) as [R L]. split; [|exact L]. inversion R; subst;
            [apply r_here; now right|eapply r_step; [right; eassumption|eassumption|assumption]].
  Qed.

  (* ---------- completeness ---------- *)
  (* a body is "closed in W": it does not call target and every macro it calls that exists is in W *)
  Definition closed_body (W : list nat) (b : list nat) : Prop :=
    forall c, In c b -> c <> target /\ (forall b', lookup t c = Some b' -> In c W).

  Lemma empty_result f : forall vis body v, search f t target vis body = Some ([], v) ->
    incl vis v /\ closed_body v body /\
    (forall x, In x v -> ~ In x vis -> exists b, lookup t x = Some b /\ closed_body v b).
  Proof.
    induction f as [|f IH]; intros vis body v H; [discriminate|].
    rewrite search_S in H. revert vis H. induction body as [|c rest IHb]; intros vis H; cbn [go] in H.
    - inversion H; subst. split; [apply incl_refl|split; [intros c []|intros x Hx Hn; contradiction]].
    - destruct (Nat.eqb c target) eqn:Ec; [discriminate|]. apply Nat.eqb_neq in Ec.
      destruct (lookup t c) as [b|] eqn:El.
      + destruct (memn c vis) eqn:Em.
        * destruct (IHb vis H) as [I1 [C1 N1]]. split; [exact I1|split; [|exact N1]].
          intros c0 [<-|Hin]; [|now apply C1]. split; [exact Ec|]. intros b' _. apply I1. now apply memn_In.
        * destruct (search f t target (c :: vis) b) as [[q v1]|] eqn:Es; [|discriminate].
          destruct q as [|q0 q]; [|discriminate].
          destruct (IH _ _ _ Es) as [I0 [C0 N0]]. destruct (IHb v1 H) as [I1 [C1 N1]].
          assert (Mono : forall W W' bb, incl W W' -> closed_body W bb -> closed_body W' bb).
          { intros W W' bb HI HC c0 Hc0. destruct (HC c0 Hc0) as [A B]. split; [exact A|]. intros b' Hb'. apply HI. exact (B b' Hb'). }
          split; [|split].
          -- intros x Hx. apply I1. apply I0. now right.
          -- intros c0 [<-|Hin]; [|now apply C1]. split; [exact Ec|]. intros b' _. apply I1. apply I0. now left.
          -- intros x Hx Hn. destruct (in_dec Nat.eq_dec x v1) as [Hv1|Hv1].
             ++ destruct (Nat.eq_dec x c) as [->|Hxc].
                ** exists b. split; [exact El|]. now apply (Mono v1 v).
                ** destruct (N0 x Hv1) as [bx [Lx Cx]]; [intros [Hc|Hc]; [congruence|contradiction]|].
                   exists bx. split; [exact Lx|now apply (Mono v1 v)].
             ++ now apply N1.
      + destruct (IHb vis H) as [I1 [C1 N1]]. split; [exact I1|split; [|exact N1]].
        intros c0 [<-|Hin]; [|now apply C1]. split; [exact Ec|]. intros b' Hb'. congruence.
  Qed.

  Theorem complete f body v : search f t target [] body = Some ([], v) -> ~ reach t target body.
  Proof.
    intros H. destruct (empty_result f [] body v H) as [_ [C N]].
    assert (K : forall b, reach t target b -> closed_body v b -> False).
    { intros b R. induction R as [b Hin|b c b' Hin Hl R IH]; intros Cb.
      - destruct (Cb _ Hin) as [A _]. now apply A.
      - destruct (Cb _ Hin) as [_ B]. specialize (B _ Hl).
        destruct (N c B) as [bc [Lc Cc]]; [intros []|]. rewrite Hl in Lc. inversion Lc; subst. now apply IH. }
    intros R. exact (K body R C).
  Qed.
End Search.

(* the decision the interpreter and the analyzer take: refuse the call / flag the macro iff the macro can reach a call of
   itself *)
Theorem refused_iff_reaches t m b : lookup t m = Some b ->
  search (S (length t)) t m [] b <> None ->
  (refused t m = true <-> reach t m b).
Proof.
  intros L F. unfold refused. rewrite L.
  destruct (search (S (length t)) t m [] b) as [[p v]|] eqn:Es; [|contradiction].
  destruct p as [|p0 p].
  - split; [discriminate|]. intros R. exfalso. exact (complete t m _ _ _ Es R).
  - split; [|reflexivity]. intros _. destruct (sound t m _ _ _ _ _ Es) as [R _]; [discriminate|exact R].
Qed.

(* ---------- the search terminates within the recursion depth "number of macros" ---------- *)
Definition unvisited (t : tbl) (vis : list nat) : nat := length (filter (fun k => negb (memn k vis)) (map fst t)).

Lemma lookup_key t c b : lookup t c = Some b -> In c (map fst t).
Proof.
  induction t as [|[k b0] t IH]; cbn; [discriminate|]. destruct (Nat.eqb k c) eqn:E.
  - apply Nat.eqb_eq in E. intros _. now left.
  - intros H. right. now apply IH.
Qed.

Lemma filter_length_le {A} (f g : A -> bool) l : (forall x, f x = true -> g x = true) ->
  (length (filter f l) <= length (filter g l))%nat.
Proof.
  intros H. induction l as [|x l IH]; cbn; [lia|]. destruct (f x) eqn:Ef.
  - rewrite (H x Ef). cbn. lia.
  - destruct (g x); cbn; lia.
Qed.

Lemma filter_length_lt {A} (f g : A -> bool) l x : (forall y, f y = true -> g y = true) -> In x l -> f x = false -> g x = true ->
  (length (filter f l) < length (filter g l))%nat.
Proof.
  intros H Hin Hf Hg. induction l as [|y l IH]; [destruct Hin|]. cbn. destruct Hin as [->|Hin].
  - rewrite Hf, Hg. cbn. pose proof (filter_length_le f g l H). lia.
  - specialize (IH Hin). destruct (f y) eqn:Ef.
    + rewrite (H y Ef). cbn. lia.
    + destruct (g y); cbn; lia.
Qed.

Lemma unvisited_mono t vis vis' : incl vis vis' -> (unvisited t vis' <= unvisited t vis)%nat.
Proof.
  intros H. unfold unvisited. apply filter_length_le. intros x Hx. apply negb_true_iff in Hx. apply negb_true_iff.
  destruct (memn x vis) eqn:E; [|reflexivity]. apply memn_In in E. apply H in E. apply memn_In in E. congruence.
Qed.

Lemma unvisited_add t vis c b : lookup t c = Some b -> memn c vis = false -> (unvisited t (c :: vis) < unvisited t vis)%nat.
Proof.
  intros L M. unfold unvisited. apply (filter_length_lt _ _ _ c).
  - intros y Hy. apply negb_true_iff in Hy. apply negb_true_iff. cbn [memn existsb] in Hy. apply orb_false_iff in Hy as [_ Hy]. exact Hy.
  - eapply lookup_key; eassumption.
  - apply negb_false_iff. cbn [memn existsb]. now rewrite Nat.eqb_refl.
  - now rewrite M.
Qed.

Lemma search_incl t target f : forall vis body p v, search f t target vis body = Some (p, v) -> incl vis v.
Proof.
  induction f as [|f IH]; intros vis body p v H; [discriminate|].
  rewrite search_S in H. revert vis H. induction body as [|c rest IHb]; intros vis H; cbn [go] in H.
  - inversion H; subst. apply incl_refl.
  - destruct (Nat.eqb c target); [inversion H; subst; apply incl_refl|].
    destruct (lookup t c) as [b|]; [|now apply IHb].
    destruct (memn c vis); [now apply IHb|].
    destruct (search f t target (c :: vis) b) as [[q v1]|] eqn:Es; [|discriminate].
    pose proof (IH _ _ _ _ Es) as I0.
    destruct q as [|q0 q].
    + intros x Hx. apply (IHb v1 H). apply I0. now right.
    + inversion H; subst. intros x Hx. apply I0. now right.
Qed.

Lemma fuel_enough t target f : forall vis body, (unvisited t vis < f)%nat -> search f t target vis body <> None.
Proof.
  induction f as [|f IH]; intros vis body Hf; [lia|].
  rewrite search_S. revert vis Hf. induction body as [|c rest IHb]; intros vis Hf; cbn [go]; [discriminate|].
  destruct (Nat.eqb c target); [discriminate|].
  destruct (lookup t c) as [b|] eqn:El; [|now apply IHb].
  destruct (memn c vis) eqn:Em; [now apply IHb|].
  pose proof (unvisited_add t vis c b El Em) as Lt.
  destruct (search f t target (c :: vis) b) as [[q v1]|] eqn:Es.
  - destruct q as [|q0 q]; [|discriminate]. apply IHb.
    pose proof (search_incl _ _ _ _ _ _ _ Es) as I0.
    assert (incl vis v1) by (intros x Hx; apply I0; now right).
    pose proof (unvisited_mono t vis v1 H). lia.
  - exfalso. apply (IH (c :: vis) b); [lia|exact Es].
Qed.

Lemma unvisited_bound t : (unvisited t [] <= length t)%nat.
Proof.
  unfold unvisited. rewrite <- (map_length fst t). generalize (map fst t). intros l.
  induction l as [|x l IH]; [cbn; lia|]. change (filter (fun k => negb (memn k [])) (x :: l)) with (x :: filter (fun k => negb (memn k [])) l).
  cbn [length]. lia.
Qed.

(* unconditional form *)
Theorem refused_decides t m b : lookup t m = Some b -> (refused t m = true <-> reach t m b).
Proof.
  intros L. apply refused_iff_reaches; [exact L|]. apply fuel_enough. pose proof (unvisited_bound t). lia.
Qed.

(* ---------- the interpreter's side (model/Interp.v, stage B) ---------- *)
From OP Require Import model.Interp.
Section InterpMacros.
  Variable p : program.
  (* the registry keeps, per name, the Macro node registered last *)
  Lemma latest_definition_wins l nm m : macro_lookup (macro_put l nm m) nm = Some m.
  Proof.
    induction l as [|[k m0] l IH]; cbn [macro_put macro_lookup]; [now rewrite Nat.eqb_refl|].
    destruct (Nat.eqb k nm) eqn:E; cbn [macro_lookup]; rewrite E; [reflexivity|exact IH].
  Qed.
  Lemma other_names_untouched l nm m nm' : nm' <> nm -> macro_lookup (macro_put l nm m) nm' = macro_lookup l nm'.
  Proof.
    intros N. induction l as [|[k m0] l IH]; cbn [macro_put macro_lookup].
    - destruct (Nat.eqb nm nm') eqn:E; [apply Nat.eqb_eq in E; congruence|reflexivity].
    - destruct (Nat.eqb k nm) eqn:E; cbn [macro_lookup].
      + apply Nat.eqb_eq in E. subst k. destruct (Nat.eqb nm nm') eqn:E2; [apply Nat.eqb_eq in E2; congruence|reflexivity].
      + destruct (Nat.eqb k nm'); [reflexivity|exact IH].
  Qed.
  (* a call of an undefined macro, or one that would make the macro call itself, fails instead of running anything *)
  Lemma undefined_call_fails e b n nm k s : n_kind (nd p n) = KCallMacro nm -> macro_lookup (macros s) nm = None ->
    dispatch p e b n k s = Raise k s.
  Proof. intros K L. unfold dispatch. now rewrite K, L. Qed.
  Lemma recursive_call_fails e b n nm m k s : n_kind (nd p n) = KCallMacro nm -> macro_lookup (macros s) nm = Some m ->
    would_recurse p s nm m = true -> dispatch p e b n k s = Raise k s.
  Proof. intros K L W. unfold dispatch. now rewrite K, L, W. Qed.
End InterpMacros.
