(* C05: the locked blocks always form one nested chain -- in every state of every run of the interpreter model. *)
From Coq Require Import ZArith List Bool Arith Lia.
From OP Require Import lib.Obs model.Interp model.InterpRun proofs.Interp_inv.
Import ListNotations.
Open Scope Z_scope.

Section Locks.
  Variable p : program.
  Notation st := (st).
  Definition lk (s : S) (m : nat) : bool := lock_acquired (st s m).
  Definition no_new (s s' : S) : Prop := forall m, lk s' m = true -> lk s m = true.

  Lemma no_new_refl s : no_new s s. Proof. intros m H. exact H. Qed.
  Lemma no_new_trans a b c : no_new a b -> no_new b c -> no_new a c. Proof. intros H1 H2 m H. auto. Qed.

  Lemma nth_upd {A} (l : list A) : forall n m x d,
    nth m (upd l n x) d = if Nat.eqb m n && Nat.ltb n (length l) then x else nth m l d.
  Proof.
    induction l as [|y l IH]; intros n m x d; cbn [upd].
    - cbn [length]. replace (Nat.ltb n 0) with false by (symmetry; apply Nat.ltb_ge; lia). rewrite andb_false_r. destruct m; reflexivity.
    - destruct n as [|n], m as [|m]; cbn [nth upd length]; try reflexivity.
      rewrite IH. change (Nat.eqb (Datatypes.S m) (Datatypes.S n)) with (Nat.eqb m n).
      change (Nat.ltb (Datatypes.S n) (Datatypes.S (length l))) with (Nat.ltb n (length l)). reflexivity.
  Qed.

  Lemma st_set_ns s n x m : st (set_ns s n x) m = if Nat.eqb m n && Nat.ltb n (length (nodes s)) then x else st s m.
  Proof. unfold Interp.st, set_ns. cbn [nodes]. apply nth_upd. Qed.

  Lemma no_new_set_ns s n x : (lock_acquired x = true -> lk s n = true) -> no_new s (set_ns s n x).
  Proof.
    intros H m. unfold lk. rewrite st_set_ns. destruct (Nat.eqb m n && Nat.ltb n (length (nodes s))) eqn:E; [|exact id].
    apply andb_prop in E as [E _]. apply Nat.eqb_eq in E. subst. exact H.
  Qed.

  (* a node-state update that keeps the lock field *)
  Definition keeps_lock (g : ns -> ns) : Prop := forall x, lock_acquired (g x) = lock_acquired x.
  Lemma no_new_upd s n g : keeps_lock g -> no_new s (set_ns s n (g (st s n))).
  Proof. intros K. apply no_new_set_ns. rewrite K. exact id. Qed.

  Lemma kl_started b : keeps_lock (fun x => set_started x b). Proof. intros x. reflexivity. Qed.
  Lemma kl_completed b : keeps_lock (fun x => set_completed x b). Proof. intros x. reflexivity. Qed.
  Lemma kl_failed b : keeps_lock (fun x => set_failed x b). Proof. intros x. reflexivity. Qed.
  Lemma kl_kids a b : keeps_lock (fun x => set_kids x a b). Proof. intros x. reflexivity. Qed.
  Lemma kl_cond a b c : keeps_lock (fun x => set_cond x a b c). Proof. intros x. reflexivity. Qed.
  Lemma kl_wait w : keeps_lock (fun x => set_wait x w). Proof. intros x. reflexivity. Qed.

  Lemma no_new_complete s n : no_new s (complete s n).
  Proof. unfold complete. apply (no_new_upd s n (fun x => set_completed x true)). apply kl_completed. Qed.
  Lemma no_new_mark_completed s n : no_new s (mark_completed s n).
  Proof. unfold mark_completed. destruct (failed (st s n)); [apply no_new_refl|]. apply (no_new_upd s n (fun x => set_completed x true)). apply kl_completed. Qed.

  Lemma same_nodes s s' : nodes s' = nodes s -> no_new s s'.
  Proof. intros H m. unfold lk, Interp.st. now rewrite H. Qed.

  Lemma no_new_register s n : no_new s (register_interrupt p s n).
  Proof.
    unfold register_interrupt. destruct (in_ended_block p s n); [apply no_new_refl|]. set (s1 := with_ints s _ _).
    eapply no_new_trans; [apply (same_nodes s s1); reflexivity|].
    apply no_new_set_ns. cbn [set_cond lock_acquired]. exact id.
  Qed.
  Lemma no_new_unregister s n : no_new s (unregister_interrupt s n).
  Proof.
    unfold unregister_interrupt. set (s1 := set_ns s n _).
    eapply no_new_trans; [|apply (same_nodes s1 _); reflexivity].
    apply no_new_set_ns. cbn [set_cond lock_acquired]. exact id.
  Qed.

  Lemma no_new_fold {A} (f : S -> A -> S) : (forall s a, no_new s (f s a)) -> forall l s, no_new s (fold_left f l s).
  Proof. intros H. induction l as [|a l IH]; intros s; cbn [fold_left]; [apply no_new_refl|]. eapply no_new_trans; [apply H|apply IH]. Qed.

  Lemma no_new_abort s b : no_new s (abort_block_interrupts p s b).
  Proof.
    unfold abort_block_interrupts. apply no_new_fold. intros s0 x. destruct (memn (fst x) (descendants p b)); [|apply no_new_refl].
    eapply no_new_trans; [|apply no_new_unregister]. apply no_new_set_ns. cbn [set_kids lock_acquired]. exact id.
  Qed.
  Lemma no_new_end_block s b : no_new s (end_block p s b).
  Proof.
    unfold end_block. eapply no_new_trans; [|apply no_new_abort]. apply no_new_set_ns. cbn [set_block lock_acquired]. exact id.
  Qed.
  Lemma no_new_end_blocks l : forall s, no_new s (fold_left (end_block p) l s).
  Proof. apply no_new_fold. apply no_new_end_block. Qed.

  Lemma reset_one_lock x k : lock_acquired (reset_one x k) = true -> lock_acquired x = true.
  Proof. destruct k; cbn; try exact id; discriminate. Qed.
  Lemma no_new_reset_tree s n : no_new s (reset_tree p s n).
  Proof.
    unfold reset_tree. apply no_new_fold. intros s0 m. apply no_new_set_ns. apply reset_one_lock.
  Qed.

  Lemma no_new_with_tag s t : no_new s (with_tag s t). Proof. apply same_nodes. reflexivity. Qed.
  Lemma no_new_add_mark s n : no_new s (add_mark s n). Proof. apply same_nodes. reflexivity. Qed.
  Lemma no_new_add_sched s : no_new s (add_sched s). Proof. apply same_nodes. reflexivity. Qed.
  Lemma no_new_set_error s n : no_new s (set_error s n). Proof. apply same_nodes. reflexivity. Qed.

  (* ---------- the chain ---------- *)
  Definition rel (a b : nat) : Prop := a = b \/ In a (ancestors p b) \/ In b (ancestors p a).
  (* blocks of the method tree; blocks of injected snippets are not seen by get_locked_blocks (C14) *)
  Definition Chain (s : S) : Prop :=
    forall a b, is_block p a = true -> is_block p b = true -> in_method p a = true -> in_method p b = true ->
                lk s a = true -> lk s b = true -> rel a b.

  Lemma Chain_no_new s s' : no_new s s' -> Chain s -> Chain s'.
  Proof. intros N C a b Ba Bb Ma Mb La Lb. apply C; auto. Qed.

  Lemma is_block_lt b : is_block p b = true -> (b < length p)%nat.
  Proof.
    unfold is_block, nd. intros H. destruct (Nat.lt_ge_cases b (length p)) as [L|G]; [exact L|].
    rewrite nth_overflow in H by exact G. discriminate.
  Qed.
  Lemma in_locked s b : is_block p b = true -> in_method p b = true -> lk s b = true -> In b (locked_blocks p s).
  Proof.
    intros B M L. unfold locked_blocks. rewrite <- in_rev. apply filter_In. split.
    - apply in_seq. pose proof (is_block_lt b B). lia.
    - unfold lk in L. now rewrite B, M, L.
  Qed.

  Lemma memn_In x l : memn x l = true <-> In x l.
  Proof.
    unfold memn. rewrite existsb_exists. split.
    - intros [y [Hy E]]. apply Nat.eqb_eq in E. now subst.
    - intros H. exists x. split; [exact H|apply Nat.eqb_refl].
  Qed.

  Lemma Chain_lock s n en t : Chain s -> can_lock p s n = true ->
    Chain (with_tag (set_ns s n (set_block (st s n) true en)) t).
  Proof.
    intros C CL a b Ba Bb Ma Mb La Lb.
    assert (Old : forall m, lk (with_tag (set_ns s n (set_block (st s n) true en)) t) m = true -> m = n \/ lk s m = true).
    { intros m. unfold lk. change (Interp.st (with_tag ?x t) m) with (Interp.st x m). rewrite st_set_ns.
      destruct (Nat.eqb m n && Nat.ltb n (length (nodes s))) eqn:E; [|now right].
      apply andb_prop in E as [E _]. apply Nat.eqb_eq in E. now left. }
    assert (Anc : forall m, is_block p m = true -> in_method p m = true -> lk s m = true -> In m (ancestors p n)).
    { intros m Bm Mm Lm. unfold can_lock in CL. rewrite forallb_forall in CL. apply memn_In. apply CL. now apply in_locked. }
    destruct (Old a La) as [->|La'], (Old b Lb) as [->|Lb'].
    - now left.
    - right. right. now apply Anc.
    - right. left. now apply Anc.
    - now apply C.
  Qed.

  Ltac nn := repeat first [apply no_new_refl | apply no_new_mark_completed | apply no_new_complete | apply no_new_with_tag
                          | apply no_new_add_mark | apply no_new_add_sched | apply no_new_set_error | apply no_new_register
                          | apply no_new_unregister | apply no_new_end_block | apply no_new_end_blocks | apply no_new_reset_tree
                          | (eapply no_new_trans; [|apply no_new_mark_completed])
                          | (eapply no_new_trans; [|apply no_new_complete])
                          | (eapply no_new_trans; [|apply no_new_register])
                          | (apply no_new_set_ns; cbn; first [exact id | discriminate]) ].

  Lemma Chain_step e b f k s : Chain s -> outcome_ok Chain (step p e b f k s).
  Proof.
    intros C.
    assert (NN : forall s', no_new s s' -> Chain s') by (intros s' N; now apply (Chain_no_new s)).
    destruct f; cbn [step].
    - (* FVisit *) destruct (completed (st s n)); [exact C|]. destruct (negb (started (st s n))).
      + unfold thr_loop. destruct (awaiting p e s n); [destruct (ended_here p s n k); exact C|]. unfold enter. apply NN. nn.
      + unfold enter. apply NN. nn.
    - (* FThr *) unfold thr_loop. destruct (awaiting p e s n); [destruct (ended_here p s n k); exact C|]. unfold enter. apply NN. nn.
    - (* FNodeTick: dispatch *) unfold dispatch. destruct (n_kind (nd p n)) eqn:K.
      + destruct (completed (st s n)); exact C.
      + destruct trailing; apply NN; nn.
      + destruct (completed (st s n)); [exact C|]. apply NN. nn.
      + (* KBlock *) destruct (completed (st s n)); [apply NN; nn|]. destruct (block_ended (st s n)).
        * unfold block_release. apply NN. eapply no_new_trans; [|apply no_new_mark_completed]. apply no_new_set_ns. cbn. discriminate.
        * destruct (lock_acquired (st s n)); exact C.
      + (* KEndBlock *) apply NN. eapply no_new_trans; [|apply no_new_mark_completed]. eapply no_new_trans; [|apply no_new_complete].
        destruct (active_blocks p s) as [|old rest]; [apply no_new_refl|]. eapply no_new_trans; [apply no_new_with_tag|apply no_new_end_block].
      + (* KEndBlocks *) apply NN. eapply no_new_trans; [|apply no_new_mark_completed]. eapply no_new_trans; [|apply no_new_complete].
        eapply no_new_trans; [apply no_new_end_blocks|apply no_new_with_tag].
      + (* KWatch *) destruct (negb (interrupt_registered (st s n))); [apply NN; nn|]. destruct (negb b); [exact C|].
        destruct (cancelled (st s n)); [exact C|]. unfold watch_await. destruct (activated (st s n)); [exact C|].
        destruct (cancelled (st s n)); [exact C|]. unfold try_activate. destruct (cancelled (st s n)); [exact C|].
        destruct (forced (st s n)); [apply NN; nn|]. destruct (memn n (e_cond_err e)); [exact C|].
        destruct (memn n (e_cond_true e)); [apply NN; nn|exact C].
      + (* KAlarm *) destruct (negb (interrupt_registered (st s n))); [apply NN; nn|]. destruct (negb b); [exact C|].
        unfold alarm_await. destruct (activated (st s n)); [exact C|]. unfold try_activate. destruct (cancelled (st s n)); [exact C|].
        destruct (forced (st s n)); [apply NN; nn|]. destruct (memn n (e_cond_err e)); [exact C|].
        destruct (memn n (e_cond_true e)); [apply NN; nn|exact C].
      + (* KWait *) set (s1 := set_ns s n _). assert (N1 : no_new s s1) by (unfold s1; nn).
        destruct (dur - 1 <? 0); [now apply NN|]. destruct (_ && _); [now apply NN|]. apply NN.
        eapply no_new_trans; [exact N1|]. nn.
      + (* KNoop *) destruct count as [|[|c]]; apply NN; nn.
      + apply NN. nn.
      + apply NN. nn.
      + apply NN. nn.
      + (* KInjected *) exact C.
      + (* KMacro *) destruct (interrupt_registered (st s n)); [exact C|]. apply NN.
        set (s1 := with_macros s _). eapply no_new_trans; [apply (same_nodes s s1); reflexivity|]. apply no_new_set_ns. cbn. exact id.
      + (* KCallMacro *) destruct (macro_lookup (macros s) name) as [m|]; [|exact C].
        destruct (would_recurse p s name m); [exact C|]. destruct (n_kind (nd p m)); try exact C. destruct (Nat.leb _ _); [|exact C]. apply NN.
        eapply no_new_trans; [apply no_new_reset_tree|]. apply no_new_set_ns. cbn. exact id.
    - exact C.
    - destruct (_ || _); exact C.
    - (* FKids *) destruct (nth_error (n_children (nd p n)) i) as [c|]; [|apply NN; nn].
      destruct (_ || _); [apply NN; nn|]. destruct (Nat.ltb i _); [exact C|]. destruct (ended_here p s c k); [apply NN; nn|exact C].
    - apply NN. nn.
    - exact C.
    - exact C.
    - exact C.
    - apply NN. nn.
    - exact C.
    - apply NN. nn.
    - (* FBlkA *) destruct (lock_acquired (st s n)); [exact C|]. unfold block_try. destruct (can_lock p s n) eqn:CL; [|exact C].
      now apply Chain_lock.
    - (* FBlkWait *) destruct (lock_acquired (st s n)); [exact C|]. unfold block_try. destruct (can_lock p s n) eqn:CL; [|exact C].
      now apply Chain_lock.
    - exact C.
    - (* FBlkC *) unfold block_wait_end. destruct (block_ended (st s n)); [|exact C]. unfold block_release. apply NN.
      eapply no_new_trans; [|apply no_new_mark_completed]. apply no_new_set_ns. cbn. discriminate.
    - unfold block_wait_end. destruct (block_ended (st s n)); [|exact C]. unfold block_release. apply NN.
      eapply no_new_trans; [|apply no_new_mark_completed]. apply no_new_set_ns. cbn. discriminate.
    - (* FWait *) destruct (_ && _).
      + destruct (wait_start (st s n)); [exact C|]. destruct (n_kind (nd p n)); try exact C. destruct (0 <? dur - 1); exact C.
      + apply NN. nn.
    - (* FNoop *) destruct (n_kind (nd p n)); try exact C. destruct (Nat.ltb _ _); [exact C|apply NN; nn].
    - (* FWatchAwait *) unfold watch_await. destruct (activated (st s n)); [exact C|].
      destruct (cancelled (st s n)); [exact C|]. unfold try_activate. destruct (cancelled (st s n)); [exact C|].
      destruct (forced (st s n)); [apply NN; nn|]. destruct (memn n (e_cond_err e)); [exact C|].
      destruct (memn n (e_cond_true e)); [apply NN; nn|exact C].
    - exact C.
    - apply NN. nn.
    - (* FAlarmAwait *) destruct (n_kind (nd p n)); try exact C. unfold alarm_await. destruct (activated (st s n)); [exact C|]. unfold try_activate. destruct (cancelled (st s n)); [exact C|].
      destruct (forced (st s n)); [apply NN; nn|]. destruct (memn n (e_cond_err e)); [exact C|].
      destruct (memn n (e_cond_true e)); [apply NN; nn|exact C].
    - exact C.
    - exact C.
    - (* FAlarmPost *) destruct (n_kind (nd p n)); try exact C. apply NN. cbv zeta.
      eapply no_new_trans; [|apply no_new_register]. eapply no_new_trans; [|apply no_new_reset_tree].
      eapply no_new_trans; [|apply no_new_unregister]. eapply no_new_trans; [apply no_new_mark_completed|].
      apply no_new_set_ns. cbn. exact id.
    - (* FInjAfter *) apply NN. nn.
    - (* FMacro1 *) apply NN. nn.
    - (* FCallAfter *) apply NN. eapply no_new_trans; [|apply no_new_mark_completed]. eapply no_new_trans; [|apply no_new_complete].
      apply no_new_set_ns. cbn. exact id.
  Qed.

  Lemma Chain_init : Chain (init p).
  Proof.
    intros a b _ _ _ _ La _. unfold lk, Interp.st, init in La. cbn [nodes] in La.
    assert (H : forall n, nth a (repeat ns0 n) ns0 = ns0) by (induction n as [|n IH]; destruct a; cbn; auto; apply nth_repeat).
    rewrite H in La. discriminate.
  Qed.

  (* in every state the interpreter passes through, in any run, the locked blocks form one nested chain *)
  Theorem Chain_always ts : Forall Chain (states p [FVisit 0] (init p) 0 ts).
  Proof.
    apply run_P.
    - intros e b f k s H. now apply Chain_step.
    - intros s n H. apply (Chain_no_new s); [|exact H]. eapply no_new_trans; [|apply no_new_set_error].
      apply (no_new_upd s n (fun x => set_failed x true)). apply kl_failed.
    - intros s n sr k H. apply (Chain_no_new s); [apply same_nodes; reflexivity|exact H].
    - intros s n H. apply (Chain_no_new s); [apply no_new_mark_completed|exact H].
    - intros s H. apply (Chain_no_new s); [apply same_nodes; reflexivity|exact H].
    - apply Chain_init.
  Qed.
End Locks.
