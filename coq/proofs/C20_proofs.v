From Coq Require Import List Bool Arith.
From OP Require Import lib.Obs model.C19 model.C20.
Import ListNotations.

(* whatever the analyzer accepts has everything the engine needs: by cases on every fact combination *)
Theorem accepted_has_runtime_needs l : accepted (analyze l) = true -> runtime_needs l = true.
Proof.
  destruct l as [c|c|o|k].
  - destruct c as [a b [d e f g] h i j k l m n]; destruct a, b, d, e, f, g, h, i, j, k, l, m, n; cbn; intros H; try reflexivity; discriminate.
  - destruct c as [a b [d e f g] h i j k l m n]; destruct a, b, d, e, f, g, h, i, j, k, l, m, n; cbn; intros H; try reflexivity; discriminate.
  - destruct o as [a [d e f g]]; destruct a, d, e, f, g; cbn; intros H; try reflexivity; discriminate.
  - destruct k as [[d e f g] a b]; destruct a, b, d, e, f, g; cbn; intros H; try reflexivity; discriminate.
Qed.

Theorem model_holds l : holds_b l (run l) = true.
Proof.
  unfold holds_b, run. cbn [fst snd]. destruct (accepted (analyze l)) eqn:A; [|reflexivity].
  rewrite (accepted_has_runtime_needs l A). reflexivity.
Qed.
