From Coq Require Import ZArith List Bool Arith Lia.
From OP Require Import lib.Obs gen.RecoveryConst model.Recovery.
Import ListNotations.
Open Scope Z_scope.

Ltac proj := cbn [state lkg pending last_ok t_last_success t_reconnect rtick tag_connected now mem hwlog commanded
                  upd_state set_last_success with_last_ok with_pending with_lkg with_commanded hw_write] in *.

(* ---------- association maps ---------- *)
Lemma aget_aset m r v r' : aget (aset m r v) r' = if Nat.eqb r r' then Some v else aget m r'.
Proof.
  induction m as [|[r0 v0] m IH]; cbn.
  - destruct (Nat.eqb r r'); reflexivity.
  - destruct (Nat.eqb r0 r) eqn:E; cbn.
    + apply Nat.eqb_eq in E. subst. destruct (Nat.eqb r r'); reflexivity.
    + rewrite IH. destruct (Nat.eqb r0 r') eqn:E'; [|reflexivity].
      apply Nat.eqb_eq in E'. subst. rewrite Nat.eqb_sym, E. reflexivity.
Qed.

Definition wf (m : amap) : Prop := NoDup (map fst m).

Lemma aget_in m r v : aget m r = Some v -> In (r, v) m.
Proof.
  induction m as [|[r0 v0] m IH]; cbn; [discriminate|].
  destruct (Nat.eqb r0 r) eqn:E; [apply Nat.eqb_eq in E; intros H; inversion H; subst; now left|].
  intros H. right. auto.
Qed.

Lemma in_aget m r v : wf m -> In (r, v) m -> aget m r = Some v.
Proof.
  unfold wf. induction m as [|[r0 v0] m IH]; cbn; intros Hnd Hin; [contradiction|].
  inversion Hnd as [|x l Hnin Hnd']; subst. destruct Hin as [E|Hin].
  - inversion E; subst. now rewrite Nat.eqb_refl.
  - destruct (Nat.eqb r0 r) eqn:E; [|auto]. apply Nat.eqb_eq in E. subst.
    exfalso. apply Hnin. apply in_map_iff. exists (r, v). auto.
Qed.

Lemma aget_none_notin m r : aget m r = None -> ~ In r (map fst m).
Proof.
  induction m as [|[r0 v0] m IH]; cbn; [tauto|].
  destruct (Nat.eqb r0 r) eqn:E; [discriminate|]. apply Nat.eqb_neq in E. intros H [H1|H1]; [contradiction|].
  now apply IH.
Qed.

Lemma notin_aget_none m r : ~ In r (map fst m) -> aget m r = None.
Proof.
  induction m as [|[r0 v0] m IH]; cbn; [reflexivity|]. intros H.
  destruct (Nat.eqb r0 r) eqn:E; [apply Nat.eqb_eq in E; subst; exfalso; apply H; now left|].
  apply IH. tauto.
Qed.

Lemma keys_aset m r v x : In x (map fst (aset m r v)) <-> x = r \/ In x (map fst m).
Proof.
  induction m as [|[r0 v0] m IH]; cbn; [intuition|].
  destruct (Nat.eqb r0 r) eqn:E; cbn.
  - apply Nat.eqb_eq in E. subst. intuition.
  - rewrite IH. intuition.
Qed.

Lemma wf_aset m r v : wf m -> wf (aset m r v).
Proof.
  unfold wf. induction m as [|[r0 v0] m IH]; cbn; intros H.
  - constructor; [tauto|constructor].
  - inversion H as [|x l Hnin Hnd]; subst. destruct (Nat.eqb r0 r) eqn:E; cbn.
    + apply Nat.eqb_eq in E. subst. now constructor.
    + apply Nat.eqb_neq in E. constructor; [|auto].
      rewrite keys_aset. intros [H1|H1]; [congruence|contradiction].
Qed.

Lemma wf_filter f m : wf m -> wf (filter f m).
Proof.
  unfold wf. induction m as [|e m IH]; cbn; intros H; [constructor|].
  inversion H as [|x l Hnin Hnd]; subst. destruct (f e); cbn; [|auto].
  constructor; [|auto]. intros Hin. apply Hnin. apply in_map_iff in Hin as [e' [E He']].
  apply filter_In in He' as [He' _]. apply in_map_iff. eauto.
Qed.

Lemma wf_set_all ps : forall m, wf m -> wf (set_all m ps).
Proof.
  unfold set_all. induction ps as [|p ps IH]; intros m H; cbn; [exact H|]. apply IH, wf_aset, H.
Qed.

Lemma aget_adel m r r' : aget (adel m r) r' = if Nat.eqb r r' then None else aget m r'.
Proof.
  unfold adel. induction m as [|[r0 v0] m IH]; cbn.
  - destruct (Nat.eqb r r'); reflexivity.
  - destruct (Nat.eqb r0 r) eqn:E; cbn.
    + apply Nat.eqb_eq in E. subst. rewrite IH. destruct (Nat.eqb r r'); reflexivity.
    + rewrite IH. destruct (Nat.eqb r0 r') eqn:E'; [|reflexivity].
      apply Nat.eqb_eq in E'. subst. rewrite Nat.eqb_sym, E. reflexivity.
Qed.

Lemma aget_drop_keys m E r :
  aget (drop_keys m E) r = if existsb (Nat.eqb r) E then None else aget m r.
Proof.
  unfold drop_keys. induction m as [|[r0 v0] m IH]; cbn.
  - destruct (existsb (Nat.eqb r) E); reflexivity.
  - destruct (existsb (Nat.eqb r0) E) eqn:Ee; cbn.
    + rewrite IH. destruct (Nat.eqb r0 r) eqn:Er; [|reflexivity].
      apply Nat.eqb_eq in Er. subst. now rewrite Ee.
    + destruct (Nat.eqb r0 r) eqn:Er; [|exact IH].
      apply Nat.eqb_eq in Er. subst. now rewrite Ee.
Qed.

(* last value given for r in a list of (value, register) pairs *)
Fixpoint plast (ps : list (Z * reg)) (r : reg) : option Z :=
  match ps with
  | [] => None
  | p :: ps' => match plast ps' r with
                | Some v => Some v
                | None => if Nat.eqb (snd p) r then Some (fst p) else None
                end
  end.

Lemma aget_set_all ps : forall m r,
  aget (set_all m ps) r = match plast ps r with Some v => Some v | None => aget m r end.
Proof.
  unfold set_all. induction ps as [|p ps IH]; intros m r; cbn; [reflexivity|].
  rewrite IH, aget_aset. destruct (plast ps r); [reflexivity|].
  destruct (Nat.eqb (snd p) r); reflexivity.
Qed.

Lemma plast_in ps r v : plast ps r = Some v -> In (v, r) ps.
Proof.
  induction ps as [|[v0 r0] ps IH]; cbn; [discriminate|].
  destruct (plast ps r) eqn:E.
  - intros H. inversion H; subst. right. auto.
  - destruct (Nat.eqb r0 r) eqn:Er; [|discriminate]. apply Nat.eqb_eq in Er. subst.
    intros H. inversion H. now left.
Qed.

Lemma plast_none ps r : plast ps r = None -> ~ In r (map snd ps).
Proof.
  induction ps as [|[v0 r0] ps IH]; cbn; [tauto|].
  destruct (plast ps r) eqn:E; [discriminate|].
  destruct (Nat.eqb r0 r) eqn:Er; [discriminate|]. apply Nat.eqb_neq in Er.
  intros _ [H|H]; [contradiction|]. now apply IH.
Qed.

Lemma in_plast ps r v : NoDup (map snd ps) -> In (v, r) ps -> plast ps r = Some v.
Proof.
  induction ps as [|[v0 r0] ps IH]; cbn; intros Hnd Hin; [contradiction|].
  inversion Hnd as [|x l Hnin Hnd']; subst. destruct Hin as [E|Hin].
  - inversion E; subst. rewrite Nat.eqb_refl.
    destruct (plast ps r) eqn:Ep; [|reflexivity].
    exfalso. apply Hnin. apply plast_in in Ep. apply in_map_iff. exists (z, r). auto.
  - now rewrite IH.
Qed.

Lemma nodup_filter_snd (f : Z * reg -> bool) ps : NoDup (map snd ps) -> NoDup (map snd (filter f ps)).
Proof.
  induction ps as [|p ps IH]; cbn; intros H; [constructor|].
  inversion H as [|x l Hnin Hnd]; subst. destruct (f p); cbn; [|auto].
  constructor; [|auto]. intros Hin. apply Hnin. apply in_map_iff in Hin as [e' [E He']].
  apply filter_In in He' as [He' _]. apply in_map_iff. eauto.
Qed.

(* ---------- the C24 invariant ---------- *)
Record Inv (s : st) : Prop := {
  invJ : forall r v, aget (commanded s) r = Some v ->
           aget (pending s) r = Some v \/ (aget (pending s) r = None /\ aget (mem s) r = Some v);
  invK : forall r v, aget (last_ok s) r = Some v ->
           aget (commanded s) r = Some v /\ aget (pending s) r = None;
  invW : wf (pending s)
}.

(* steps that leave pending/mem/commanded alone and keep or clear last_ok *)
Definition quiet (s s' : st) : Prop :=
  pending s' = pending s /\ mem s' = mem s /\ commanded s' = commanded s /\
  (last_ok s' = last_ok s \/ last_ok s' = []).

Lemma quiet_inv s s' : quiet s s' -> Inv s -> Inv s'.
Proof.
  intros [Hp [Hm [Hc Hl]]] [J K W]. constructor.
  - rewrite Hp, Hm, Hc. exact J.
  - rewrite Hp, Hc. destruct Hl as [-> | ->]; [exact K|cbn; discriminate].
  - now rewrite Hp.
Qed.

Lemma quiet_refl s : quiet s s.
Proof. unfold quiet. auto. Qed.
Lemma quiet_trans a b c : quiet a b -> quiet b c -> quiet a c.
Proof.
  intros [H1 [H2 [H3 H4]]] [G1 [G2 [G3 G4]]]. unfold quiet.
  rewrite G1, G2, G3, H1, H2, H3. repeat split.
  destruct G4 as [-> | ->]; [exact H4|now right].
Qed.

Lemma quiet_upd_state s x : quiet s (upd_state s x).
Proof. unfold quiet. proj. auto. Qed.
Lemma quiet_success_common s : quiet s (success_common s).
Proof. unfold success_common. destruct (state (set_last_success s)); unfold quiet; proj; auto. Qed.
Lemma success_common_state s :
  state s = SOK \/ state s = SIssue -> state (success_common s) = SOK.
Proof.
  unfold success_common. change (state (set_last_success s)) with (state s).
  intros [E|E]; rewrite E; [cbn; exact E|reflexivity].
Qed.
Lemma success_common_last_ok s : last_ok (success_common s) = last_ok s.
Proof.
  unfold success_common. change (state (set_last_success s)) with (state s).
  destruct (state s); reflexivity.
Qed.
Lemma quiet_error s : quiet s (error_read_write s).
Proof.
  unfold error_read_write. destruct (state (with_last_ok s [])) eqn:E; proj;
    try (unfold quiet; proj; auto; fail).
  - destruct (_ <? _); unfold quiet; proj; auto.
  - destruct (_ <? _); unfold quiet; proj; auto.
Qed.
Lemma error_not_error s :
  state s = SOK \/ state s = SIssue -> state (error_read_write s) <> SError.
Proof.
  unfold error_read_write. change (state (with_last_ok s [])) with (state s).
  intros [E|E]; rewrite E; [cbn; discriminate|].
  destruct (_ <? _); [cbn; discriminate|cbn; rewrite E; discriminate].
Qed.
Lemma quiet_with_lkg s m : quiet s (with_lkg s m).
Proof. unfold quiet. proj. auto. Qed.

Lemma error_clears s : last_ok (error_read_write s) = [].
Proof.
  unfold error_read_write. destruct (state (with_last_ok s [])); proj; try reflexivity;
    destruct (_ <? _); reflexivity.
Qed.

(* ---------- flush ---------- *)
Lemma flush_items_inv items : forall s oks,
  Inv s -> (forall r v, In (r, v) items -> aget (pending s) r = Some v) -> NoDup (map fst items) ->
  Inv (flush_items s items oks).
Proof.
  induction items as [|[r v] items IH]; intros s oks HI Hitems Hnd; cbn [flush_items]; [exact HI|].
  inversion Hnd as [|x l Hnin Hnd']; subst.
  assert (Hrest : forall r0 v0, In (r0, v0) items -> aget (pending s) r0 = Some v0)
    by (intros; apply Hitems; now right).
  destruct oks as [|[|] oks]; [apply IH; auto| |apply IH; auto].
  apply IH; [| |exact Hnd'].
  - destruct HI as [J K W]. assert (Hp : aget (pending s) r = Some v) by (apply Hitems; now left).
    constructor; proj.
    + intros r0 v0 Hc. rewrite aget_adel, aget_aset.
      destruct (Nat.eqb r r0) eqn:E.
      * apply Nat.eqb_eq in E. subst r0. right. split; [reflexivity|].
        destruct (J r v0 Hc) as [H|[H _]]; congruence.
      * exact (J r0 v0 Hc).
    + intros r0 v0 Hl. destruct (K r0 v0 Hl) as [H1 H2]. split; [exact H1|].
      rewrite aget_adel. destruct (Nat.eqb r r0); [reflexivity|exact H2].
    + apply wf_filter, W.
  - intros r0 v0 Hin. proj. rewrite aget_adel. destruct (Nat.eqb r r0) eqn:E; [|now apply Hrest].
    apply Nat.eqb_eq in E. subst. exfalso. apply Hnin. apply in_map_iff. exists (r0, v0). auto.
Qed.

Lemma flush_items_pending_none items : forall s oks r,
  aget (pending s) r = None -> aget (pending (flush_items s items oks)) r = None.
Proof.
  induction items as [|[r0 v0] items IH]; intros s oks r H; cbn [flush_items]; [exact H|].
  destruct oks as [|[|] oks]; try (apply IH; exact H).
  apply IH. proj. rewrite aget_adel. destruct (Nat.eqb r0 r); [reflexivity|exact H].
Qed.

Lemma flush_items_commanded items : forall s oks, commanded (flush_items s items oks) = commanded s.
Proof.
  induction items as [|[r0 v0] items IH]; intros s oks; cbn [flush_items]; [reflexivity|].
  destruct oks as [|[|] oks]; rewrite IH; reflexivity.
Qed.

(* ---------- writes ---------- *)
Definition op_wf (o : op) : Prop :=
  match o with WriteBatch ps _ _ => NoDup (map snd ps) | _ => True end.

Lemma mem_fold_hw_write ps : forall s,
  let s' := fold_left (fun s p => hw_write s (snd p) (fst p)) ps s in
  mem s' = set_all (mem s) ps /\ pending s' = pending s /\ commanded s' = commanded s
  /\ last_ok s' = last_ok s /\ state s' = state s.
Proof.
  unfold set_all. induction ps as [|p ps IH]; intros s; cbn; [auto|].
  destruct (IH (hw_write s (snd p) (fst p))) as [H1 [H2 [H3 [H4 H5]]]]. proj. auto.
Qed.

Lemma filtered_out s orig v r :
  In (v, r) orig -> ~ In r (map snd (filter_writes s orig)) -> aget (last_ok s) r = Some v.
Proof.
  unfold filter_writes. destruct only_write_modified_values.
  - intros Hin Hnot. destruct (aget (last_ok s) r) as [old|] eqn:E.
    + destruct (v =? old) eqn:Ev; [apply Z.eqb_eq in Ev; now subst|].
      exfalso. apply Hnot. apply in_map_iff. exists (v, r). split; [reflexivity|].
      apply filter_In. split; [exact Hin|]. cbn. now rewrite E, Ev.
    + exfalso. apply Hnot. apply in_map_iff. exists (v, r). split; [reflexivity|].
      apply filter_In. split; [exact Hin|]. cbn. now rewrite E.
  - intros Hin Hnot. exfalso. apply Hnot. apply in_map_iff. exists (v, r). auto.
Qed.

Lemma filter_writes_sub s orig p : In p (filter_writes s orig) -> In p orig.
Proof. unfold filter_writes. destruct only_write_modified_values; [|auto]. intros H. now apply filter_In in H. Qed.

Lemma filter_writes_nodup s orig : NoDup (map snd orig) -> NoDup (map snd (filter_writes s orig)).
Proof. unfold filter_writes. destruct only_write_modified_values; [apply nodup_filter_snd|auto]. Qed.

(* how a register's commanded value relates to the filtered batch *)
Lemma batch_cases s orig r (ps := filter_writes s orig) :
  NoDup (map snd orig) ->
  (exists v, plast ps r = Some v /\ plast orig r = Some v)
  \/ (exists v, plast ps r = None /\ plast orig r = Some v /\ aget (last_ok s) r = Some v)
  \/ (plast ps r = None /\ plast orig r = None).
Proof.
  intros Hnd. destruct (plast ps r) as [v|] eqn:Ep.
  - left. exists v. split; [reflexivity|]. apply in_plast; [exact Hnd|].
    apply (filter_writes_sub s). now apply plast_in.
  - right. destruct (plast orig r) as [v|] eqn:Eo; [left|right; auto].
    exists v. repeat split. apply plast_in in Eo. apply plast_none in Ep.
    now apply (filtered_out s orig).
Qed.

Lemma existsb_keys r (ps : list (Z * reg)) : existsb (Nat.eqb r) (map snd ps) = true <-> In r (map snd ps).
Proof.
  rewrite existsb_exists. split.
  - intros [x [Hx E]]. apply Nat.eqb_eq in E. now subst.
  - intros H. exists r. split; [exact H|apply Nat.eqb_refl].
Qed.

Lemma plast_some_in (ps : list (Z * reg)) r v : plast ps r = Some v -> In r (map snd ps).
Proof. intros H. apply plast_in in H. apply in_map_iff. exists (v, r). auto. Qed.


(* s1 = s with the commanded ghost updated by the batch `orig` *)
Definition cmd_upd (s : st) (orig : list (Z * reg)) : st := with_commanded s (set_all (commanded s) orig).

Lemma write_buffer_inv s orig :
  Inv s -> Inv (write_buffer (cmd_upd s orig) orig).
Proof.
  intros [J K W]. unfold write_buffer.
  pose proof (quiet_error (cmd_upd s orig)) as [Hp [Hm [Hc _]]].
  pose proof (error_clears (cmd_upd s orig)) as Hl.
  set (s2 := error_read_write (cmd_upd s orig)) in *. unfold cmd_upd in *. proj.
  constructor; proj.
  - intros r v. rewrite Hc, Hp, Hm, !aget_set_all. destruct (plast orig r).
    + intros H. now left.
    + intros H. destruct (J r v H) as [H1|H1]; auto.
  - rewrite Hl. cbn. discriminate.
  - rewrite Hp. now apply wf_set_all.
Qed.

Lemma write_through_inv s orig hw_ok oks single :
  NoDup (map snd orig) -> Inv s ->
  (state s = SOK \/ state s = SIssue) ->
  Inv (write_through (cmd_upd s orig) orig hw_ok oks single).
Proof.
  intros Hnd [J K W] Hst. unfold write_through.
  set (s1 := cmd_upd s orig).
  assert (Hlo : last_ok s1 = last_ok s) by reflexivity.
  set (ps := filter_writes s1 orig).
  assert (Hcases := batch_cases s1 orig).
  fold ps in Hcases. rewrite Hlo in Hcases.
  (* facts about s1 that every branch uses *)
  assert (Js1 : forall r v, aget (commanded s1) r = Some v -> plast ps r = None ->
                (aget (pending s) r = Some v \/ (aget (pending s) r = None /\ aget (mem s) r = Some v))).
  { intros r v Hc Hp. unfold s1, cmd_upd in Hc. proj. rewrite aget_set_all in Hc.
    destruct (Hcases r Hnd) as [[v' [E1 E2]]|[[v' [E1 [E2 E3]]]|[E1 E2]]]; [congruence| |].
    - rewrite E2 in Hc. inversion Hc; subst v'. destruct (K r v E3) as [Kc Kp].
      destruct (J r v Kc) as [H|H]; [congruence|now right].
    - rewrite E2 in Hc. exact (J r v Hc). }
  destruct (single && match ps with [] => true | _ => false end) eqn:Esingle.
  { (* not modified: only the ghost changed *)
    assert (Hps : ps = []) by (destruct ps; [reflexivity|rewrite andb_false_r in Esingle; discriminate]).
    constructor; unfold s1, cmd_upd; proj.
    - intros r v Hc. apply (Js1 r v Hc). now rewrite Hps.
    - intros r v Hl. destruct (K r v Hl) as [Kc Kp]. split; [|exact Kp].
      rewrite aget_set_all. destruct (Hcases r Hnd) as [[v' [E1 E2]]|[[v' [E1 [E2 E3]]]|[E1 E2]]].
      + rewrite Hps in E1. discriminate.
      + rewrite E2. congruence.
      + now rewrite E2.
    - exact W. }
  destruct hw_ok.
  - (* hardware accepted the filtered batch *)
    destruct (mem_fold_hw_write ps s1) as [Hm [Hp [Hc [Hl Hs]]]].
    set (s2 := fold_left (fun s p => hw_write s (snd p) (fst p)) ps s1) in *.
    set (s3 := with_last_ok s2 (set_all (last_ok s2) ps)).
    pose proof (quiet_success_common s3) as [Hp4 [Hm4 [Hc4 Hl4]]].
    assert (Hst4 : state (success_common s3) = SOK).
    { apply success_common_state. change (state s3) with (state s2). rewrite Hs. exact Hst. }
    assert (Hl4' : last_ok (success_common s3) = set_all (last_ok s) ps).
    { rewrite success_common_last_ok. unfold s3. proj. now rewrite Hl. }
    set (s4 := success_common s3) in *.
    unfold s3 in Hp4, Hm4, Hc4. proj. rewrite Hp in Hp4. rewrite Hm in Hm4. rewrite Hc in Hc4.
    unfold s1, cmd_upd in Hp4, Hm4, Hc4. proj.
    unfold flush. rewrite Hst4.
    set (p := drop_keys (pending s4) (map snd ps)).
    apply flush_items_inv.
    + constructor; proj.
      * intros r v Hcm. unfold p. rewrite aget_drop_keys, Hp4, Hm4, aget_set_all.
        rewrite Hc4 in Hcm.
        destruct (plast ps r) as [w|] eqn:Ep.
        -- right. assert (Hin : existsb (Nat.eqb r) (map snd ps) = true)
             by (apply existsb_keys; now apply (plast_some_in ps r w)).
           rewrite Hin. split; [reflexivity|].
           destruct (Hcases r Hnd) as [[v' [E1 E2]]|[[v' [E1 [E2 E3]]]|[E1 E2]]]; try congruence.
           rewrite aget_set_all, E2 in Hcm. congruence.
        -- assert (Hnin : existsb (Nat.eqb r) (map snd ps) = false).
           { destruct (existsb (Nat.eqb r) (map snd ps)) eqn:E; [|reflexivity].
             apply existsb_keys in E. now apply plast_none in Ep. }
           rewrite Hnin. apply Js1; [|exact Ep]. unfold s1, cmd_upd. proj. exact Hcm.
      * intros r v Hl0. rewrite Hl4', aget_set_all in Hl0. rewrite Hc4, aget_set_all.
        unfold p. rewrite aget_drop_keys, Hp4.
        destruct (Hcases r Hnd) as [[v' [E1 E2]]|[[v' [E1 [E2 E3]]]|[E1 E2]]].
        -- rewrite E1 in Hl0. rewrite E2. split; [congruence|].
           assert (Hin : existsb (Nat.eqb r) (map snd ps) = true)
             by (apply existsb_keys; now apply (plast_some_in ps r v')).
           now rewrite Hin.
        -- rewrite E1 in Hl0. rewrite E2. destruct (K r v Hl0) as [Kc Kp].
           split; [congruence|]. rewrite Kp. destruct (existsb _ _); reflexivity.
        -- rewrite E1 in Hl0. rewrite E2. destruct (K r v Hl0) as [Kc Kp].
           split; [exact Kc|]. rewrite Kp. destruct (existsb _ _); reflexivity.
      * unfold p, drop_keys. apply wf_filter. now rewrite Hp4.
    + intros r v Hin. proj. apply in_aget; [|exact Hin].
      unfold p, drop_keys. apply wf_filter. now rewrite Hp4.
    + unfold p, drop_keys. apply (wf_filter _ (pending s4)). now rewrite Hp4.
  - (* hardware raised *)
    pose proof (quiet_error s1) as [Hp2 [Hm2 [Hc2 _]]].
    pose proof (error_clears s1) as Hl2.
    assert (Hst2 : state (error_read_write s1) <> SError).
    { apply error_not_error. exact Hst. }
    set (s2 := error_read_write s1) in *.
    unfold s1, cmd_upd in Hp2, Hm2, Hc2. proj.
    assert (Inv (with_pending s2 (set_all (pending s2) ps))).
    { constructor; proj.
      - intros r v Hcm. rewrite Hp2, Hm2, aget_set_all. rewrite Hc2 in Hcm.
        destruct (plast ps r) as [w|] eqn:Ep.
        + left. destruct (Hcases r Hnd) as [[v' [E1 E2]]|[[v' [E1 [E2 E3]]]|[E1 E2]]]; try congruence.
          rewrite aget_set_all, E2 in Hcm. congruence.
        + apply Js1; [|exact Ep]. unfold s1, cmd_upd. proj. exact Hcm.
      - rewrite Hl2. cbn. discriminate.
      - rewrite Hp2. now apply wf_set_all. }
    destruct (state s2); try assumption. contradiction.
Qed.

Lemma unusable_false_states s :
  unusable s = false -> state s = SOK \/ state s = SIssue \/ state s = SReconnect.
Proof. unfold unusable, in_states. destruct (state s); cbn; intros H; try discriminate; auto. Qed.

Lemma do_write_inv s orig hw_ok oks single :
  NoDup (map snd orig) -> Inv s -> Inv (fst (do_write s orig hw_ok oks single)).
Proof.
  intros Hnd HI. unfold do_write. destruct (unusable s) eqn:Hu; [exact HI|].
  fold (cmd_upd s orig). change (state (cmd_upd s orig)) with (state s).
  destruct (unusable_false_states s Hu) as [E|[E|E]]; rewrite E; cbn [fst].
  - apply write_through_inv; auto.
  - apply write_through_inv; auto.
  - now apply write_buffer_inv.
Qed.

Lemma do_read_quiet s rs hw : quiet s (fst (do_read s rs hw)).
Proof.
  unfold do_read. destruct (unusable s); [apply quiet_refl|].
  destruct (state s); cbn [fst]; try apply quiet_error;
    destruct hw; cbn [fst]; try apply quiet_error;
    (eapply quiet_trans; [apply quiet_with_lkg|apply quiet_success_common]).
Qed.

Lemma step_inv s o : op_wf o -> Inv s -> Inv (fst (step s o)).
Proof.
  intros Hwf HI. destruct o as [r hw|rs hw|v r ok oks|ps ok oks|ok|ok|dt]; cbn [step].
  - eapply quiet_inv; [apply do_read_quiet|exact HI].
  - eapply quiet_inv; [apply do_read_quiet|exact HI].
  - apply do_write_inv; [|exact HI]. cbn. constructor; [tauto|constructor].
  - apply do_write_inv; [exact Hwf|exact HI].
  - destruct (in_states (state s) reconnecting_states); [|exact HI].
    destruct (is_backoff_tick (rtick s + 1)); [|cbn [fst]; eapply quiet_inv; [|exact HI]; unfold quiet; proj; auto].
    destruct ok; cbn [fst]; (eapply quiet_inv; [|exact HI]); unfold quiet; proj; auto.
  - destruct ok; [|exact HI]. destruct (state s); cbn [fst]; try exact HI.
    eapply quiet_inv; [apply quiet_upd_state|exact HI].
  - cbn [fst]. eapply quiet_inv; [|exact HI]. unfold quiet; proj; auto.
Qed.

Lemma init_inv c : Inv (init c).
Proof. constructor; cbn; try discriminate. constructor. Qed.

Lemma reachable_inv os : forall s, Forall op_wf os -> Inv s -> Inv (final s os).
Proof.
  induction os as [|o os IH]; intros s Hwf HI; [exact HI|].
  inversion Hwf; subst. cbn. apply IH; [assumption|]. now apply step_inv.
Qed.

(* after a write cycle the hardware accepted, every register of the batch holds its new value *)
Lemma flush_pending_none s E oks r :
  aget (pending s) r = None -> aget (pending (flush s E oks)) r = None.
Proof.
  intros H. unfold flush. destruct (state s); try exact H.
  apply flush_items_pending_none. proj. rewrite aget_drop_keys, H. destruct (existsb _ _); reflexivity.
Qed.

Lemma cycle_converges s ps oks :
  NoDup (map snd ps) -> Inv s -> (state s = SOK \/ state s = SIssue) ->
  let s' := fst (step s (WriteBatch ps true oks)) in
  forall v r, In (v, r) ps -> aget (mem s') r = Some v /\ aget (pending s') r = None.
Proof.
  intros Hnd HI Hst s' v r Hin.
  assert (HI' : Inv s') by (apply step_inv; [exact Hnd|exact HI]).
  assert (Hc : aget (commanded s') r = Some v /\ aget (pending s') r = None).
  { unfold s'. cbn [step]. unfold do_write.
    assert (Hu : unusable s = false) by (unfold unusable, in_states; destruct Hst as [-> | ->]; reflexivity).
    rewrite Hu. fold (cmd_upd s ps). change (state (cmd_upd s ps)) with (state s).
    assert (Hbranch : fst (match state s with
                      | SReconnect => (write_buffer (cmd_upd s ps) ps, RDone)
                      | _ => (write_through (cmd_upd s ps) ps true oks false, RDone) end)
                      = write_through (cmd_upd s ps) ps true oks false)
      by (destruct Hst as [-> | ->]; reflexivity).
    rewrite Hbranch. unfold write_through. cbn [andb].
    set (s1 := cmd_upd s ps). set (fs := filter_writes s1 ps).
    destruct (mem_fold_hw_write fs s1) as [Hm [Hp [Hcm [Hl Hs]]]].
    set (s2 := fold_left (fun s p => hw_write s (snd p) (fst p)) fs s1) in *.
    set (s3 := with_last_ok s2 (set_all (last_ok s2) fs)).
    pose proof (quiet_success_common s3) as [Hp4 [Hm4 [Hc4 _]]].
    split.
    - unfold flush. destruct (state (success_common s3)).
      1,3,4,5: rewrite Hc4; unfold s3; proj; rewrite Hcm; unfold s1, cmd_upd; proj;
               rewrite aget_set_all; now rewrite (in_plast ps r v Hnd Hin).
      rewrite flush_items_commanded. proj. rewrite Hc4. unfold s3. proj. rewrite Hcm.
      unfold s1, cmd_upd. proj. rewrite aget_set_all. now rewrite (in_plast ps r v Hnd Hin).
    - (* r is either in the filtered batch (dropped from pending) or unchanged (K: not pending) *)
      destruct HI as [J K W].
      destruct (in_dec Nat.eq_dec r (map snd fs)) as [Hr|Hr].
      + assert (E4 : state (success_common s3) = SOK).
        { apply success_common_state. change (state s3) with (state s2). rewrite Hs. exact Hst. }
        unfold flush. rewrite E4. apply flush_items_pending_none. proj. rewrite aget_drop_keys.
        apply existsb_keys in Hr. now rewrite Hr.
      + apply flush_pending_none. rewrite Hp4. unfold s3. proj. rewrite Hp. unfold s1, cmd_upd. proj.
        assert (Hlo : aget (last_ok s) r = Some v).
        { apply (filtered_out s1 ps v r Hin). exact Hr. }
        now destruct (K r v Hlo). }
  destruct Hc as [Hc Hp]. split; [|exact Hp].
  destruct (invJ s' HI' r v Hc) as [H|[_ H]]; [congruence|exact H].
Qed.

(* ================= C23: protocol ================= *)
Definition tag_ok (s : st) : Prop :=
  tag_connected s = negb (in_states (state s) status_disconnected_states).

Lemma tag_upd_state s x : tag_ok (upd_state s x).
Proof. reflexivity. Qed.

Lemma tag_success_common s : tag_ok s -> tag_ok (success_common s).
Proof.
  unfold success_common. change (state (set_last_success s)) with (state s).
  intros H. destruct (state s) eqn:E; try exact H. apply tag_upd_state.
Qed.

Lemma tag_error s : tag_ok s -> tag_ok (error_read_write s).
Proof.
  unfold error_read_write. change (state (with_last_ok s [])) with (state s).
  intros H. destruct (state s) eqn:E; try exact H; try apply tag_upd_state.
  - destruct (_ <? _); [reflexivity|exact H].
  - destruct (_ <? _); [apply tag_upd_state|exact H].
Qed.

Lemma flush_items_ctl items : forall s oks,
  state (flush_items s items oks) = state s /\ tag_connected (flush_items s items oks) = tag_connected s
  /\ lkg (flush_items s items oks) = lkg s.
Proof.
  induction items as [|[r v] items IH]; intros s oks; cbn [flush_items]; [auto|].
  destruct oks as [|[|] oks]; try apply IH.
  destruct (IH (with_pending (hw_write s r v) (adel (pending s) r)) oks) as [H1 [H2 H3]]. proj. auto.
Qed.

Lemma flush_ctl s E oks :
  state (flush s E oks) = state s /\ tag_connected (flush s E oks) = tag_connected s
  /\ lkg (flush s E oks) = lkg s.
Proof.
  unfold flush. destruct (state s) eqn:Es; auto.
  destruct (flush_items_ctl (drop_keys (pending s) E) (with_pending s (drop_keys (pending s) E)) oks)
    as [H1 [H2 H3]]. proj. rewrite H1, H2, H3. auto.
Qed.

Lemma fold_hw_ctl ps : forall s,
  let s' := fold_left (fun s p => hw_write s (snd p) (fst p)) ps s in
  state s' = state s /\ tag_connected s' = tag_connected s /\ lkg s' = lkg s
  /\ t_last_success s' = t_last_success s /\ t_reconnect s' = t_reconnect s /\ now s' = now s.
Proof.
  induction ps as [|p ps IH]; intros s; cbn; [repeat split|].
  destruct (IH (hw_write s (snd p) (fst p))) as [H1 [H2 [H3 [H4 [H5 H6]]]]]. proj. repeat split; assumption.
Qed.

Definition tag_same (s s' : st) : Prop := state s' = state s /\ tag_connected s' = tag_connected s.
Lemma tag_same_ok s s' : tag_same s s' -> tag_ok s -> tag_ok s'.
Proof. unfold tag_ok. intros [-> ->]. auto. Qed.

Lemma write_through_tag s orig hw_ok oks single : tag_ok s -> tag_ok (write_through s orig hw_ok oks single).
Proof.
  intros H. unfold write_through.
  destruct (single && _); [exact H|]. destruct hw_ok.
  - set (ps := filter_writes s orig).
    destruct (fold_hw_ctl ps s) as [H1 [H2 _]].
    set (s2 := fold_left _ ps s) in *.
    eapply tag_same_ok; [|apply tag_success_common].
    + destruct (flush_ctl (success_common (with_last_ok s2 (set_all (last_ok s2) ps))) (map snd ps) oks)
        as [G1 [G2 _]]. split; [exact G1|exact G2].
    + unfold tag_ok. proj. rewrite H1, H2. exact H.
  - pose proof (tag_error s H) as He. destruct (state (error_read_write s)) eqn:E; try exact He;
      unfold tag_ok in *; proj; rewrite E in *; exact He.
Qed.

Lemma step_tag s o : tag_ok s -> tag_ok (fst (step s o)).
Proof.
  intros H. destruct o as [r hw|rs hw|v r ok oks|ps ok oks|ok|ok|dt]; cbn [step].
  1,2: unfold do_read; destruct (unusable s); [exact H|];
       destruct (state s) eqn:Es; cbn [fst];
       try (apply tag_error; exact H);
       destruct hw; cbn [fst]; try (apply tag_error; exact H);
       apply tag_success_common; exact H.
  1,2: unfold do_write; destruct (unusable s); [exact H|];
       match goal with |- context [with_commanded ?s0 ?m] => set (s1 := with_commanded s0 m) end;
       assert (H1 : tag_ok s1) by exact H;
       change (state s1) with (state s); destruct (state s); cbn [fst];
       try (apply write_through_tag; exact H1);
       unfold write_buffer; pose proof (tag_error s1 H1) as He; exact He.
  - destruct (in_states (state s) reconnecting_states); [|exact H].
    destruct (is_backoff_tick (rtick s + 1)); [|exact H].
    destruct ok; cbn [fst]; reflexivity.
  - destruct ok; [|exact H]. destruct (state s) eqn:E; cbn [fst]; try exact H. apply tag_upd_state.
  - exact H.
Qed.

Lemma init_tag c : tag_ok (init c).
Proof. destruct c; reflexivity. Qed.

Lemma reachable_tag os : forall s, tag_ok s -> tag_ok (final s os).
Proof. induction os as [|o os IH]; intros s H; [exact H|]. cbn. apply IH, step_tag, H. Qed.

(* ---- documented edges ---- *)
Definition is_rw (o : op) : bool :=
  match o with Read _ _ | ReadBatch _ _ | Write _ _ _ _ | WriteBatch _ _ _ => true | _ => false end.

Definition edge (s : st) (o : op) (x' : rstate) : Prop :=
  x' = state s
  \/ (state s = SDisconnected /\ x' = SOK /\ o = Connect true)
  \/ (state s = SOK /\ x' = SIssue /\ is_rw o = true)
  \/ (state s = SIssue /\ x' = SOK /\ is_rw o = true)
  \/ (state s = SIssue /\ x' = SReconnect /\ is_rw o = true
      /\ t_last_success s + reconnect_timeout_seconds < now s)
  \/ (state s = SReconnect /\ x' = SError /\ is_rw o = true
      /\ t_reconnect s + error_timeout_seconds < now s)
  \/ ((state s = SReconnect \/ state s = SError) /\ x' = SOK /\ o = Tick true
      /\ is_backoff_tick (rtick s + 1) = true).

Definition err_edge (s : st) (x' : rstate) : Prop :=
  x' = state s
  \/ (state s = SOK /\ x' = SIssue)
  \/ (state s = SIssue /\ x' = SReconnect /\ t_last_success s + reconnect_timeout_seconds < now s)
  \/ (state s = SReconnect /\ x' = SError /\ t_reconnect s + error_timeout_seconds < now s).

Lemma error_edge s : err_edge s (state (error_read_write s)).
Proof.
  unfold err_edge, error_read_write. change (state (with_last_ok s [])) with (state s).
  change (t_last_success (with_last_ok s [])) with (t_last_success s).
  change (t_reconnect (with_last_ok s [])) with (t_reconnect s).
  change (now (with_last_ok s [])) with (now s).
  destruct (state s) eqn:E.
  - left. exact E.
  - right. left. split; reflexivity.
  - destruct (_ <? _) eqn:Ec.
    + apply Z.ltb_lt in Ec. right. right. left. repeat split; exact Ec.
    + left. exact E.
  - destruct (_ <? _) eqn:Ec.
    + apply Z.ltb_lt in Ec. right. right. right. repeat split; exact Ec.
    + left. exact E.
  - left. exact E.
Qed.

Lemma success_edge s :
  state (success_common s) = state s \/ (state s = SIssue /\ state (success_common s) = SOK).
Proof.
  unfold success_common. change (state (set_last_success s)) with (state s).
  destruct (state s) eqn:E; auto.
Qed.

Lemma err_to_edge s o x' : is_rw o = true -> err_edge s x' -> edge s o x'.
Proof.
  intros Hrw [H|[[H1 H2]|[[H1 [H2 H3]]|[H1 [H2 H3]]]]]; unfold edge; auto 10.
Qed.

Lemma write_through_edge s o orig hw_ok oks single :
  is_rw o = true -> edge s o (state (write_through s orig hw_ok oks single)).
Proof.
  intros Hrw. unfold write_through. destruct (single && _); [left; reflexivity|]. destruct hw_ok.
  - set (ps := filter_writes s orig).
    destruct (fold_hw_ctl ps s) as [H1 _]. set (s2 := fold_left _ ps s) in *.
    set (s3 := with_last_ok s2 (set_all (last_ok s2) ps)).
    destruct (flush_ctl (success_common s3) (map snd ps) oks) as [G1 _]. rewrite G1.
    assert (E3 : state s3 = state s) by exact H1.
    destruct (success_edge s3) as [E|[Ea Eb]]; [left; congruence|].
    right. right. right. left. rewrite Eb. split; [congruence|auto].
  - pose proof (error_edge s) as He. apply (err_to_edge s o _ Hrw).
    destruct (state (error_read_write s)) eqn:E; proj; rewrite ?E; exact He.
Qed.

Lemma step_edge s o : edge s o (state (fst (step s o))).
Proof.
  destruct o as [r hw|rs hw|v r ok oks|ps ok oks|ok|ok|dt]; cbn [step].
  1,2: unfold do_read; destruct (unusable s); [left; reflexivity|];
       destruct (state s) eqn:Es; cbn [fst];
       try (apply err_to_edge; [reflexivity|apply error_edge]);
       destruct hw; cbn [fst];
       try (apply err_to_edge; [reflexivity|apply error_edge]);
       match goal with |- context [success_common ?t] =>
         destruct (success_edge t) as [E|[Ea Eb]];
         [left; rewrite E; reflexivity| right; right; right; left; rewrite Eb; repeat split; exact Ea] end.
  - unfold do_write; destruct (unusable s); [left; reflexivity|].
    set (s1 := with_commanded s (set_all (commanded s) [(v, r)])).
    change (state s1) with (state s).
    destruct (state s) eqn:Es; cbn [fst];
      try exact (write_through_edge s1 (Write v r ok oks) _ _ _ _ eq_refl).
    unfold write_buffer. proj.
    exact (err_to_edge s1 (Write v r ok oks) _ eq_refl (error_edge s1)).
  - unfold do_write; destruct (unusable s); [left; reflexivity|].
    set (s1 := with_commanded s (set_all (commanded s) ps)).
    change (state s1) with (state s).
    destruct (state s) eqn:Es; cbn [fst];
      try exact (write_through_edge s1 (WriteBatch ps ok oks) _ _ _ _ eq_refl).
    unfold write_buffer. proj.
    exact (err_to_edge s1 (WriteBatch ps ok oks) _ eq_refl (error_edge s1)).
  - destruct (in_states (state s) reconnecting_states) eqn:Er; [|left; reflexivity].
    destruct (is_backoff_tick (rtick s + 1)) eqn:Eb; [|left; reflexivity].
    destruct ok; cbn [fst]; [|left; reflexivity].
    right. right. right. right. right. right.
    assert (Hs : state s = SReconnect \/ state s = SError).
    { unfold in_states in Er. destruct (state s); cbn in Er; try discriminate; auto. }
    split; [exact Hs|]. split; [reflexivity|]. split; [reflexivity|exact Eb].
  - destruct ok; [|left; reflexivity]. destruct (state s) eqn:E; cbn [fst]; try (left; reflexivity).
    right. left. repeat split. exact E.
  - left. reflexivity.
Qed.

(* ---- masking and raising ---- *)
Lemma rw_never_raises_when_usable s o :
  is_rw o = true -> unusable s = false -> snd (step s o) <> RRaise.
Proof.
  intros Hrw Hu. destruct o as [r hw|rs hw|v r ok oks|ps ok oks|ok|ok|dt]; try discriminate; cbn [step].
  1,2: unfold do_read; rewrite Hu; destruct (state s); cbn [snd]; try discriminate;
       destruct hw; cbn [snd]; discriminate.
  1,2: unfold do_write; rewrite Hu;
       match goal with |- context [state ?t] => destruct (state t) end; cbn [snd]; discriminate.
Qed.

Lemma rw_raises_when_unusable s o :
  is_rw o = true -> unusable s = true -> step s o = (s, RRaise).
Proof.
  intros Hrw Hu. destruct o as [r hw|rs hw|v r ok oks|ps ok oks|ok|ok|dt]; try discriminate; cbn [step];
    unfold do_read, do_write; now rewrite Hu.
Qed.

Lemma lkg_error s : lkg (error_read_write s) = lkg s.
Proof.
  unfold error_read_write. change (state (with_last_ok s [])) with (state s).
  destruct (state s); proj; try reflexivity; destruct (_ <? _); reflexivity.
Qed.

(* a masked read returns, register by register, the last-known-good table, which this very
   operation leaves untouched *)
Lemma masked_read_values s rs hw :
  unusable s = false -> (state s = SReconnect \/ hw = None) ->
  snd (do_read s rs hw) = RVals (map (aget (lkg s)) rs) /\ lkg (fst (do_read s rs hw)) = lkg s.
Proof.
  intros Hu Hc. unfold do_read. rewrite Hu. unfold lkg_values.
  destruct (state s) eqn:Es; cbn [fst snd]; try (rewrite lkg_error; auto; fail);
    destruct Hc as [Hc|Hc]; try discriminate; subst hw; cbn [fst snd]; rewrite lkg_error; auto.
Qed.

Lemma lkg_success_common s : lkg (success_common s) = lkg s.
Proof.
  unfold success_common. change (state (set_last_success s)) with (state s). destruct (state s); reflexivity.
Qed.

(* the last-known-good table changes only by a successful hardware read, to exactly the values read *)
Lemma lkg_only_good_reads s o :
  lkg (fst (step s o)) =
  match o with
  | Read r (Some v) =>
      if unusable s then lkg s else match state s with SReconnect => lkg s | _ => set_all (lkg s) [(v, r)] end
  | ReadBatch rs (Some vs) =>
      if unusable s then lkg s else match state s with SReconnect => lkg s | _ => set_all (lkg s) (combine vs rs) end
  | _ => lkg s
  end.
Proof.
  destruct o as [r hw|rs hw|v r ok oks|ps ok oks|ok|ok|dt]; cbn [step].
  - unfold do_read. destruct hw as [v|]; destruct (unusable s); try reflexivity;
      destruct (state s); cbn [fst]; rewrite ?lkg_error, ?lkg_success_common; reflexivity.
  - unfold do_read. destruct hw as [vs|]; destruct (unusable s); try reflexivity;
      destruct (state s); cbn [fst]; rewrite ?lkg_error, ?lkg_success_common; reflexivity.
  - unfold do_write. destruct (unusable s); [reflexivity|].
    match goal with |- context [with_commanded ?s0 ?m] => set (s1 := with_commanded s0 m) end.
    assert (Hwt : forall orig hw_ok oks single, lkg (write_through s1 orig hw_ok oks single) = lkg s).
    { intros. unfold write_through. destruct (single && _); [reflexivity|]. destruct hw_ok.
      - destruct (fold_hw_ctl (filter_writes s1 orig) s1) as [_ [_ [H3 _]]].
        match goal with |- lkg (flush ?t ?E ?o) = _ => destruct (flush_ctl t E o) as [_ [_ G]]; rewrite G end.
        rewrite lkg_success_common. proj. exact H3.
      - pose proof (lkg_error s1) as He. destruct (state (error_read_write s1)); proj; exact He. }
    change (state s1) with (state s). destruct (state s); cbn [fst]; try apply Hwt.
    unfold write_buffer. proj. apply (lkg_error s1).
  - unfold do_write. destruct (unusable s); [reflexivity|].
    match goal with |- context [with_commanded ?s0 ?m] => set (s1 := with_commanded s0 m) end.
    assert (Hwt : forall orig hw_ok oks single, lkg (write_through s1 orig hw_ok oks single) = lkg s).
    { intros. unfold write_through. destruct (single && _); [reflexivity|]. destruct hw_ok.
      - destruct (fold_hw_ctl (filter_writes s1 orig) s1) as [_ [_ [H3 _]]].
        match goal with |- lkg (flush ?t ?E ?o) = _ => destruct (flush_ctl t E o) as [_ [_ G]]; rewrite G end.
        rewrite lkg_success_common. proj. exact H3.
      - pose proof (lkg_error s1) as He. destruct (state (error_read_write s1)); proj; exact He. }
    change (state s1) with (state s). destruct (state s); cbn [fst]; try apply Hwt.
    unfold write_buffer. proj. apply (lkg_error s1).
  - destruct (in_states (state s) reconnecting_states); [|reflexivity].
    destruct (is_backoff_tick (rtick s + 1)); [|reflexivity]. destruct ok; reflexivity.
  - destruct ok; [|reflexivity]. destruct (state s); reflexivity.
  - reflexivity.
Qed.
