From Coq Require Import ZArith List Bool Lia.
From OP Require Import lib.Obs model.C38 proofs.C35_proofs.
Import ListNotations.
Open Scope Z_scope.

Lemma str_eqb_eq a b : str_eqb a b = true <-> a = b.
Proof. apply list_eqb_eq. intros x y. apply Z.eqb_eq. Qed.

Section Quote.
  Variable quote : str -> str.
  Hypothesis quote_injective : forall a b, quote a = quote b -> a = b.

  Lemma id_eq_iff c1 u1 c2 u2 :
    engine_id quote c1 u1 = engine_id quote c2 u2 <-> joined c1 u1 = joined c2 u2.
  Proof. unfold engine_id. split; [apply quote_injective|congruence]. Qed.

  (* the full-strength statement is false, for ANY quote function *)
  Lemma injective_refuted :
    ~ (forall c1 u1 c2 u2, (c1, u1) <> (c2, u2) -> engine_id quote c1 u1 <> engine_id quote c2 u2).
  Proof.
    intros H. apply (H [97; 95; 98] [99] [97] [98; 95; 99]); [discriminate|reflexivity].
  Qed.

  (* split at the first underscore *)
  Lemma joined_inj_no_underscore c1 : forall c2 u1 u2,
    ~ In underscore c1 -> ~ In underscore c2 ->
    joined c1 u1 = joined c2 u2 -> c1 = c2 /\ u1 = u2.
  Proof.
    unfold joined. induction c1 as [|x c1 IH]; intros [|y c2] u1 u2 H1 H2 E; cbn in *.
    - inversion E. auto.
    - inversion E. subst. exfalso. apply H2. now left.
    - inversion E. subst. exfalso. apply H1. now left.
    - inversion E. subst. destruct (IH c2 u1 u2) as [-> ->]; auto.
  Qed.

  Lemma injective_partial c1 u1 c2 u2 :
    ~ In underscore c1 -> ~ In underscore c2 ->
    (c1, u1) <> (c2, u2) -> engine_id quote c1 u1 <> engine_id quote c2 u2.
  Proof.
    intros H1 H2 Hne E. apply id_eq_iff in E.
    destruct (joined_inj_no_underscore _ _ _ _ H1 H2 E) as [-> ->]. now apply Hne.
  Qed.
End Quote.

(* ---- no take-over ---- *)
Lemma reg_refused_when_connected names s p sec ver ign :
  is_connected s (key_of names p) = true ->
  step names s (Reg p sec ver ign) = (s, false).
Proof. intros H. cbn. destruct (negb sec); [reflexivity|]. now rewrite H. Qed.

Lemma reg_never_changes_connections names s p sec ver ign :
  fst (step names s (Reg p sec ver ign)) = s.
Proof.
  cbn. destruct (negb sec); [reflexivity|].
  destruct (is_connected s (key_of names p)); [reflexivity|].
  destruct (negb ver && negb ign); reflexivity.
Qed.

(* at most one connection per id, in every reachable state *)
Definition ids (s : st) := map fst s.

Lemma not_connected_not_in s k : is_connected s k = false -> ~ In k (ids s).
Proof.
  unfold is_connected, ids. intros H Hin. apply in_map_iff in Hin as [e [<- He]].
  assert (existsb (fun e0 => str_eqb (fst e0) (fst e)) s = true).
  { apply existsb_exists. exists e. split; [exact He|]. now apply str_eqb_eq. }
  congruence.
Qed.

Lemma NoDup_filter_ids (f : str * nat -> bool) s : NoDup (ids s) -> NoDup (ids (filter f s)).
Proof.
  unfold ids. induction s as [|e s IH]; cbn; intros H; [constructor|].
  inversion H as [|x l Hnin Hnd]; subst. destruct (f e); cbn; [|auto].
  constructor; [|auto]. intros Hin. apply Hnin.
  apply in_map_iff in Hin as [e' [E He']]. apply filter_In in He' as [He' _].
  apply in_map_iff. exists e'. auto.
Qed.

Lemma step_nodup names s o : NoDup (ids s) -> NoDup (ids (fst (step names s o))).
Proof.
  intros H. destruct o as [p sec ver ign|p|p].
  - now rewrite reg_never_changes_connections.
  - cbn. destruct (is_connected s (key_of names p)) eqn:E; cbn; [exact H|].
    constructor; [now apply not_connected_not_in|exact H].
  - cbn. destruct (existsb _ s); cbn; [now apply NoDup_filter_ids|exact H].
Qed.

Lemma reachable_nodup names os : forall s, NoDup (ids s) -> NoDup (ids (final names s os)).
Proof.
  induction os as [|o os IH]; intros s H; cbn; [exact H|]. apply IH, step_nodup, H.
Qed.
