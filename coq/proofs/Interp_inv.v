(* Invariants of the interpreter model: a predicate on the interpreter state that every transition of every generator
   preserves holds after every tick of every run. *)
From Coq Require Import ZArith List Bool Arith Lia.
From OP Require Import lib.Obs model.Interp model.InterpRun.
Import ListNotations.
Open Scope Z_scope.

Definition outcome_ok (P : S -> Prop) (o : outcome) : Prop :=
  match o with Yield _ _ s' => P s' | Go _ s' => P s' | Raise _ s' => P s' end.

(* one tick, with its environment fixed *)
Section TransferTick.
  Variable p : program.
  Variable e : env.
  Variable P : S -> Prop.

  Hypothesis P_step : forall b f k s, P s -> outcome_ok P (step p e b f k s).
  Hypothesis P_fail : forall s n, P s -> P (set_error (set_ns s n (set_failed (st s n) true)) n).
  (* a generator is stored back into its map entry (the only map update outside the transitions) *)
  Hypothesis P_ints : forall s n sr k, P s -> P (with_ints s (write_back (ints s) n sr k) (serial s)).
  Hypothesis P_sched : forall s, P s -> P {| nodes := nodes s; ints := ints s; serial := serial s; last_error := last_error s;
                                             block_tag := block_tag s; scheduled := 0; marks := marks s; macros := macros s |}.

  Lemma unwind_P k : forall s k' s', P s -> unwind k s = Some (k', s') -> P s'.
  Proof.
    induction k as [|f k IH]; intros s k' s' H U; cbn [unwind] in U; [discriminate|].
    destruct f; try (eapply IH; eassumption). inversion U; subst. now apply P_fail.
  Qed.

  Lemma next_gen_P fuel : forall b k s r k' s', P s -> next_gen p fuel e b k s = Some (r, k', s') -> P s'.
  Proof.
    induction fuel as [|fuel IH]; intros b k s r k' s' H N; cbn [next_gen] in N; [discriminate|].
    destruct k as [|f k]; [inversion N; subst; exact H|].
    pose proof (P_step b f k s H) as O. destruct (step p e b f k s) as [r0 k0 s0|k0 s0|k0 s0]; cbn [outcome_ok] in O.
    - inversion N; subst. exact O.
    - eapply IH; eassumption.
    - destruct (unwind k0 s0) as [[k3 s3]|] eqn:U.
      + eapply IH; [eapply unwind_P; eassumption|exact N].
      + inversion N; subst. exact O.
  Qed.

  Lemma drive_P rounds : forall fuel b k s k' s', P s -> drive p rounds fuel e b k s = Some (k', s') -> P s'.
  Proof.
    induction rounds as [|rounds IH]; intros fuel b k s k' s' H D; cbn [drive] in D; [discriminate|].
    destruct (next_gen p fuel e b k s) as [[[r k2] s2]|] eqn:N; [|discriminate].
    pose proof (next_gen_P _ _ _ _ _ _ _ H N) as H2.
    destruct r; try (inversion D; subst; exact H2). eapply IH; eassumption.
  Qed.

  Lemma run_interrupts_P rounds fuel snap : forall s s', P s -> run_interrupts p rounds fuel e snap s = Some s' -> P s'.
  Proof.
    unfold run_interrupts.
    assert (G : forall snap os s', (forall s0, os = Some s0 -> P s0) ->
              fold_left (fun os x => match os with
                                     | None => None
                                     | Some s0 => match drive p rounds fuel e true (snd (snd x)) s0 with
                                                  | None => None
                                                  | Some (k', s1) => Some (with_ints s1 (write_back (ints s1) (fst x) (fst (snd x)) k') (serial s1))
                                                  end
                                     end) snap os = Some s' -> P s').
    { induction snap0 as [|x snap0 IH]; intros os s' H F; cbn [fold_left] in F; [now apply H|].
      eapply IH; [|exact F]. intros s0 E. destruct os as [s1|]; [|discriminate].
      destruct (drive p rounds fuel e true (snd (snd x)) s1) as [[k' s2]|] eqn:D; [|discriminate].
      inversion E; subst. apply P_ints. eapply drive_P; [apply H; reflexivity|exact D]. }
    intros s s' H F. eapply G; [|exact F]. intros s0 E. inversion E; subst. exact H.
  Qed.

  Theorem tick_P rounds fuel main s main' s' raised :
    P s -> tick p rounds fuel e main s = Some (main', s', raised) -> P s'.
  Proof.
    intros H T. unfold tick in T.
    destruct (drive p rounds fuel e false main _) as [[m1 s1]|] eqn:D; [|discriminate].
    destruct (run_interrupts p rounds fuel e (ints s1) s1) as [s2|] eqn:R; [|discriminate].
    inversion T; subst. eapply run_interrupts_P; [|exact R]. eapply drive_P; [|exact D]. now apply P_sched.
  Qed.

End TransferTick.

(* all ticks of a run *)
Section Transfer.
  Variable p : program.
  Variable P : S -> Prop.
  Hypothesis P_step : forall e b f k s, P s -> outcome_ok P (step p e b f k s).
  Hypothesis P_fail : forall s n, P s -> P (set_error (set_ns s n (set_failed (st s n) true)) n).
  (* a generator is stored back into its map entry (the only map update outside the transitions) *)
  Hypothesis P_ints : forall s n sr k, P s -> P (with_ints s (write_back (ints s) n sr k) (serial s)).
  Hypothesis P_cmd : forall s n, P s -> P (mark_completed s n).
  Hypothesis P_sched : forall s, P s -> P {| nodes := nodes s; ints := ints s; serial := serial s; last_error := last_error s;
                                             block_tag := block_tag s; scheduled := 0; marks := marks s; macros := macros s |}.

  Lemma complete_cmds_P l : forall s, P s -> P (fold_left (complete_cmd p) l s).
  Proof.
    induction l as [|n l IH]; intros s H; cbn [fold_left]; [exact H|]. apply IH. unfold complete_cmd.
    destruct (n_kind (nd p n)); try exact H. destruct (started (st s n) && negb (completed (st s n))); [now apply P_cmd|exact H].
  Qed.

  (* every state a run passes through *)
  Fixpoint states (main : stack) (s : S) (now : Z) (ts : list tick_in) : list S :=
    match ts with
    | [] => []
    | t :: ts' =>
        let s1 := fold_left (complete_cmd p) (t_complete t) s in
        let now' := now + 5 * t_dt t in
        let e := {| e_time := now'; e_thr_wait := t_thr_wait t; e_cond_true := t_cond_true t; e_cond_err := t_cond_err t |} in
        match tick p (rounds_of p) (fuel_of p) e main s1 with
        | None => []
        | Some (main', s2, _) => s2 :: states main' s2 now' ts'
        end
    end.

  Theorem run_P ts : forall main s now, P s -> Forall P (states main s now ts).
  Proof.
    induction ts as [|t ts IH]; intros main s now H; cbn [states]; [constructor|].
    set (s1 := fold_left (complete_cmd p) (t_complete t) s).
    assert (H1 : P s1) by now apply complete_cmds_P.
    destruct (tick p (rounds_of p) (fuel_of p) _ main s1) as [[[main' s2] r]|] eqn:T; [|constructor].
    pose proof (tick_P p _ P (P_step _) P_fail P_ints P_sched _ _ _ _ _ _ _ H1 T) as H2. constructor; [exact H2|now apply IH].
  Qed.

  (* the same for the views the correspondence observes *)
  Definition view_of (s : S) (raised : bool) : view :=
    {| v_nodes := nodes s; v_ints := map fst (ints s); v_block := block_tag s; v_sched := scheduled s;
       v_raised := raised; v_error := last_error s |}.
  Theorem run_views_P (Q : view -> Prop) : (forall s raised, P s -> Q (view_of s raised)) ->
    forall ts main s now, P s -> Forall Q (run_ticks p main s now ts).
  Proof.
    intros HQ. induction ts as [|t ts IH]; intros main s now H; cbn [run_ticks]; [constructor|].
    set (s1 := fold_left (complete_cmd p) (t_complete t) s).
    assert (H1 : P s1) by now apply complete_cmds_P.
    destruct (tick p (rounds_of p) (fuel_of p) _ main s1) as [[[main' s2] r]|] eqn:T; [|constructor].
    pose proof (tick_P p _ P (P_step _) P_fail P_ints P_sched _ _ _ _ _ _ _ H1 T) as H2.
    constructor; [exact (HQ s2 r H2)|now apply IH].
  Qed.
End Transfer.
