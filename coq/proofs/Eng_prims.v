(* Every operation of the engine model is a finite composition of a fixed set of primitive state changes.
   No side condition, no hypothesis on the operation: the decomposition holds for ALL operations, faults and
   durations included.  A property preserved by every primitive therefore holds in every reachable state. *)
From Coq Require Import ZArith List Bool Arith Lia.
From OP Require Import lib.Obs model.Eng.
Import ListNotations.
Open Scope Z_scope.

Section Prims.
  Variable safe : list (option Z).
  Variable overlaps : list (list nat).

  Definition uod_event (x : ev) : bool :=
    match x with EUInit _ _ | EUExec _ _ _ | EUFinal _ _ => true | _ => false end.

  Lemma find_u_name e n c : find_u e n = Some c -> c_name c = n.
  Proof. unfold find_u. intros H. apply find_some in H as [_ H]. now apply Nat.eqb_eq in H. Qed.
  Lemma find_u_add e c : find_u e (c_name c) = None -> find_u (set_cmds e (reg e) (uods e ++ [c])) (c_name c) = Some c.
  Proof.
    unfold find_u. cbn [set_cmds uods]. induction (uods e) as [|x l IH]; cbn [find app]; intros H.
    - now rewrite Nat.eqb_refl.
    - destruct (Nat.eqb (c_name x) (c_name c)); [discriminate|]. now apply IH.
  Qed.
  Lemma find_u_put e c c' : find_u e (c_name c') = Some c -> find_u (put_u e c') (c_name c') = Some c'.
  Proof.
    unfold find_u, put_u. cbn [set_cmds uods]. induction (uods e) as [|x l IH]; cbn [find map]; intros H; [discriminate|].
    destruct (Nat.eqb (c_name x) (c_name c')) eqn:Ex.
    - cbn [find]. now rewrite Nat.eqb_refl.
    - cbn [find]. rewrite Ex. now apply IH.
  Qed.
  Lemma uods_note_cancel e r : uods (note_cancel e r) = uods e.
  Proof. unfold note_cancel. destruct (r_name r) as [[]|]; try reflexivity; destruct (trk e); reflexivity. Qed.
  Lemma find_u_note_cancel e r n : find_u (note_cancel e r) n = find_u e n.
  Proof. unfold find_u. now rewrite uods_note_cancel. Qed.
  Lemma find_u_note_cancel_m e m r n : find_u (note_cancel_m e m r) n = find_u e n.
  Proof. destruct m; [reflexivity|apply find_u_note_cancel]. Qed.

  Inductive prim : E -> E -> Prop :=
  | P_mgr e x d q rp : prim e (set_mgr e x d q rp)             (* queue / executing list / done set / pending restart *)
  | P_iticks e k : prim e (set_iticks e k)
  | P_now e t w : prim e (set_now e t w)
  | P_clocks e dt : started e = true -> prim e (update_clocks e dt)    (* update_calculated_tags runs only while started *)
  | P_root e : prim e (root_push e)
  (* the life cycle of a UOD command instance, with what the code has established at that point *)
  | P_uadd e c : find_u e (c_name c) = None -> c_init c = false -> prim e (set_cmds e (reg e) (uods e ++ [c]))
  | P_uinit e n c : find_u e n = Some c -> c_init c = false -> prim e (put_u (emit e (EUInit n (c_id c))) (inited c))
  | P_uexec e n c id k : find_u e n = Some c -> c_id c = id -> c_init c = true -> prim e (emit e (EUExec n id k))
  | P_uput e c c' : find_u e (c_name c') = Some c -> c_id c' = c_id c -> c_init c' = c_init c -> prim e (put_u e c')
  | P_ufin e c c0 : find_u e (c_name c) = Some c0 -> c_id c0 = c_id c -> prim e (fin_u e c)
  | P_write e : prim e (write_image e)
  | P_add_i e c : prim e (set_cmds e (reg e ++ [c]) (uods e))
  | P_put_i e c : prim e (put_i e c)
  | P_drop_i e n : prim e (drop_i e n)
  | P_creq e i : prim e (add_creq e i)
  | P_out e u i v : prim e (set_out_by u e i v)
  | P_unpause e : prim e (unpause_body e)
  | P_unhold e : prim e (unhold_body e)
  | P_pause e : prim e (pause_begin safe e)
  | P_hold e : prim e (hold_begin e)
  | P_stop_begin e : prim e (stop_begin e)
  | P_restart_begin e : prim e (restart_begin e)
  | P_start e : prim e (start_body e)
  | P_stop e : prim e (stop_core safe e)          (* Stop, second tick: safe state, run end, image write, started := false *)
  | P_restart_stop e : prim e (restart_stop e)
  | P_restart_finish e : prim e (restart_finish e)
  | P_error e : prim e (set_error_state e).

  Inductive star : E -> E -> Prop :=
  | star_refl e : star e e
  | star_step e1 e2 e3 : prim e1 e2 -> star e2 e3 -> star e1 e3.

  Lemma star_one e e' : prim e e' -> star e e'.
  Proof. intros H. eapply star_step; [exact H|apply star_refl]. Qed.
  Lemma star_trans a b c : star a b -> star b c -> star a c.
  Proof. induction 1; intros; [assumption|]. eapply star_step; eauto. Qed.
  Lemma star_snoc a b c : star a b -> prim b c -> star a c.
  Proof. intros H1 H2. eapply star_trans; [exact H1|now apply star_one]. Qed.

  Ltac chain := repeat first [apply star_refl | eapply star_step; [solve [constructor; reflexivity | constructor]|]].

  Lemma mark_done_star e m r : star e (fst (mark_done e m r)).
  Proof.
    unfold mark_done. destruct (existsb _ _); [|apply star_refl]. destruct m as [[x d]|]; cbn [fst]; [apply star_refl|].
    apply star_one. apply P_mgr.
  Qed.

  Lemma fin_u_star e c c0 : find_u e (c_name c) = Some c0 -> c_id c0 = c_id c -> star e (fin_u e c).
  Proof. intros H1 H2. apply star_one. now apply (P_ufin e c c0). Qed.

  Lemma note_cancel_star e r : star e (note_cancel e r).
  Proof.
    unfold note_cancel. destruct (r_name r) as [[]|]; try apply star_refl; destruct (trk e); try apply star_refl;
      apply star_one; apply P_creq.
  Qed.

  Lemma note_cancel_m_star e m r : star e (note_cancel_m e m r).
  Proof. destruct m; [apply star_refl|apply note_cancel_star]. Qed.

  Lemma cancel_request_star e m r : star e (fst (cancel_request e m r)).
  Proof.
    unfold cancel_request. destruct (r_name r) as [n|n].
    - destruct (find_i e n) as [c|]; [|apply star_refl].
      destruct (i_complete c).
      + eapply star_trans; [|apply mark_done_star]. apply star_one. unfold fin_i. apply P_drop_i.
      + set (e1 := match n with Pause => unpause_body e | Hold => unhold_body e | _ => e end).
        assert (S1 : star e e1) by (unfold e1; destruct n; try apply star_refl; apply star_one; [apply P_unpause|apply P_unhold]).
        destruct (mark_cancelled_raises (tk e1 m) r).
        * cbn [fst]. eapply star_snoc; [exact S1|apply P_put_i].
        * eapply star_trans; [|apply mark_done_star]. eapply star_trans; [exact S1|].
          eapply star_trans; [apply note_cancel_m_star|]. apply star_one. unfold fin_i. apply P_drop_i.
    - assert (U : star e (fst (cancel_unstarted e m r))).
      { unfold cancel_unstarted. pose proof (mark_done_star e m r) as K. destruct (mark_done e m r) as [e1 m1]. cbn [fst] in K.
        destruct (mark_cancelled_raises (tk e1 m1) r); cbn [fst]; [exact K|].
        eapply star_trans; [exact K|apply note_cancel_m_star]. }
      destruct (find_u e n) as [c|] eqn:Ef; [|exact U].
      destruct (Nat.eqb (c_id c) (r_id r)); [|exact U]. clear U.
      pose proof (find_u_name _ _ _ Ef) as Hn.
      destruct (c_complete c).
      + eapply star_trans; [|apply mark_done_star]. apply (fin_u_star e c c); [now rewrite Hn|reflexivity].
      + destruct (mark_cancelled_raises (tk e m) r).
        * cbn [fst]. apply star_one. apply (P_uput e c); [cbn [c_name]; now rewrite Hn|reflexivity|reflexivity].
        * eapply star_trans; [|apply mark_done_star]. eapply star_trans; [apply note_cancel_m_star|].
          apply (fin_u_star _ c c); [rewrite find_u_note_cancel_m; now rewrite Hn|reflexivity].
  Qed.

  Lemma fold_star {A} (f : E * mgr -> A -> E * mgr) :
    (forall em a, star (fst em) (fst (f em a))) -> forall l em, star (fst em) (fst (fold_left f l em)).
  Proof.
    intros H. induction l as [|a l IH]; intros em; cbn [fold_left]; [apply star_refl|].
    eapply star_trans; [apply H|apply IH].
  Qed.

  Lemma cancel_all_star e m src : star e (fst (cancel_all e m src)).
  Proof.
    unfold cancel_all.
    set (f := fun (em : E * mgr) (r : request) =>
                if cname_eqb (r_name r) (CI src) then em else cancel_request (fst em) (snd em) r).
    pose proof (fold_star f) as F.
    assert (H : forall em a, star (fst em) (fst (f em a))).
    { intros em a. unfold f. destruct (cname_eqb _ _); [apply star_refl|apply cancel_request_star]. }
    specialize (F H (exe e) (e, None)). cbn [fst] in F.
    destruct (fold_left f (exe e) (e, None)) as [e' m']. exact F.
  Qed.

  Lemma reset_manager_star e m : star e (fst (reset_manager e m)).
  Proof. unfold reset_manager. cbn [fst]. eapply star_step; [apply P_mgr|]. apply star_one. apply P_iticks. Qed.

  Lemma stop_finish_star e m : star e (fst (stop_finish safe e m)).
  Proof.
    unfold stop_finish.
    eapply star_step; [apply P_stop|].
    apply reset_manager_star.
  Qed.

  Lemma restart_mid_star e m : star e (fst (restart_mid e m)).
  Proof. unfold restart_mid. eapply star_step; [apply P_restart_stop|]. apply reset_manager_star. Qed.

  Lemma run_icmd_star e m c : star e (fst (fst (fst (run_icmd safe e m c)))).
  Proof.
    unfold run_icmd. destruct (i_name c).
    - destruct (started e); cbn [fst]; [apply star_refl|apply star_one; apply P_start].
    - destruct (i_pc c).
      + destruct (_ || _); cbn [fst]; [apply star_refl|].
        pose proof (cancel_all_star (stop_begin e) m Stop) as K.
        destruct (cancel_all (stop_begin e) m Stop) as [e2 m2]. cbn [fst] in *.
        eapply star_step; [apply P_stop_begin|exact K].
      + pose proof (stop_finish_star e m) as K. destruct (stop_finish safe e m) as [e7 m7]. exact K.
    - destruct (i_pc c).
      + destruct (i_durarg c) as [d|].
        * destruct (now (pause_begin safe e) <? now e + d); cbn [fst].
          -- apply star_one. apply P_pause.
          -- eapply star_step; [apply P_pause|]. apply star_one. apply P_unpause.
        * cbn [fst]. apply star_one. apply P_pause.
      + destruct (i_end c) as [t|]; [|apply star_refl]. destruct (now e <? t); cbn [fst]; [apply star_refl|].
        apply star_one. apply P_unpause.
    - cbn [fst]. apply star_one. apply P_unpause.
    - destruct (i_pc c).
      + destruct (i_durarg c) as [d|].
        * destruct (now (hold_begin e) <? now e + d); cbn [fst].
          -- apply star_one. apply P_hold.
          -- eapply star_step; [apply P_hold|]. apply star_one. apply P_unhold.
        * cbn [fst]. apply star_one. apply P_hold.
      + destruct (i_end c) as [t|]; [|apply star_refl]. destruct (now e <? t); cbn [fst]; [apply star_refl|].
        apply star_one. apply P_unhold.
    - cbn [fst]. apply star_one. apply P_unhold.
    - destruct (i_pc c) as [|[|k]].
      + destruct (_ || _); cbn [fst]; [apply star_refl|].
        pose proof (cancel_all_star (restart_begin e) m Restart) as K.
        destruct (cancel_all (restart_begin e) m Restart) as [e2 m2]. cbn [fst] in *.
        eapply star_step; [apply P_restart_begin|exact K].
      + pose proof (restart_mid_star e m) as K. destruct (restart_mid e m) as [e3 m3]. exact K.
      + cbn [fst]. apply star_one. apply P_restart_finish.
    - apply star_refl.
  Qed.

  Lemma tick_icmd_star e m c : star e (fst (fst (fst (tick_icmd safe e m c)))).
  Proof.
    unfold tick_icmd. destruct (i_complete c); cbn [fst]; [apply star_one; unfold fin_i; apply P_drop_i|].
    pose proof (run_icmd_star e m c) as K.
    destruct (run_icmd safe e m c) as [[[e1 m1] c1] o]. cbn [fst] in K.
    destruct o; cbn [fst]; (eapply star_snoc; [exact K|]); [apply P_put_i|unfold fin_i; apply P_drop_i].
  Qed.

  Lemma exec_internal_star e m r n : star e (fst (fst (exec_internal safe e m r n))).
  Proof.
    unfold exec_internal. destruct (find_i e n) as [c|].
    - destruct (i_cancelled c).
      + pose proof (mark_done_star (fin_i e n) m r) as K. destruct (mark_done (fin_i e n) m r) as [e1 m1]. cbn [fst] in *.
        eapply star_step; [unfold fin_i; apply P_drop_i|exact K].
      + pose proof (tick_icmd_star e m c) as K.
        destruct (tick_icmd safe e m c) as [[[e1 m1] failed] fin]. cbn [fst] in K.
        destruct (failed || fin); cbn [fst]; [|exact K].
        pose proof (mark_done_star e1 m1 r) as K2. destruct (mark_done e1 m1 r) as [e2 m2]. cbn [fst] in *.
        eapply star_trans; eauto.
    - destruct (_ && negb (started e)).
      + pose proof (mark_done_star e m r) as K. destruct (mark_done e m r) as [e1 m1]. exact K.
      + set (c := mk_icmd r n). set (e0 := set_cmds e (reg e ++ [c]) (uods e)).
        set (e1 := match n with
                   | Restart => match m with None => set_mgr e0 (exe e0) (done e0) (que e0) (Some r) | Some _ => e0 end
                   | _ => e0 end).
        assert (S1 : star e e1).
        { eapply star_step; [apply (P_add_i e c)|]. fold e0. unfold e1.
          destruct n; try apply star_refl. destruct m; [apply star_refl|apply star_one; apply P_mgr]. }
        destruct (untracked (tk e1 m) r); cbn [fst]; [exact S1|].
        pose proof (tick_icmd_star e1 m c) as K.
        destruct (tick_icmd safe e1 m c) as [[[e2 m2] failed] fin]. cbn [fst] in K.
        destruct (failed || fin); cbn [fst]; [|eapply star_trans; eauto].
        pose proof (mark_done_star e2 m2 r) as K2. destruct (mark_done e2 m2 r) as [e3 m3]. cbn [fst] in *.
        eapply star_trans; [exact S1|]. eapply star_trans; eauto.
  Qed.

  Lemma exec_uod_star e m r n : star e (fst (fst (exec_uod overlaps e m r n))).
  Proof.
    unfold exec_uod.
    set (f1 := fun (em : E * mgr) (c : request) =>
                 if cname_eqb (r_name c) (CU n) && negb (Nat.eqb (r_id c) (r_id r))
                 then cancel_request (fst em) (snd em) c else em).
    assert (H1 : forall em a, star (fst em) (fst (f1 em a))).
    { intros em a. unfold f1. destruct (_ && _); [apply cancel_request_star|apply star_refl]. }
    pose proof (fold_star f1 H1 (current e m) (e, m)) as S1. cbn [fst] in S1.
    destruct (fold_left f1 (current e m) (e, m)) as [e1 m1]. cbn [fst] in S1.
    set (f2 := fun (em : E * mgr) (c : request) =>
                 match r_name c with
                 | CU k => if negb (Nat.eqb (r_id c) (r_id r)) && overlapping overlaps k n
                           then cancel_request (fst em) (snd em) c else em
                 | _ => em end).
    assert (H2 : forall em a, star (fst em) (fst (f2 em a))).
    { intros em a. unfold f2. destruct (r_name a); [apply star_refl|]. destruct (_ && _); [apply cancel_request_star|apply star_refl]. }
    pose proof (fold_star f2 H2 (current e1 m1) (e1, m1)) as S2. cbn [fst] in S2.
    destruct (fold_left f2 (current e1 m1) (e1, m1)) as [e2 m2]. cbn [fst] in S2.
    assert (S02 : star e e2) by (eapply star_trans; eauto).
    assert (Tail : forall e3 c, find_u e3 n = Some c -> star e e3 ->
      star e (fst (fst (
        if c_cancelled c then let '(e5, m5) := mark_done (fin_u e3 c) m2 r in (e5, m5, false) else
        let e4 := if c_init c then e3 else put_u (emit e3 (EUInit n (c_id c))) (inited c) in
        if negb (c_started c) && untracked (tk e4 m2) r then
          (put_u e4 {| c_name := n; c_id := c_id c; c_init := true; c_started := false; c_iter := c_iter c; c_complete := false;
                       c_cancelled := true |}, m2, true)
        else
        if c_complete c then let '(e5, m5) := mark_done (fin_u e4 c) m2 r in (e5, m5, false)
        else
          let it := c_iter c + 1 in
          let e5 := emit e4 (EUExec n (c_id c) it) in
          let e6 := match u_out (r_scr r) with Some (o, v) => set_out_by (r_user r) e5 o (v + it) | None => e5 end in
          let fails := match u_fail (r_scr r) with Some k => Z.of_nat k <=? it | None => false end in
          if fails then
            let c' := {| c_name := n; c_id := c_id c; c_init := true; c_started := true; c_iter := it; c_complete := false;
                         c_cancelled := true |} in
            let '(e7, m7) := if mark_cancelled_raises (tk e6 m2) r then (put_u e6 c', m2)
                             else mark_done (fin_u (put_u (note_cancel_m e6 m2 r) c') c') m2 r in (e7, m7, true)
          else
            let complete := Z.of_nat (u_dur (r_scr r)) <=? it in
            let c' := {| c_name := n; c_id := c_id c; c_init := true; c_started := true; c_iter := it; c_complete := complete;
                         c_cancelled := false |} in
            let e7 := put_u e6 c' in
            if complete then let '(e8, m8) := mark_done (fin_u e7 c') m2 r in (e8, m8, false)
            else (e7, m2, false))))).
    { intros e3 c F3 S3.
      pose proof (find_u_name _ _ _ F3) as Hn.
      destruct (c_cancelled c).
      - pose proof (mark_done_star (fin_u e3 c) m2 r) as K. destruct (mark_done (fin_u e3 c) m2 r) as [e5 m5]. cbn [fst] in *.
        eapply star_trans; [exact S3|]. eapply star_trans; [apply (fin_u_star e3 c c); [now rewrite Hn|reflexivity]|exact K].
      - cbv zeta. set (e4 := if c_init c then e3 else put_u (emit e3 (EUInit n (c_id c))) (inited c)).
        set (c4 := if c_init c then c else inited c).
        assert (S4 : star e e4 /\ find_u e4 n = Some c4 /\ c_init c4 = true /\ c_id c4 = c_id c).
        { unfold e4, c4. destruct (c_init c) eqn:Ei.
          - repeat split; assumption.
          - split; [eapply star_snoc; [exact S3|]; now apply P_uinit|].
            split; [|split; reflexivity].
            rewrite <- Hn. apply (find_u_put (emit e3 (EUInit (c_name c) (c_id c))) c (inited c)). cbn [inited c_name]. now rewrite Hn. }
        destruct S4 as [S4 [F4 [I4 D4]]]. clearbody e4 c4.
        destruct (negb (c_started c) && untracked (tk e4 m2) r).
        + cbn [fst]. eapply star_snoc; [exact S4|]. apply (P_uput e4 c4); [exact F4|now rewrite D4|now rewrite I4].
        + destruct (c_complete c).
          * pose proof (mark_done_star (fin_u e4 c) m2 r) as K. destruct (mark_done (fin_u e4 c) m2 r) as [e5 m5]. cbn [fst] in *.
            eapply star_trans; [exact S4|]. eapply star_trans; [apply (fin_u_star e4 c c4); [now rewrite Hn|exact D4]|exact K].
          * set (e5 := emit e4 (EUExec n (c_id c) (c_iter c + 1))).
            set (e6 := match u_out (r_scr r) with Some (o, v) => set_out_by (r_user r) e5 o (v + (c_iter c + 1)) | None => e5 end).
            assert (S6 : star e e6 /\ find_u e6 n = Some c4).
            { split.
              - eapply star_trans; [exact S4|]. eapply star_step; [apply (P_uexec e4 n c4 (c_id c) (c_iter c + 1)); assumption|].
                fold e5. unfold e6. destruct (u_out (r_scr r)) as [[o v]|]; [apply star_one; apply P_out|apply star_refl].
              - unfold e6, e5. destruct (u_out (r_scr r)) as [[o v]|]; exact F4. }
            destruct S6 as [S6 F6]. clearbody e6.
            destruct (match u_fail (r_scr r) with Some k => Z.of_nat k <=? c_iter c + 1 | None => false end).
            -- destruct (mark_cancelled_raises (tk e6 m2) r).
               ++ cbn [fst]. eapply star_snoc; [exact S6|]. apply (P_uput e6 c4); [exact F6|now rewrite D4|now rewrite I4].
               ++ match goal with |- context [mark_done ?a ?b ?c0] =>
                    pose proof (mark_done_star a b c0) as K; destruct (mark_done a b c0) as [e7 m7] end.
                  cbn [fst] in *. eapply star_trans; [exact S6|]. eapply star_trans; [apply note_cancel_m_star|].
                  assert (Fn : find_u (note_cancel_m e6 m2 r) n = Some c4) by (now rewrite find_u_note_cancel_m).
                  match type of K with star (fin_u (put_u ?x ?c') _) _ =>
                    apply (star_step _ (put_u x c')); [apply (P_uput x c4 c'); [exact Fn|now rewrite D4|now rewrite I4]|];
                    eapply star_trans; [|exact K];
                    apply (fin_u_star (put_u x c') c' c'); [apply (find_u_put x c4 c'); exact Fn|reflexivity] end.
            -- destruct (Z.of_nat (u_dur (r_scr r)) <=? c_iter c + 1).
               ++ match goal with |- context [mark_done ?a ?b ?c0] =>
                    pose proof (mark_done_star a b c0) as K; destruct (mark_done a b c0) as [e8 m8] end.
                  cbn [fst] in *. eapply star_trans; [exact S6|].
                  match type of K with star (fin_u (put_u ?x ?c') _) _ =>
                    apply (star_step _ (put_u x c')); [apply (P_uput x c4 c'); [exact F6|now rewrite D4|now rewrite I4]|];
                    eapply star_trans; [|exact K];
                    apply (fin_u_star (put_u x c') c' c'); [apply (find_u_put x c4 c'); exact F6|reflexivity] end.
               ++ cbn [fst]. eapply star_snoc; [exact S6|]. apply (P_uput e6 c4); [exact F6|now rewrite D4|now rewrite I4]. }
    destruct (find_u e2 n) as [c|] eqn:Ef.
    - apply Tail; [exact Ef|exact S02].
    - set (c := {| c_name := n; c_id := r_id r; c_init := false; c_started := false; c_iter := -1; c_complete := false;
                   c_cancelled := false |}).
      apply Tail.
      + apply (find_u_add e2 c). exact Ef.
      + eapply star_snoc; [exact S02|]. apply (P_uadd e2 c); [exact Ef|reflexivity].
  Qed.

  Lemma exec_loop_star todo : forall e m, star e (fst (fst (exec_loop safe overlaps e m todo))).
  Proof.
    induction todo as [|r todo IH]; intros e m; cbn [exec_loop]; [apply star_refl|].
    destruct (memn (r_id r) (m_done e m)); [apply IH|].
    destruct (r_name r) as [n|n].
    - pose proof (exec_internal_star e m r n) as K. destruct (exec_internal safe e m r n) as [[e1 m1] raised]. cbn [fst] in K.
      destruct raised; cbn [fst]; [exact K|]. eapply star_trans; [exact K|apply IH].
    - pose proof (exec_uod_star e m r n) as K. destruct (exec_uod overlaps e m r n) as [[e1 m1] raised]. cbn [fst] in K.
      destruct raised; cbn [fst]; [exact K|]. eapply star_trans; [exact K|apply IH].
  Qed.

  Lemma execute_commands_star e : star e (fst (execute_commands safe overlaps e)).
  Proof.
    unfold execute_commands.
    set (e0 := set_mgr e (rev (que e) ++ exe e) [] [] (restart_pending e)).
    pose proof (exec_loop_star (exe e0) e0 None) as K.
    destruct (exec_loop safe overlaps e0 None (exe e0)) as [[e1 m1] raised]. cbn [fst] in *.
    eapply star_step; [apply (P_mgr e)|]. fold e0.
    destruct m1; [exact K|]. eapply star_snoc; [exact K|apply P_mgr].
  Qed.

  Lemma fold_schedule_star l : forall e, star e (fold_left schedule l e).
  Proof.
    induction l as [|r l IH]; intros e; cbn [fold_left]; [apply star_refl|].
    eapply star_step; [unfold schedule; apply P_mgr|apply IH].
  Qed.

  Lemma tick_star e i : star e (tick safe overlaps e i).
  Proof.
    unfold tick.
    set (e0 := set_now e (t_time i) (t_write_ok i)).
    set (e1 := if t_read_ok i then e0 else if last_err e0 then e0 else set_error_state e0).
    assert (S1 : star e e1).
    { eapply star_step; [apply (P_now e)|]. fold e0. unfold e1.
      destruct (t_read_ok i); [apply star_refl|]. destruct (last_err e0); [apply star_refl|apply star_one; apply P_error]. }
    set (e2 := if interp_runs e1 then _ else e1).
    assert (S2 : star e1 e2).
    { unfold e2. destruct (interp_runs e1); [|apply star_refl].
      set (e' := fold_left schedule (t_interp i) e1).
      assert (Sq : star e1 e') by apply fold_schedule_star.
      set (e'' := match iticks e' with O => set_iticks e' 1 | S O => set_iticks (root_push e') 2 | _ => e' end).
      assert (Sr : star e' e'').
      { unfold e''. destruct (iticks e') as [|[|k]]; [apply star_one; apply P_iticks| |apply star_refl].
        eapply star_step; [apply P_root|]. apply star_one. apply P_iticks. }
      destruct (t_interp_raises i).
      - eapply star_trans; [exact Sq|]. eapply star_snoc; [exact Sr|apply P_error].
      - eapply star_trans; eauto. }
    set (e3 := if started e2 then update_clocks e2 (t_dt i) else e2).
    assert (S3 : star e2 e3) by (unfold e3; destruct (started e2) eqn:Es2; [apply star_one; apply P_clocks; exact Es2|apply star_refl]).
    pose proof (execute_commands_star e3) as K.
    destruct (execute_commands safe overlaps e3) as [e4 raised]. cbn [fst] in K.
    set (e5 := if raised then set_error_state e4 else e4).
    assert (S5 : star e4 e5) by (unfold e5; destruct raised; [apply star_one; apply P_error|apply star_refl]).
    eapply star_trans; [exact S1|]. eapply star_trans; [exact S2|]. eapply star_trans; [exact S3|].
    eapply star_trans; [exact K|]. eapply star_snoc; [exact S5|apply P_write].
  Qed.

  Theorem step_star e o : star e (fst (step safe overlaps e o)).
  Proof.
    destruct o as [i|r n|r|o v|]; cbn [step fst].
    - apply tick_star.
    - destruct (validate e n); cbn [fst]; [|apply star_refl]. apply star_one. unfold schedule. apply P_mgr.
    - apply star_one. unfold schedule. apply P_mgr.
    - apply star_one. apply P_out.
    - apply star_refl.
  Qed.

  (* the transfer principle *)
  Theorem invariant_by_prims (Q : E -> Prop) :
    (forall e e', prim e e' -> Q e -> Q e') ->
    forall ops e, Q e -> Q (fold_left (fun e o => fst (step safe overlaps e o)) ops e).
  Proof.
    intros H. assert (Hs : forall a b, star a b -> Q a -> Q b) by (induction 1; eauto).
    induction ops as [|o ops IH]; intros e Qe; cbn [fold_left]; [exact Qe|].
    apply IH. eapply Hs; [apply step_star|exact Qe].
  Qed.
End Prims.
