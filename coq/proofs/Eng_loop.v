(* C06, second part: the execute loop, the tick and the reachability theorem. *)
From Coq Require Import ZArith List Bool Arith Lia.
From OP Require Import lib.Obs model.Eng proofs.Eng_state.
Import ListNotations.
Open Scope Z_scope.

(* ---------- what else the execute loop maintains ---------- *)
(* requests without durations and without scripted failures (the fault-free, untimed domain) *)
Definition tracked_ok (r : request) : Prop :=
  match r_name r with
  | CI Start | CI Stop | CI Restart | CU _ => True
  | CI _ => r_tracked r = true
  end.
Definition req_ok (r : request) : Prop := r_dur r = None /\ u_fail (r_scr r) = None /\ tracked_ok r.
Definition lists (e : E) := (exe e, que e, restart_pending e).
Definition lists_ok (e : E) : Prop :=
  Forall req_ok (exe e) /\ Forall req_ok (que e) /\ (forall r, restart_pending e = Some r -> req_ok r).
(* between two requests of the loop the registry holds only Stop / Restart instances that have yielded *)
Definition inst_ok (c : icmd) : Prop :=
  (i_name c = Stop \/ i_name c = Restart) /\ (1 <= i_pc c)%nat /\ i_durarg c = None.
Definition reg_ok (e : E) : Prop := forall c, In c (reg e) -> inst_ok c.
(* every instance of e' is an instance of e up to its cancelled / complete flags *)
Definition reg_le (e' e : E) : Prop :=
  forall x, In x (reg e') -> exists y, In y (reg e) /\ i_name x = i_name y /\ i_pc x = i_pc y /\ i_durarg x = i_durarg y.

Lemma reg_le_refl e : reg_le e e.
Proof. intros x H. exists x. auto. Qed.
Lemma reg_le_trans a b c : reg_le a b -> reg_le b c -> reg_le a c.
Proof.
  intros H1 H2 x Hx. destruct (H1 x Hx) as [y [Hy [E1 [E2 E3]]]]. destruct (H2 y Hy) as [z [Hz [F1 [F2 F3]]]].
  exists z. repeat split; congruence.
Qed.
Lemma reg_le_eq e' e : reg e' = reg e -> reg_le e' e.
Proof. intros H x Hx. rewrite H in Hx. exists x. auto. Qed.
Lemma reg_le_drop e n : reg_le (drop_i e n) e.
Proof. intros x Hx. cbn in Hx. apply filter_In in Hx as [Hx _]. exists x. auto. Qed.
Lemma reg_le_put e c y : In y (reg e) -> i_name c = i_name y -> i_pc c = i_pc y -> i_durarg c = i_durarg y ->
  reg_le (put_i e c) e.
Proof.
  intros Hy E1 E2 E3 x Hx. cbn in Hx. apply in_map_iff in Hx as [z [Hz Hin]].
  destruct (iname_eqb (i_name z) (i_name c)); subst x; [exists y|exists z]; auto.
Qed.
Lemma reg_ok_le e' e : reg_le e' e -> reg_ok e -> reg_ok e'.
Proof.
  intros H R x Hx. destruct (H x Hx) as [y [Hy [E1 [E2 E3]]]]. destruct (R y Hy) as [A [B C]].
  unfold inst_ok. rewrite E1, E2, E3. auto.
Qed.

Lemma lists_mark_done e m r : lists (fst (mark_done e m r)) = lists e.
Proof. unfold mark_done. destruct (existsb _ _); [|reflexivity]. destruct m as [[x d]|]; reflexivity. Qed.
Lemma reg_mark_done e m r : reg (fst (mark_done e m r)) = reg e.
Proof. exact (core_reg _ _ (core_mark_done e m r)). Qed.

Lemma lists_note_cancel e r : lists (note_cancel e r) = lists e.
Proof. unfold note_cancel. destruct (r_name r) as [[]|]; try reflexivity; destruct (trk e); reflexivity. Qed.
Lemma reg_note_cancel e r : reg (note_cancel e r) = reg e.
Proof. exact (core_reg _ _ (core_note_cancel e r)). Qed.
Lemma lists_note_cancel_m e m r : lists (note_cancel_m e m r) = lists e.
Proof. destruct m; [reflexivity|apply lists_note_cancel]. Qed.
Lemma reg_note_cancel_m e m r : reg (note_cancel_m e m r) = reg e.
Proof. destruct m; [reflexivity|apply reg_note_cancel]. Qed.
Lemma untracked_tk e m r : untracked (tk e m) r = true -> untracked e r = true.
Proof. destruct m as [x|]; [|exact id]. unfold untracked. cbn [tk set_trk trk]. destruct (r_name r) as [[]|]; discriminate. Qed.
Lemma lists_unpause e : lists (unpause_body e) = lists e.
Proof. unfold unpause_body. destruct (prev _); reflexivity. Qed.
Lemma lists_unhold e : lists (unhold_body e) = lists e.
Proof. unfold unhold_body. destruct (paused e); reflexivity. Qed.

Lemma cancel_request_frame e m r :
  lists (fst (cancel_request e m r)) = lists e /\ reg_le (fst (cancel_request e m r)) e.
Proof.
  unfold cancel_request. destruct (r_name r) as [n|n].
  - destruct (find_i e n) as [c|] eqn:Ef; [|split; [reflexivity|apply reg_le_refl]].
    destruct (find_i_spec _ _ _ Ef) as [Hin Hn].
    destruct (i_complete c).
    + rewrite lists_mark_done. split; [reflexivity|]. intros x Hx. rewrite reg_mark_done in Hx. now apply (reg_le_drop e n).
    + set (e1 := match n with Pause => unpause_body e | Hold => unhold_body e | _ => e end).
      assert (L1 : lists e1 = lists e /\ reg e1 = reg e).
      { unfold e1. destruct n; try (split; reflexivity).
        - split; [apply lists_unpause|]. unfold unpause_body. destruct (prev _); reflexivity.
        - split; [apply lists_unhold|]. unfold unhold_body. destruct (paused e); reflexivity. }
      destruct L1 as [L1 R1].
      destruct (mark_cancelled_raises (tk e1 m) r).
      * cbn [fst]. split; [exact L1|]. apply (reg_le_trans _ e1); [|now apply reg_le_eq].
        apply (reg_le_put e1 _ c); try reflexivity. now rewrite R1.
      * rewrite lists_mark_done. split; [cbn; rewrite <- L1; apply lists_note_cancel_m|].
        intros x Hx. rewrite reg_mark_done in Hx. cbn in Hx. apply filter_In in Hx as [Hx _].
        rewrite reg_note_cancel_m, R1 in Hx. exists x. auto.
  - match goal with |- context [match ?X with None => cancel_unstarted _ _ _ | Some _ => _ end] => destruct X as [c|] end.
    2:{ unfold cancel_unstarted. pose proof (lists_mark_done e m r) as LM. pose proof (reg_mark_done e m r) as RM.
        destruct (mark_done e m r) as [e1 m1]. cbn [fst] in LM, RM.
        destruct (mark_cancelled_raises (tk e1 m1) r); cbn [fst].
        - split; [exact LM|apply reg_le_eq; exact RM].
        - split; [now rewrite lists_note_cancel_m|apply reg_le_eq; now rewrite reg_note_cancel_m]. }
    destruct (c_complete c).
    + rewrite lists_mark_done. split; [reflexivity|]. apply reg_le_eq. now rewrite reg_mark_done.
    + destruct (mark_cancelled_raises (tk e m) r).
      * cbn [fst]. split; [reflexivity|apply reg_le_eq; reflexivity].
      * rewrite lists_mark_done. split; [cbn; apply lists_note_cancel_m|].
        apply reg_le_eq. rewrite reg_mark_done. cbn. apply reg_note_cancel_m.
Qed.

Lemma cancel_all_frame e m src :
  lists (fst (cancel_all e m src)) = lists e /\ reg_le (fst (cancel_all e m src)) e.
Proof.
  unfold cancel_all.
  set (f := fun (em : E * mgr) (r : request) =>
              if cname_eqb (r_name r) (CI src) then em else cancel_request (fst em) (snd em) r).
  assert (G : forall l em, lists (fst (fold_left f l em)) = lists (fst em) /\ reg_le (fst (fold_left f l em)) (fst em)).
  { induction l as [|r l IH]; intros em; cbn [fold_left]; [split; [reflexivity|apply reg_le_refl]|].
    destruct (IH (f em r)) as [L R].
    assert (S : lists (fst (f em r)) = lists (fst em) /\ reg_le (fst (f em r)) (fst em)).
    { unfold f. destruct (cname_eqb _ _); [split; [reflexivity|apply reg_le_refl]|apply cancel_request_frame]. }
    destruct S as [S1 S2]. split; [congruence|eapply reg_le_trans; eauto]. }
  specialize (G (exe e) (e, None)). cbn [fst] in G. destruct (fold_left f (exe e) (e, None)) as [e' m']. exact G.
Qed.

(* a UOD request never touches what the invariant reads *)
Lemma cancel_request_uod_core e m r n : r_name r = CU n -> core (fst (cancel_request e m r)) = core e.
Proof.
  intros H. unfold cancel_request. rewrite H.
  match goal with |- context [match ?X with None => cancel_unstarted _ _ _ | Some _ => _ end] => destruct X as [c|] end;
    [|apply core_cancel_unstarted].
  destruct (c_complete c).
  - rewrite core_mark_done. reflexivity.
  - destruct (mark_cancelled_raises (tk e m) r); [reflexivity|]. rewrite core_mark_done. cbn. apply core_note_cancel_m.
Qed.

(* ---------- one tick of an internal command ---------- *)
Lemma lists_ok_eq e' e : lists e' = lists e -> lists_ok e -> lists_ok e'.
Proof. unfold lists, lists_ok. intros H. inversion H as [[H1 H2 H3]]. now rewrite H1, H2, H3. Qed.

Lemma lists_ok_after_reset e e' :
  lists_ok e -> exe e' = match restart_pending e with Some r => [r] | None => [] end -> que e' = [] ->
  restart_pending e' = None -> lists_ok e'.
Proof.
  intros [A [B C]] H1 H2 H3. unfold lists_ok. rewrite H1, H2, H3. repeat split; try constructor; try discriminate.
  destruct (restart_pending e) as [r|] eqn:E; constructor; [now apply C|constructor].
Qed.

Lemma not_stopped_started e : Inv e -> sys e <> Stopped -> started e = true.
Proof. intros I H. destruct (started e) eqn:S; [reflexivity|]. destruct (inv_stopped e I S) as [K _]. congruence. Qed.

Lemma sys_eqb_false a b : sys_eqb a b = false -> a <> b.
Proof. intros H K. subst. destruct b; discriminate. Qed.

Definition unit_ok (c : icmd) (e : E) : Prop :=
  match i_name c with Pause | Unpause | Hold | Unhold => started e = true /\ i_pc c = O | _ => True end.

Lemma run_icmd_ok safe e m c :
  Inv e -> lists_ok e -> In c (reg e) -> i_durarg c = None -> unit_ok c e ->
  (i_name c = Restart -> i_pc c = O -> sys e <> Restarting) ->
  let '(e1, m1, c1, o) := run_icmd safe e m c in
  Inv e1 /\ lists_ok e1 /\ reg_le e1 e /\
  match o with
  | Yielded => i_name c1 = i_name c /\ inst_ok c1 /\ i_cancelled c1 = false /\ i_complete c1 = false
  | Finished _ => i_name c <> Restart \/ sys e1 <> Restarting
  end.
Proof.
  intros I L Hin Hd U Hr. unfold run_icmd.
  destruct (i_name c) eqn:En.
  - (* Start *)
    destruct (started e) eqn:S.
    + split; [exact I|split; [exact L|split; [apply reg_le_refl|left; discriminate]]].
    + destruct (Inv_start_body e I S) as [J1 [J2 [J3 J4]]].
      split; [exact J1|split; [|split; [now apply reg_le_eq|left; discriminate]]].
      apply (lists_ok_eq _ e); [reflexivity|exact L].
  - (* Stop *)
    destruct (i_pc c) eqn:Ep.
    + destruct (sys_eqb (sys e) Stopped || sys_eqb (sys e) Restarting) eqn:Es.
      * split; [exact I|split; [exact L|split; [apply reg_le_refl|left; discriminate]]].
      * apply orb_false_iff in Es as [Es1 Es2]. apply sys_eqb_false in Es1, Es2.
        pose proof (not_stopped_started e I Es1) as S.
        set (e1 := stop_begin e).
        assert (A1 : alive e1) by (split; [now apply (Inv_core e)|exact S]).
        pose proof (cancel_all_alive e1 m Stop A1 (or_intror Es2)) as [[I2 S2] N2].
        pose proof (cancel_all_frame e1 m Stop) as [L2 R2].
        destruct (cancel_all e1 m Stop) as [e2 m2]. cbn [fst] in *.
        split; [exact I2|split; [|split]].
        -- apply (lists_ok_eq _ e1); [exact L2|]. now apply (lists_ok_eq _ e).
        -- eapply reg_le_trans; [exact R2|now apply reg_le_eq].
        -- cbn. unfold inst_ok. cbn. repeat split; auto; try lia.
    + destruct (stop_finish_ok safe e m I) as [J [Jr [Jx [Jq Jp]]]].
      destruct (stop_finish safe e m) as [e7 m7]. cbn [fst] in *.
      split; [exact J|split; [|split; [|left; discriminate]]].
      * now apply (lists_ok_after_reset e).
      * now apply reg_le_eq.
  - (* Pause *)
    unfold unit_ok in U. rewrite En in U. destruct U as [S P0]. rewrite P0, Hd.
    destruct (pause_begin_facts safe e) as [_ [_ [_ [_ [Q5 [_ [_ [_ [_ [Q10 [Q11 Q12]]]]]]]]]]].
    split; [now apply Inv_pause_begin|split; [|split; [now apply reg_le_eq|left; discriminate]]].
    destruct L as [A [B C]]. unfold lists_ok. rewrite Q10, Q11, Q12. auto.
  - (* Unpause *)
    unfold unit_ok in U. rewrite En in U. destruct U as [S _].
    destruct (Inv_unpause e I S) as [J1 [J2 [J3 J4]]].
    split; [exact J1|split; [|split; [now apply reg_le_eq|left; discriminate]]].
    apply (lists_ok_eq _ e); [apply lists_unpause|exact L].
  - (* Hold *)
    unfold unit_ok in U. rewrite En in U. destruct U as [S P0]. rewrite P0, Hd.
    split; [now apply Inv_hold_begin|split; [|split; [|left; discriminate]]].
    + unfold hold_begin. destruct (paused e); exact L.
    + apply reg_le_eq. unfold hold_begin. destruct (paused e); reflexivity.
  - (* Unhold *)
    unfold unit_ok in U. rewrite En in U. destruct U as [S _].
    destruct (Inv_unhold e I S) as [J1 [J2 [J3 J4]]].
    split; [exact J1|split; [|split; [now apply reg_le_eq|left; discriminate]]].
    apply (lists_ok_eq _ e); [apply lists_unhold|exact L].
  - (* Restart *)
    destruct (i_pc c) as [|[|k]] eqn:Ep.
    + destruct (sys_eqb (sys e) Stopped || sys_eqb (sys e) Restarting) eqn:Es.
      * split; [exact I|split; [exact L|split; [apply reg_le_refl|right; now apply Hr]]].
      * apply orb_false_iff in Es as [Es1 Es2]. apply sys_eqb_false in Es1, Es2.
        pose proof (not_stopped_started e I Es1) as S.
        set (e1 := restart_begin e).
        assert (A1 : alive e1).
        { split; [|exact S]. destruct I as [A B C D F W]. split; cbn; try assumption.
          - intros S'. congruence.
          - intros _. right. split; [reflexivity|]. exists c. auto. }
        pose proof (cancel_all_alive e1 m Restart A1 (or_introl eq_refl)) as [[I2 S2] N2].
        pose proof (cancel_all_frame e1 m Restart) as [L2 R2].
        destruct (cancel_all e1 m Restart) as [e2 m2]. cbn [fst] in *.
        split; [exact I2|split; [|split]].
        -- apply (lists_ok_eq _ e1); [exact L2|]. now apply (lists_ok_eq _ e).
        -- eapply reg_le_trans; [exact R2|now apply reg_le_eq].
        -- cbn. unfold inst_ok. cbn. repeat split; auto.
    + destruct (restart_mid_ok e m I) as [J [Jr [Jx [Jq Jp]]]].
      destruct (restart_mid e m) as [e3 m3]. cbn [fst] in *.
      split; [exact J|split; [|split]].
      * now apply (lists_ok_after_reset e).
      * now apply reg_le_eq.
      * cbn. unfold inst_ok. cbn. repeat split; auto; try lia.
    + destruct (restart_finish_ok e I) as [J [Jr [Js [Jx [Jq Jp]]]]].
      split; [exact J|split; [|split; [now apply reg_le_eq|right; rewrite Js; discriminate]]].
      destruct L as [A [B C]]. unfold lists_ok. rewrite Jx, Jq, Jp. auto.
  - (* Info *)
    split; [exact I|split; [exact L|split; [apply reg_le_refl|left; discriminate]]].
Qed.

(* the state carried through the execute loop *)
Record G (e : E) : Prop := { g_inv : Inv e; g_lists : lists_ok e; g_reg : reg_ok e }.

Lemma reg_ok_after_put e1 e c c1 :
  (forall y, In y (reg e) -> i_name y = i_name c \/ inst_ok y) -> reg_le e1 e ->
  i_name c1 = i_name c -> inst_ok c1 -> reg_ok (put_i e1 c1).
Proof.
  intros H R N K x Hx. cbn in Hx. apply in_map_iff in Hx as [z [Hz Hin]].
  destruct (iname_eqb (i_name z) (i_name c1)) eqn:E; [now subst x|]. subst x.
  destruct (R z Hin) as [y [Hy [E1 [E2 E3]]]]. destruct (H y Hy) as [Q|Q].
  - exfalso. rewrite <- E1, <- N in Q. apply iname_eqb_eq in Q. congruence.
  - destruct Q as [A [B C]]. unfold inst_ok. rewrite E1, E2, E3. auto.
Qed.

Lemma reg_ok_after_fin e1 e c :
  (forall y, In y (reg e) -> i_name y = i_name c \/ inst_ok y) -> reg_le e1 e -> reg_ok (fin_i e1 (i_name c)).
Proof.
  intros H R x Hx. cbn in Hx. apply filter_In in Hx as [Hin Hn]. apply negb_true_iff in Hn.
  destruct (R x Hin) as [y [Hy [E1 [E2 E3]]]]. destruct (H y Hy) as [Q|Q].
  - exfalso. rewrite <- E1 in Q. apply iname_eqb_eq in Q. congruence.
  - destruct Q as [A [B C]]. unfold inst_ok. rewrite E1, E2, E3. auto.
Qed.

Lemma tick_icmd_ok safe e m c :
  Inv e -> lists_ok e -> In c (reg e) -> i_durarg c = None -> unit_ok c e ->
  (i_name c = Restart -> i_pc c = O -> sys e <> Restarting) ->
  (forall y, In y (reg e) -> i_name y = i_name c \/ inst_ok y) ->
  let '(e1, m1, failed, fin) := tick_icmd safe e m c in G e1.
Proof.
  intros I L Hin Hd U Hr Hy. unfold tick_icmd.
  destruct (i_complete c) eqn:Ec.
  - split.
    + apply Inv_drop_i; [exact I|]. left. intros K. destruct (inv_reg e I c Hin K). congruence.
    + exact L.
    + now apply (reg_ok_after_fin e e c Hy), reg_le_refl.
  - pose proof (run_icmd_ok safe e m c I L Hin Hd U Hr) as R.
    destruct (run_icmd safe e m c) as [[[e1 m1] c1] o]. destruct R as [I1 [L1 [R1 O1]]].
    destruct o as [|f].
    + destruct O1 as [N1 [K1 [C1 C2]]]. split.
      * apply Inv_put_i; auto.
      * exact L1.
      * now apply (reg_ok_after_put e1 e c c1).
    + split.
      * now apply Inv_drop_i.
      * exact L1.
      * now apply (reg_ok_after_fin e1 e c).
Qed.

Lemma G_mark_done e m r : G e -> G (fst (mark_done e m r)).
Proof.
  intros [I L R]. split.
  - now apply (Inv_core _ _ (core_mark_done e m r)).
  - now apply (lists_ok_eq _ _ (lists_mark_done e m r)).
  - intros c Hc. rewrite reg_mark_done in Hc. now apply R.
Qed.

Lemma untracked_started e r : Inv e -> untracked e r = true -> started e = true.
Proof.
  intros I H. rewrite <- (inv_trk e I). unfold untracked in H.
  destruct (r_name r) as [[]|]; try discriminate; apply andb_true_iff in H as [H _]; exact H.
Qed.

(* what the loop needs to know after a request: the state is fine, and if it raised a run is active *)
Definition after (er : E * mgr * bool) : Prop :=
  G (fst (fst er)) /\ (snd er = true -> started (fst (fst er)) = true).

Lemma req_ok_tracked e r n : req_ok r -> r_name r = CI n -> untracked e r = false.
Proof.
  intros [_ [_ T]] H. unfold untracked, tracked_ok in *. rewrite H in *.
  destruct n; try reflexivity; rewrite T; apply andb_false_r.
Qed.

Lemma req_ok_tracked_tk e m r n : req_ok r -> r_name r = CI n -> untracked (tk e m) r = false.
Proof.
  intros Hr Hn. destruct (untracked (tk e m) r) eqn:E; [|reflexivity].
  apply untracked_tk in E. now rewrite (req_ok_tracked e r n Hr Hn) in E.
Qed.

Lemma exec_internal_ok safe e m r n :
  G e -> req_ok r -> r_name r = CI n -> after (exec_internal safe e m r n).
Proof.
  intros [I L R] Hreq Hname. pose proof Hreq as [Hd _]. unfold exec_internal.
  destruct (find_i e n) as [c|] eqn:Ef.
  - destruct (find_i_spec _ _ _ Ef) as [Hin Hn]. destruct (R c Hin) as [Nm [Pc Dr]].
    destruct (i_cancelled c) eqn:Ecc.
    + assert (Gd : G (fin_i e n)).
      { split; [|exact L|].
        - apply Inv_drop_i; [exact I|]. left. intros K. rewrite K in Hn. destruct (inv_reg e I c Hin Hn). congruence.
        - intros x Hx. cbn in Hx. apply filter_In in Hx as [Hx _]. now apply R. }
      pose proof (G_mark_done (fin_i e n) m r Gd) as Gm.
      destruct (mark_done (fin_i e n) m r) as [e1 m1]. cbn [fst] in *. split; [exact Gm|].
      cbn. rewrite (req_ok_tracked_tk e1 m1 r n Hreq Hname). discriminate.
    + assert (U : unit_ok c e) by (unfold unit_ok; destruct Nm as [K|K]; rewrite K; exact Logic.I).
      assert (Hr : i_name c = Restart -> i_pc c = O -> sys e <> Restarting) by (intros _ K; lia).
      assert (Hy : forall y, In y (reg e) -> i_name y = i_name c \/ inst_ok y) by (intros y K; right; now apply R).
      pose proof (tick_icmd_ok safe e m c I L Hin Dr U Hr Hy) as T.
      destruct (tick_icmd safe e m c) as [[[e1 m1] failed] fin].
      destruct (failed || fin).
      * pose proof (G_mark_done e1 m1 r T) as Gm. destruct (mark_done e1 m1 r) as [e2 m2]. cbn [fst] in *.
        split; [exact Gm|]. cbn. rewrite (req_ok_tracked_tk e2 m2 r n Hreq Hname). discriminate.
      * split; [exact T|]. cbn. discriminate.
  - destruct ((match n with Pause | Unpause | Hold | Unhold => true | _ => false end) && negb (started e)) eqn:Efix.
    + pose proof (G_mark_done e m r (Build_G e I L R)) as Gm. destruct (mark_done e m r) as [e1 m1].
      split; [exact Gm|]. cbn. discriminate.
    + set (c := mk_icmd r n).
      set (e0 := set_cmds e (reg e ++ [c]) (uods e)).
      assert (Hnone : forall y, In y (reg e) -> i_name y <> n).
      { intros y Hy K. unfold find_i in Ef. apply (find_none _ _ Ef) in Hy. rewrite K in Hy.
        assert (iname_eqb n n = true) by now apply iname_eqb_eq. congruence. }
      assert (I0 : Inv e0) by (apply Inv_add_i; [exact I|intros _; split; reflexivity]).
      set (e1 := match n with
                 | Restart => match m with None => set_mgr e0 (exe e0) (done e0) (que e0) (Some r) | Some _ => e0 end
                 | _ => e0 end).
      assert (K1 : core e1 = core e0 /\ reg e1 = reg e0 /\ lists_ok e1).
      { unfold e1. assert (L0 : lists_ok e0) by exact L.
        destruct n; try (split; [reflexivity|split; [reflexivity|exact L0]]).
        destruct m; [split; [reflexivity|split; [reflexivity|exact L0]]|].
        split; [reflexivity|split; [reflexivity|]]. destruct L0 as [A [B C]]. unfold lists_ok. cbn.
        split; [exact A|split; [exact B|]]. intros r' Hr'. inversion Hr'; subst. exact Hreq. }
      destruct K1 as [C1 [R1 L1]].
      assert (I1 : Inv e1) by now apply (Inv_core e0).
      rewrite (req_ok_tracked_tk e1 m r n Hreq Hname).
      assert (Hin : In c (reg e1)) by (rewrite R1; cbn; apply in_or_app; right; now left).
      assert (U : unit_ok c e1).
      { unfold unit_ok. cbn. rewrite (core_started _ _ C1). cbn.
        destruct n; try exact Logic.I; cbn in Efix; destruct (started e); try discriminate; auto. }
      assert (Hr : i_name c = Restart -> i_pc c = O -> sys e1 <> Restarting).
      { cbn. intros K _. subst n. rewrite (core_sys _ _ C1). cbn. intros Ks.
        destruct (started e) eqn:S.
        - destruct (inv_active e I S) as [Q|[_ [y [Hy1 Hy2]]]].
          + rewrite Ks in Q. unfold fsys in Q. destruct (paused e), (holding e); discriminate.
          + exact (Hnone y Hy1 Hy2).
        - destruct (inv_stopped e I S) as [Q _]. congruence. }
      assert (Hy : forall y, In y (reg e1) -> i_name y = i_name c \/ inst_ok y).
      { intros y Hy. rewrite R1 in Hy. cbn in Hy. apply in_app_or in Hy as [Hy|[<-|[]]]; [right; now apply R|now left]. }
      pose proof (tick_icmd_ok safe e1 m c I1 L1 Hin Hd U Hr Hy) as T.
      destruct (tick_icmd safe e1 m c) as [[[e2 m2] failed] fin].
      destruct (failed || fin).
      * pose proof (G_mark_done e2 m2 r T) as Gm. destruct (mark_done e2 m2 r) as [e3 m3]. cbn [fst] in *.
        split; [exact Gm|]. cbn. rewrite (req_ok_tracked_tk e3 m3 r n Hreq Hname). discriminate.
      * split; [exact T|]. cbn. discriminate.
Qed.

(* ---------- UOD commands never touch the run state ---------- *)
Definition same (e' e : E) : Prop := core e' = core e /\ lists e' = lists e.
Lemma same_refl e : same e e. Proof. split; reflexivity. Qed.
Lemma same_trans a b c : same a b -> same b c -> same a c.
Proof. intros [A1 A2] [B1 B2]. split; congruence. Qed.
Lemma G_same e' e : same e' e -> G e -> G e'.
Proof.
  intros [C L] [I Ls R]. split; [now apply (Inv_core e)|now apply (lists_ok_eq _ e)|].
  intros c Hc. rewrite (core_reg _ _ C) in Hc. now apply R.
Qed.

Lemma same_mark_done e m r : same (fst (mark_done e m r)) e.
Proof. split; [apply core_mark_done|apply lists_mark_done]. Qed.

Lemma cancel_uod_same e m r n : r_name r = CU n -> same (fst (cancel_request e m r)) e.
Proof. intros H. split; [now apply (cancel_request_uod_core e m r n)|apply cancel_request_frame]. Qed.

Lemma exec_uod_same overlaps e m r n :
  u_fail (r_scr r) = None ->
  let res := exec_uod overlaps e m r n in
  same (fst (fst res)) e /\ (snd res = true -> trk e = true).
Proof.
  intros Hf. unfold exec_uod.
  (* the two cancellation passes *)
  set (f1 := fun (em : E * mgr) (c : request) =>
               if cname_eqb (r_name c) (CU n) && negb (Nat.eqb (r_id c) (r_id r))
               then cancel_request (fst em) (snd em) c else em).
  assert (F1 : forall l em, same (fst (fold_left f1 l em)) (fst em)).
  { induction l as [|c l IH]; intros em; cbn [fold_left]; [apply same_refl|].
    eapply same_trans; [apply IH|]. unfold f1.
    destruct (cname_eqb (r_name c) (CU n)) eqn:Ec; cbn [andb]; [|apply same_refl].
    destruct (negb _); [|apply same_refl].
    destruct (r_name c) as [x|k] eqn:En; cbn in Ec; [discriminate|]. now apply (cancel_uod_same _ _ _ k). }
  pose proof (F1 (current e m) (e, m)) as S1. cbn [fst] in S1.
  destruct (fold_left f1 (current e m) (e, m)) as [e1 m1]. cbn [fst] in S1.
  set (f2 := fun (em : E * mgr) (c : request) =>
               match r_name c with
               | CU k => if negb (Nat.eqb (r_id c) (r_id r)) && overlapping overlaps k n
                         then cancel_request (fst em) (snd em) c else em
               | _ => em end).
  assert (F2 : forall l em, same (fst (fold_left f2 l em)) (fst em)).
  { induction l as [|c l IH]; intros em; cbn [fold_left]; [apply same_refl|].
    eapply same_trans; [apply IH|]. unfold f2.
    destruct (r_name c) as [x|k] eqn:En; [apply same_refl|].
    destruct (_ && _); [|apply same_refl]. now apply (cancel_uod_same _ _ _ k). }
  pose proof (F2 (current e1 m1) (e1, m1)) as S2. cbn [fst] in S2.
  destruct (fold_left f2 (current e1 m1) (e1, m1)) as [e2 m2]. cbn [fst] in S2.
  assert (S02 : same e2 e) by (eapply same_trans; eauto).
  destruct (find_u e2 n) as [c|].
  - (* existing instance *)
    destruct (c_cancelled c).
    + pose proof (same_mark_done (fin_u e2 c) m2 r) as K. destruct (mark_done (fin_u e2 c) m2 r) as [e5 m5].
      cbn [fst snd] in *. split; [|discriminate]. eapply same_trans; [exact K|]. eapply same_trans; [|exact S02]. split; reflexivity.
    + set (e4 := if c_init c then e2 else put_u (emit e2 (EUInit n (c_id c))) (inited c)).
      assert (S4 : same e4 e2) by (unfold e4; destruct (c_init c); split; reflexivity).
      destruct (negb (c_started c) && untracked (tk e4 m2) r) eqn:Eu.
      * cbn [fst snd]. split.
        -- eapply same_trans; [|exact S02]. eapply same_trans; [|exact S4]. split; reflexivity.
        -- intros _. apply andb_true_iff in Eu as [_ Eu]. apply untracked_tk in Eu. unfold untracked in Eu.
           assert (T : trk e4 = trk e).
           { destruct S4 as [C4 _]. destruct S02 as [C2 _]. unfold core in *. inversion C4. inversion C2. congruence. }
           rewrite <- T. destruct (r_name r) as [[]|]; try discriminate; apply andb_true_iff in Eu as [Eu _]; exact Eu.
      * destruct (c_complete c).
        -- pose proof (same_mark_done (fin_u e4 c) m2 r) as K. destruct (mark_done (fin_u e4 c) m2 r) as [e5 m5].
           cbn [fst snd] in *. split; [|discriminate].
           eapply same_trans; [exact K|]. eapply same_trans; [|exact S02]. eapply same_trans; [|exact S4]. split; reflexivity.
        -- rewrite Hf.
           set (e5 := emit e4 (EUExec n (c_id c) (c_iter c + 1))).
           set (e6 := match u_out (r_scr r) with Some (o, v) => set_out_by (r_user r) e5 o (v + (c_iter c + 1)) | None => e5 end).
           assert (S6 : same e6 e4) by (unfold e6, e5; destruct (u_out (r_scr r)) as [[o v]|]; split; reflexivity).
           destruct (Z.of_nat (u_dur (r_scr r)) <=? c_iter c + 1).
           ++ match goal with |- context [mark_done ?a ?b ?c] =>
                pose proof (same_mark_done a b c) as K; destruct (mark_done a b c) as [e8 m8] end.
              cbn [fst snd] in *. split; [|discriminate].
              eapply same_trans; [exact K|]. eapply same_trans; [|exact S02]. eapply same_trans; [|exact S4].
              eapply same_trans; [|exact S6]. split; reflexivity.
           ++ cbn [fst snd]. split; [|discriminate].
              eapply same_trans; [|exact S02]. eapply same_trans; [|exact S4]. eapply same_trans; [|exact S6]. split; reflexivity.
  - (* a new instance *)
    set (c := {| c_name := n; c_id := r_id r; c_init := false; c_started := false; c_iter := -1; c_complete := false;
                 c_cancelled := false |}).
    set (e3 := set_cmds e2 (reg e2) (uods e2 ++ [c])).
    assert (S3 : same e3 e2) by (split; reflexivity).
    cbn [c_cancelled c_init c_started c_complete c_id c_iter c negb andb].
    set (e4 := put_u (emit e3 (EUInit n (r_id r))) _).
    assert (S4 : same e4 e3) by (split; reflexivity).
    destruct (untracked (tk e4 m2) r) eqn:Eu.
    + cbn [fst snd]. split.
      * eapply same_trans; [|exact S02]. eapply same_trans; [|exact S3]. eapply same_trans; [|exact S4]. split; reflexivity.
      * intros _. apply untracked_tk in Eu. unfold untracked in Eu.
        assert (T : trk e4 = trk e).
        { destruct S02 as [C2 _]. unfold core in *. inversion C2. cbn. congruence. }
        rewrite <- T. destruct (r_name r) as [[]|]; try discriminate; apply andb_true_iff in Eu as [Eu _]; exact Eu.
    + rewrite Hf.
      set (e5 := emit e4 (EUExec n (r_id r) (-1 + 1))).
      set (e6 := match u_out (r_scr r) with Some (o, v) => set_out_by (r_user r) e5 o (v + (-1 + 1)) | None => e5 end).
      assert (S6 : same e6 e4) by (unfold e6, e5; destruct (u_out (r_scr r)) as [[o v]|]; split; reflexivity).
      destruct (Z.of_nat (u_dur (r_scr r)) <=? -1 + 1).
      * match goal with |- context [mark_done ?a ?b ?c] =>
          pose proof (same_mark_done a b c) as K; destruct (mark_done a b c) as [e8 m8] end.
        cbn [fst snd] in *. split; [|discriminate].
        eapply same_trans; [exact K|]. eapply same_trans; [|exact S02]. eapply same_trans; [|exact S3].
        eapply same_trans; [|exact S4]. eapply same_trans; [|exact S6]. split; reflexivity.
      * cbn [fst snd]. split; [|discriminate].
        eapply same_trans; [|exact S02]. eapply same_trans; [|exact S3]. eapply same_trans; [|exact S4].
        eapply same_trans; [|exact S6]. split; reflexivity.
Qed.

(* ---------- the execute loop, the tick, operations ---------- *)
Lemma exec_loop_ok safe overlaps todo : forall e m,
  G e -> Forall req_ok todo ->
  let res := exec_loop safe overlaps e m todo in
  G (fst (fst res)) /\ (snd res = true -> started (fst (fst res)) = true).
Proof.
  induction todo as [|r todo IH]; intros e m Ge Hok; cbn [exec_loop].
  - cbn. split; [exact Ge|discriminate].
  - inversion Hok as [|r' l' Hr Hl]; subst.
    destruct (memn (r_id r) (m_done e m)); [now apply IH|].
    destruct (r_name r) as [n|n] eqn:En.
    + pose proof (exec_internal_ok safe e m r n Ge Hr En) as [G1 R1].
      destruct (exec_internal safe e m r n) as [[e1 m1] raised]. cbn [fst snd] in *.
      destruct raised; [cbn; split; [exact G1|intros _; now apply R1]|now apply IH].
    + destruct Hr as [Hd [Hf Ht]].
      pose proof (exec_uod_same overlaps e m r n Hf) as [S1 R1].
      destruct (exec_uod overlaps e m r n) as [[e1 m1] raised]. cbn [fst snd] in *.
      pose proof (G_same e1 e S1 Ge) as G1.
      destruct raised.
      * cbn. split; [exact G1|]. intros _. rewrite <- (inv_trk e1 (g_inv e1 G1)).
        destruct S1 as [C1 _]. unfold core in C1. inversion C1. rewrite H5. now apply R1.
      * apply IH; [exact G1|]. exact Hl.
Qed.

Lemma Forall_filter {A} (P : A -> Prop) f l : Forall P l -> Forall P (filter f l).
Proof. induction 1; cbn; [constructor|]. destruct (f x); [constructor|]; auto. Qed.

Lemma execute_commands_ok safe overlaps e :
  G e -> let res := execute_commands safe overlaps e in
  G (fst res) /\ (snd res = true -> started (fst res) = true).
Proof.
  intros [I [Lx [Lq Lp]] R]. unfold execute_commands.
  set (e0 := set_mgr e (rev (que e) ++ exe e) [] [] (restart_pending e)).
  assert (G0 : G e0).
  { split; [now apply (Inv_core e)| |exact R]. unfold lists_ok. cbn. split; [|split; [constructor|exact Lp]].
    apply Forall_app. split; [|exact Lx]. apply Forall_rev. exact Lq. }
  assert (T0 : Forall req_ok (exe e0)) by (destruct G0 as [_ [A _] _]; exact A).
  pose proof (exec_loop_ok safe overlaps (exe e0) e0 None G0 T0) as [G1 R1].
  destruct (exec_loop safe overlaps e0 None (exe e0)) as [[e1 m1] raised]. cbn [fst snd] in *.
  destruct m1 as [own|]; cbn [fst snd]; [split; assumption|].
  split; [|exact R1].
  destruct G1 as [I1 [A1 [B1 C1]] R1']. split; [now apply (Inv_core e1)| |exact R1'].
  unfold lists_ok. cbn. split; [now apply Forall_filter|split; [exact B1|exact C1]].
Qed.

Lemma Inv_error_state e : Inv e -> started e = true -> Inv (set_error_state e).
Proof.
  intros [A B C D F W] S. split; cbn; try assumption.
  - intros S'. congruence.
  - intros _. now left.
Qed.

(* fault-free operations of the untimed domain *)
Definition tick_ok (i : tick_in) : Prop :=
  t_read_ok i = true /\ t_write_ok i = true /\ t_interp_raises i = false /\
  Forall (fun r => r_dur r = None /\ u_fail (r_scr r) = None) (t_interp i).
Definition op_ok (o : op) : Prop :=
  match o with
  | OTick i => tick_ok i
  | OUser r n => r_name r = CI n /\ n <> Info /\ r_dur r = None /\ u_fail (r_scr r) = None
  | OUserUod r => (exists k, r_name r = CU k) /\ r_dur r = None /\ u_fail (r_scr r) = None
  | OSetOut _ _ | ONop => True
  end.

Lemma G_schedule e r : G e -> req_ok (stamp e r) -> G (schedule e r).
Proof.
  intros [I [Lx [Lq Lp]] R] H. split; [now apply (Inv_core e)| |exact R].
  unfold lists_ok. cbn. split; [exact Lx|split; [|exact Lp]]. apply Forall_app. split; [exact Lq|]. constructor; [exact H|constructor].
Qed.

Lemma stamp_ok_running e r : started e = true -> Inv e -> r_dur r = None -> u_fail (r_scr r) = None -> req_ok (stamp e r).
Proof.
  intros S I H1 H2. unfold req_ok, stamp, tracked_ok. cbn. repeat split; auto.
  rewrite (inv_trk e I), S. destruct (r_name r) as [[]|]; auto.
Qed.

Lemma tick_G safe overlaps e i : G e -> tick_ok i -> G (tick safe overlaps e i).
Proof.
  intros Ge [Hr [Hw [Hx Hi]]]. unfold tick. rewrite Hr, Hx.
  set (e0 := set_now e (t_time i) (t_write_ok i)).
  assert (G0 : G e0).
  { destruct Ge as [[A B C D F W] L R]. split; [|exact L|exact R]. split; cbn; try assumption; try exact Hw. }
  set (e2 := if interp_runs e0 then _ else e0).
  assert (G2 : G e2).
  { unfold e2. destruct (interp_runs e0) eqn:Er; [|exact G0].
    assert (S0 : started e0 = true).
    { unfold interp_runs in Er. destruct (started e0); [reflexivity|discriminate]. }
    assert (F : forall l e', G e' -> started e' = true -> Forall (fun r => r_dur r = None /\ u_fail (r_scr r) = None) l ->
                  G (fold_left schedule l e') /\ started (fold_left schedule l e') = true).
    { induction l as [|r l IH]; intros e' Ge' S' Hl; cbn [fold_left]; [auto|].
      inversion Hl as [|r' l' [H1 H2] Hl']; subst. apply IH; [|exact S'|exact Hl'].
      apply G_schedule; [exact Ge'|]. now apply stamp_ok_running; [|apply Ge'| |]. }
    destruct (F (t_interp i) e0 G0 S0 Hi) as [G1 S1].
    set (e' := fold_left schedule (t_interp i) e0) in *.
    destruct (iticks e') as [|[|k]]; try exact G1; (eapply G_same; [|exact G1]; split; reflexivity). }
  set (e3 := if started e2 then update_clocks e2 (t_dt i) else e2).
  assert (G3 : G e3).
  { unfold e3. destruct (started e2); [|exact G2]. eapply G_same; [|exact G2].
    split; [apply core_update_clocks|]. unfold update_clocks, advance_clocks. cbv zeta. destruct (bpaused e2 || negb (sys_eqb (sys e2) Running)); reflexivity. }
  pose proof (execute_commands_ok safe overlaps e3 G3) as [G4 R4].
  destruct (execute_commands safe overlaps e3) as [e4 raised]. cbn [fst snd] in *.
  set (e5 := if raised then set_error_state e4 else e4).
  assert (G5 : G e5).
  { unfold e5. destruct raised; [|exact G4]. destruct G4 as [I4 L4 Rg4].
    split; [apply Inv_error_state; [exact I4|now apply R4]|exact L4|exact Rg4]. }
  eapply G_same; [|exact G5]. pose proof (inv_wok e5 (g_inv e5 G5)) as W5.
  split; [now apply core_write_image|]. unfold write_image. destruct (negb (started e5)); [reflexivity|]. rewrite W5. reflexivity.
Qed.

Lemma validate_started e n : Inv e -> validate e n = true ->
  match n with Pause | Unpause | Hold | Unhold => started e = true | _ => True end.
Proof.
  intros I V. destruct n; try exact Logic.I; cbn in V;
    apply andb_true_iff in V as [V _]; apply negb_true_iff in V; apply orb_false_iff in V as [V _];
    apply sys_eqb_false in V; now apply not_stopped_started.
Qed.

Lemma step_G safe overlaps e o : G e -> op_ok o -> G (fst (step safe overlaps e o)).
Proof.
  intros Ge Ho. destruct o as [i|r n|r|o v|]; cbn [step].
  - cbn [fst]. now apply tick_G.
  - destruct Ho as [Hn [Hi [H1 H2]]]. destruct (validate e n) eqn:V; [|exact Ge]. cbn [fst].
    apply G_schedule; [exact Ge|]. unfold req_ok, stamp, tracked_ok. cbn. repeat split; auto. rewrite Hn.
    pose proof (validate_started e n (g_inv e Ge) V) as S.
    destruct n; auto; try congruence; rewrite (inv_trk e (g_inv e Ge)); exact S.
  - destruct Ho as [[k Hk] [H1 H2]]. cbn [fst]. apply G_schedule; [exact Ge|].
    unfold req_ok, stamp, tracked_ok. cbn. rewrite Hk. auto.
  - cbn [fst]. eapply G_same; [|exact Ge]. split; reflexivity.
  - exact Ge.
Qed.

Lemma G_init safe n outs0 : G (boot safe (init n outs0)).
Proof.
  unfold boot.
  pose proof (core_apply_safe safe (init n outs0)) as K.
  assert (Lk : lists (fst (apply_safe safe (init n outs0))) = lists (init n outs0)).
  { unfold apply_safe. destruct (safe_from 0 safe (outs (init n outs0))). reflexivity. }
  remember (fst (apply_safe safe (init n outs0))) as e1 eqn:E1. clear E1.
  assert (G1 : G e1).
  { eapply G_same; [split; [exact K|exact Lk]|]. split.
    - apply Inv_of_stopped; try reflexivity. intros c [].
    - unfold lists_ok. cbn. repeat split; try constructor; discriminate.
    - intros c []. }
  assert (W1 : wok e1 = true) by (rewrite (core_wok _ _ K); reflexivity).
  cbv zeta. eapply G_same; [|exact G1]. split; reflexivity.
Qed.

(* every state reachable by fault-free operations *)
Theorem reachable_G safe overlaps n outs0 ops :
  Forall op_ok ops ->
  G (fold_left (fun e o => fst (step safe overlaps e o)) ops (boot safe (init n outs0))).
Proof.
  intros H. generalize (G_init safe n outs0). generalize (boot safe (init n outs0)).
  induction H as [|o ops Ho Hops IH]; intros e Ge; cbn [fold_left]; [exact Ge|].
  apply IH. now apply step_G.
Qed.

(* the statement of C06 on a state *)
Definition state_function (e : E) : Prop :=
  (sys e = Stopped <-> started e = false) /\
  (sys e = Paused -> started e = true /\ paused e = true) /\
  (sys e = Holding -> started e = true /\ paused e = false /\ holding e = true) /\
  (sys e = Running -> started e = true /\ paused e = false /\ holding e = false) /\
  (sys e = Restarting -> started e = true /\ exists c, In c (reg e) /\ i_name c = Restart) /\
  (run_id e = None <-> started e = false).

Lemma Inv_state_function e : Inv e -> state_function e.
Proof.
  intros [A B C D F W]. unfold state_function.
  assert (K : started e = true -> sys e <> Stopped).
  { intros S. destruct (B S) as [Q|[Q _]]; rewrite Q; [|discriminate]. unfold fsys. destruct (paused e), (holding e); discriminate. }
  repeat split.
  - intros H. destruct (started e) eqn:S; [exfalso; now apply K|reflexivity].
  - intros H. now apply A.
  - destruct (started e) eqn:S; [reflexivity|]. destruct (A eq_refl) as [Q _]. congruence.
  - destruct (started e) eqn:S; [|destruct (A eq_refl) as [Q _]; congruence].
    destruct (B eq_refl) as [Q|[Q _]]; [|congruence]. rewrite Q in H. unfold fsys in H. destruct (paused e); [reflexivity|].
    destruct (holding e); discriminate.
  - destruct (started e) eqn:S; [reflexivity|]. destruct (A eq_refl) as [Q _]. congruence.
  - destruct (started e) eqn:S; [|destruct (A eq_refl) as [Q _]; congruence].
    destruct (B eq_refl) as [Q|[Q _]]; [|congruence]. rewrite Q in H. unfold fsys in H. destruct (paused e); [discriminate|reflexivity].
  - destruct (started e) eqn:S; [|destruct (A eq_refl) as [Q _]; congruence].
    destruct (B eq_refl) as [Q|[Q _]]; [|congruence]. rewrite Q in H. unfold fsys in H. destruct (paused e); [discriminate|].
    destruct (holding e); [reflexivity|discriminate].
  - destruct (started e) eqn:S; [reflexivity|]. destruct (A eq_refl) as [Q _]. congruence.
  - destruct (started e) eqn:S; [|destruct (A eq_refl) as [Q _]; congruence].
    destruct (B eq_refl) as [Q|[Q _]]; [|congruence]. rewrite Q in H. unfold fsys in H. destruct (paused e); [discriminate|reflexivity].
  - destruct (started e) eqn:S; [|destruct (A eq_refl) as [Q _]; congruence].
    destruct (B eq_refl) as [Q|[Q _]]; [|congruence]. rewrite Q in H. unfold fsys in H. destruct (paused e); [discriminate|].
    destruct (holding e); [discriminate|reflexivity].
  - destruct (started e) eqn:S; [reflexivity|]. destruct (A eq_refl) as [Q _]. congruence.
  - destruct (started e) eqn:S; [|destruct (A eq_refl) as [Q _]; congruence].
    destruct (B eq_refl) as [Q|[_ Q]]; [|exact Q]. rewrite Q in H. unfold fsys in H. destruct (paused e), (holding e); discriminate.
  - apply F.
  - apply F.
Qed.
