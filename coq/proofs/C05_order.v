(* C05 (lock clause): in every state of every run of the interpreter model, outside the bodies of Alarms and Macros a
   started line whose parent is a Block lies in a block that HAS TAKEN THE LOCK (it holds it, or it has ended / completed
   since) -- no line of a block body runs before the block acquired the block lock. With the chain theorem (the blocks
   holding the lock form one nested chain): the blocks whose bodies are running are nested in each other.
   Same stack invariant technique as C02_order.v / C04_order.v. *)
From Coq Require Import ZArith List Bool Arith Lia.
From OP Require Import lib.Obs model.Interp model.InterpRun proofs.Interp_inv proofs.C05_proofs proofs.Interp_fields
     proofs.C02_proofs proofs.Interp_stack proofs.C02_order.
Import ListNotations.
Open Scope Z_scope.

Section Lock.
  Variable p : program.
  Hypothesis WF : wf_b p = true.

  Definition isB (q : nat) : bool := match n_kind (nd p q) with KBlock => true | _ => false end.
  Definition lk (x : ns) : bool := lock_acquired x || block_ended x || completed x.
  Definition lkd (s : S) (q : nat) : Prop := plain p q = true -> isB q = true -> lk (st s q) = true.
  Definition visA (s : S) (n : nat) : Prop := forall q, par p n q -> lkd s q.
  Definition Q (s : S) (f : frame) : Prop :=
    match f with
    | FVisit c | FThr c => visA s c
    | FRet | FProgAfter | FProgIdle => True
    | FKidsEntry n | FKids n _ | FKidsAfter n _ => lkd s n
    | FBlkB n | FWatchAwait n | FWatchInv n | FAlarmInv n => visA s n /\ lkd s n
    | FNodeTick n | FVisitEnd n | FMark1 n | FBlankIdle n | FBlank1 n | FBlkA n | FBlkWait n | FBlkC n | FBlkEnd n
    | FWait n _ | FNoop n _ | FWatchBody n | FAlarmAwait n | FAlarmBody n
    | FAlarmPost n | FInjAfter n | FMacro1 n | FCallAfter n _ => visA s n
    end.
  Definition T (s : S) : Prop :=
    length (nodes s) = length p
    /\ forall c q, par p c q -> plain p c = true -> started (st s c) = true -> lkd s q.
  Definition R (s s' : S) : Prop :=
    length (nodes s') = length (nodes s) /\ forall m, plain p m = true -> lk (st s m) = true -> lk (st s' m) = true.

  Lemma R_refl s : R s s. Proof. split; auto. Qed.
  Lemma R_trans a b c : R a b -> R b c -> R a c. Proof. intros [L1 H1] [L2 H2]. split; [congruence|auto]. Qed.
  Lemma lkd_stable s s' n : R s s' -> lkd s n -> lkd s' n. Proof. intros [_ H] A P W. apply H; auto. Qed.
  Lemma visA_stable s s' n : R s s' -> visA s n -> visA s' n. Proof. intros H V q Pq. eapply lkd_stable; eauto. Qed.
  Lemma Q_stable s s' f : R s s' -> Q s f -> Q s' f.
  Proof.
    intros H. destruct f; cbn [Q]; try exact id; try (apply visA_stable; exact H); try (apply lkd_stable; exact H);
      intros [A B]; (split; [eapply visA_stable|eapply lkd_stable]; eassumption).
  Qed.

  Definition Alk (m : nat) (x x' : ns) : Prop := plain p m = true -> lk x = true -> lk x' = true.
  Lemma step_R e b f k s : R s (o_state (step p e b f k s)).
  Proof.
    split; [apply step_len|]. intros m. change (o_state (step p e b f k s)) with (out_state (step p e b f k s)).
    apply (step_ok p e Alk (fun _ => True)); unfold Alk, lk; try (intros; cbn; auto; fail).
    - intros m0 x _ _. cbn. apply orb_true_r.
    - intros m0 x _ _. cbn. rewrite orb_true_r. reflexivity.
    - intros m0 x [E|E] _ _; cbn; rewrite E; cbn; [reflexivity|apply orb_true_r].
    - intros a m0 x K H P. rewrite (plain_repeats p a m0 K H) in P. discriminate.
  Qed.

  Lemma lkd_kind s n : isB n = false -> lkd s n. Proof. intros K _ W. congruence. Qed.
  Lemma lkd_lock s n t : T s -> lkd (with_tag (set_ns s n (set_block (st s n) true (block_ended (st s n)))) t) n.
  Proof.
    intros HT P _. change (st (with_tag ?a t) n) with (st a n).
    rewrite st_set_ns, Nat.eqb_refl. destruct HT as [L _]. rewrite L.
    unfold plain in P. destruct (Nat.ltb n (length p)); [reflexivity|discriminate].
  Qed.
  Lemma visA_kid s n i c : nth_error (n_children (nd p n)) i = Some c -> lkd s n -> visA s c.
  Proof.
    intros H A q Pq. apply nth_error_In in H. apply (kids_par p WF) in H. unfold par in *. rewrite H in Pq. inversion Pq; subst. exact A.
  Qed.

  Ltac cases := repeat match goal with
                       | |- context [match try_activate ?e ?s ?n with _ => _ end] =>
                           let X := fresh "X" in destruct (try_activate e s n) eqn:X
                       | |- context [match ?x with _ => _ end] => destruct x eqn:?
                       end.
  Ltac unf := unfold thr_loop, enter, block_wait_end, block_try, block_release, watch_await, alarm_await.
  Ltac frame HT HR :=
    lazymatch goal with
    | |- True => exact I
    | |- _ /\ _ => split; frame HT HR
    | |- visA _ _ => first [ eapply visA_stable; [exact HR|assumption]
                           | match goal with H : nth_error _ _ = Some ?c |- visA _ ?c =>
                               eapply visA_kid; [exact H|eapply lkd_stable; [exact HR|assumption]] end ]
    | |- lkd _ ?n => first [ eapply lkd_stable; [exact HR|assumption]
                           | match goal with K : n_kind (nd p n) = _ |- _ => apply lkd_kind; unfold isB; rewrite K; reflexivity end
                           | match goal with H : lock_acquired (st ?s n) = true |- _ =>
                               eapply lkd_stable; [exact HR|intros _ _; unfold lk; rewrite H; reflexivity] end
                           | apply (lkd_lock _ _ _ HT) ]
    end.

  Lemma step_frames e b f k s : T s -> Q s f ->
    R s (o_state (step p e b f k s)) -> Forall (Q (o_state (step p e b f k s))) k ->
    Forall (Q (o_state (step p e b f k s))) (o_stack (step p e b f k s)).
  Proof.
    intros HT HQ. destruct f; cbn [Q] in HQ; try (match type of HQ with _ /\ _ => destruct HQ as [Hv Ho] end); cbn [step]; unf.
    3: unfold dispatch; unf.
    all: cases; cbn [o_state o_stack]. all: try (intros HR Hk; repeat (apply Forall_cons); try exact Hk; cbn [Q]; try (frame HT HR; fail)).
  Qed.

  Lemma step_G e b f k s : G Q T s (f :: k) ->
    R s (o_state (step p e b f k s)) /\ G Q T (o_state (step p e b f k s)) (o_stack (step p e b f k s)).
  Proof.
    intros [HT [HF HO]]. pose proof (Forall_inv HF) as HQ. pose proof (Forall_inv_tail HF) as Hk.
    pose proof (step_R e b f k s) as HR. split; [exact HR|].
    assert (Hk' : Forall (Q (o_state (step p e b f k s))) k) by (eapply Forall_impl; [|exact Hk]; intros a; now apply Q_stable).
    split; [|split].
    - destruct HT as [L HT']. split; [now rewrite step_len|]. intros c q Pq Pc Sc.
      destruct (step_new p e b f k s c Pc Sc) as [S0|[E|E]].
      + eapply lkd_stable; [exact HR|]. now apply (HT' c q).
      + subst f. cbn [Q] in HQ. eapply lkd_stable; [exact HR|]. now apply HQ.
      + subst f. cbn [Q] in HQ. eapply lkd_stable; [exact HR|]. now apply HQ.
    - now apply step_frames.
    - intros x Hx. destruct (step_ints p e b f k s x Hx) as [Hin|[n [E Ex]]].
      + eapply Forall_impl; [|exact (HO x Hin)]. intros a. now apply Q_stable.
      + rewrite Ex. constructor; [|constructor]. cbn [Q]. eapply visA_stable; [exact HR|].
        destruct E as [E|E]; subst f; cbn [Q] in HQ; apply HQ.
  Qed.

  Lemma same_R s s' : length (nodes s') = length (nodes s) -> (forall m, lk (st s' m) = lk (st s m)) -> R s s'.
  Proof. intros L E. split; [exact L|]. intros m _ H. now rewrite E. Qed.
  Lemma same_T s s' : length (nodes s') = length (nodes s) -> (forall m, lk (st s' m) = lk (st s m)) ->
    (forall m, started (st s' m) = started (st s m)) -> T s -> T s'.
  Proof. intros L E1 E2 [L0 H]. split; [congruence|]. intros c q Pq Pc Sc P W. rewrite E1. rewrite E2 in Sc. now apply (H c q). Qed.
  (* the updates outside the transitions only raise lk (failed / completed flags) *)
  Lemma lk_fail s n m : lk (st (set_error (set_ns s n (set_failed (st s n) true)) n) m) = lk (st s m).
  Proof.
    change (st (set_error ?a n) m) with (st a m). rewrite st_set_ns.
    destruct (Nat.eqb m n && Nat.ltb n (length (nodes s))) eqn:C; [|reflexivity].
    apply andb_prop in C as [C _]. apply Nat.eqb_eq in C. now subst.
  Qed.
  Lemma lk_cmd_le s n m : lk (st s m) = true -> lk (st (mark_completed s n) m) = true.
  Proof.
    unfold mark_completed. destruct (failed (st s n)); [exact id|]. rewrite st_set_ns.
    destruct (Nat.eqb m n && Nat.ltb n (length (nodes s))) eqn:C; [|exact id].
    intros _. unfold lk. cbn. apply orb_true_r.
  Qed.

  Theorem lock_always ts : Forall T (states p [FVisit 0] (init p) 0 ts).
  Proof.
    apply (run_G p Q T R R_refl R_trans Q_stable step_G).
    - intros s n. apply same_R; [apply l_set_ns|apply lk_fail].
    - intros s n. apply same_T; [apply l_set_ns|apply lk_fail|apply started_fail].
    - intros s i sr. now apply same_R.
    - intros s i sr. now apply same_T.
    - intros s n. split; [apply l_mark_completed|]. intros m _. apply lk_cmd_le.
    - intros s n [L H]. split; [now rewrite l_mark_completed|]. intros c q Pq Pc Sc P W. rewrite started_cmd in Sc.
      apply lk_cmd_le. now apply (H c q).
    - intros s. now apply same_R.
    - intros s. now apply same_T.
    - split; [|split].
      + split; [unfold init; cbn [nodes]; apply repeat_length|]. intros c q _ _ Sc. now rewrite init_started in Sc.
      + constructor; [|constructor]. cbn [Q]. intros q Pq. now apply (root_par p WF) in Pq.
      + intros x [].
  Qed.

  (* the same over runs with updates between the ticks that change no lock / ended / completed / started flag, keep the node
     table's length and leave the interrupt map alone or add fresh generators of parentless roots (injected snippets) *)
  Theorem lock_always_upd (upd : Type) (apply : S -> upd -> S) :
    (forall s u m, lk (st (apply s u) m) = lk (st s m)) ->
    (forall s u m, started (st (apply s u) m) = started (st s m)) ->
    (forall s u, length (nodes (apply s u)) = length (nodes s)) ->
    (forall s u x, In x (ints (apply s u)) -> In x (ints s) \/ exists r, n_parent (nd p r) = None /\ snd (snd x) = [FVisit r]) ->
    forall ts, Forall T (gstates p upd apply [FVisit 0] (init p) 0 ts).
  Proof.
    intros Ek Es El Ei ts. apply (grun_G p Q T R R_refl R_trans Q_stable step_G).
    - intros s n. apply same_R; [apply l_set_ns|apply lk_fail].
    - intros s n. apply same_T; [apply l_set_ns|apply lk_fail|apply started_fail].
    - intros s i sr. now apply same_R.
    - intros s i sr. now apply same_T.
    - intros s n. split; [apply l_mark_completed|]. intros m _. apply lk_cmd_le.
    - intros s n [L H]. split; [now rewrite l_mark_completed|]. intros c q Pq Pc Sc P W. rewrite started_cmd in Sc.
      apply lk_cmd_le. now apply (H c q).
    - intros s. now apply same_R.
    - intros s. now apply same_T.
    - intros s u. apply same_R; [apply El|apply Ek].
    - intros s u. apply same_T; [apply El|apply Ek|apply Es].
    - intros s u _ O x Hx. destruct (Ei s u x Hx) as [Hin|[r [Pr Ex]]].
      + eapply Forall_impl; [|exact (O x Hin)]. intros a. apply Q_stable. apply same_R; [apply El|apply Ek].
      + rewrite Ex. constructor; [|constructor]. cbn [Q]. intros q Pq. unfold par in Pq. congruence.
    - split; [|split].
      + split; [unfold init; cbn [nodes]; apply repeat_length|]. intros c q _ _ Sc. now rewrite init_started in Sc.
      + constructor; [|constructor]. cbn [Q]. intros q Pq. now apply (root_par p WF) in Pq.
      + intros x [].
  Qed.
End Lock.

Theorem block_body_runs_only_with_the_lock p ts : wf_b p = true ->
  Forall (fun s => forall c q, n_parent (nd p c) = Some q -> n_kind (nd p q) = KBlock -> plain p c = true -> plain p q = true ->
                               started (st s c) = true ->
                               lock_acquired (st s q) = true \/ block_ended (st s q) = true \/ completed (st s q) = true)
         (states p [FVisit 0] (init p) 0 ts).
Proof.
  intros W. eapply Forall_impl; [|exact (lock_always p W ts)]. intros s [_ H] c q Pq K Pc Pl Sc.
  assert (X : lk (st s q) = true) by (apply (H c q Pq Pc Sc Pl); unfold isB; now rewrite K).
  unfold lk in X. apply orb_true_iff in X as [X|X]; [apply orb_true_iff in X as [X|X]|]; auto.
Qed.
