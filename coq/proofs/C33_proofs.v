From Coq Require Import List Bool Arith Lia.
From OP Require Import lib.Obs model.C33.
Import ListNotations.

Lemma mem_in x l : mem x l = true <-> In x l.
Proof.
  unfold mem. rewrite existsb_exists. split.
  - intros [y [Hy E]]. apply Nat.eqb_eq in E. now subst.
  - intros H. exists x. split; [exact H|apply Nat.eqb_refl].
Qed.

(* the union of the three comprehensions selects exactly the users with a matching preference row *)
Lemma selected_spec prefs t u x :
  In x (selected_users prefs t u) <->
  exists p, In p prefs /\ p_user p = x /\ mem t (p_topics p) = true
            /\ has_access (u_required u) (p_roles p) = true /\ scope_matches p u = true.
Proof.
  unfold selected_users. rewrite !in_app_iff, !in_map_iff. split.
  - intros [[p [E H]]|[[p [E H]]|[p [E H]]]]; apply filter_In in H as [H Hc]; apply filter_In in H as [Hp Ht];
      exists p; unfold scope_matches; destruct (p_scope p); cbn in Hc; try discriminate;
      repeat (apply andb_true_iff in Hc as [Hc ?]); repeat split; auto.
  - intros [p [Hp [E [Ht [Ha Hs]]]]]. unfold scope_matches in Hs. destruct (p_scope p) eqn:Esc.
    + right. left. exists p. split; [exact E|]. apply filter_In. split; [apply filter_In; auto|].
      rewrite Esc, Ha, Hs. reflexivity.
    + left. exists p. split; [exact E|]. apply filter_In. split; [apply filter_In; auto|].
      rewrite Esc, Ha. reflexivity.
    + right. right. exists p. split; [exact E|]. apply filter_In. split; [apply filter_In; auto|].
      rewrite Esc, Ha, Hs. reflexivity.
Qed.

Lemma entitled_spec prefs t u c x :
  entitled prefs t u c x = true <->
  In x (selected_users prefs t u) /\
  negb (Nat.eqb t new_contributor_topic && match c with Some y => Nat.eqb y x | None => false end) = true.
Proof.
  unfold entitled. rewrite andb_true_iff, selected_spec, existsb_exists. split.
  - intros [[p [Hp Hc]] Hn]. split; [|exact Hn].
    repeat (apply andb_true_iff in Hc as [Hc ?]). apply Nat.eqb_eq in Hc. exists p. auto.
  - intros [[p [Hp [E [Ht [Ha Hs]]]]] Hn]. split; [|exact Hn]. exists p. split; [exact Hp|].
    rewrite E, Nat.eqb_refl, Ht, Ha, Hs. reflexivity.
Qed.

(* exactly the subscriptions of entitled users ... *)
Lemma publish_exact prefs subs t u c sid x :
  NoDup (map fst subs) -> In (sid, x) subs ->
  (In sid (publish prefs subs t u c) <-> entitled prefs t u c x = true).
Proof.
  intros Hnd Hin. unfold publish. rewrite entitled_spec, in_map_iff. split.
  - intros [[sid' x'] [E H]]. cbn in E. subst sid'. apply filter_In in H as [H Hn].
    apply filter_In in H as [Hs Hm]. cbn in *.
    assert (x' = x).
    { clear -Hnd Hin Hs. induction subs as [|[a b] subs IH]; [contradiction|]. cbn in Hnd. inversion Hnd; subst.
      destruct Hin as [E1|Hin], Hs as [E2|Hs].
      - congruence.
      - inversion E1; subst. exfalso. apply H1. apply in_map_iff. exists (sid, x'). auto.
      - inversion E2; subst. exfalso. apply H1. apply in_map_iff. exists (sid, x). auto.
      - auto. }
    subst x'. split; [now apply mem_in|exact Hn].
  - intros [Hsel Hn]. exists (sid, x). split; [reflexivity|]. apply filter_In. split; [|exact Hn].
    apply filter_In. split; [exact Hin|]. cbn. now apply mem_in.
Qed.

(* ... each at most once ... *)
Lemma NoDup_map_filter {A} (f : A -> nat) (p : A -> bool) l : NoDup (map f l) -> NoDup (map f (filter p l)).
Proof.
  induction l as [|x l IH]; cbn; intros H; [constructor|]. inversion H; subst.
  destruct (p x); cbn; [|auto]. constructor; [|auto]. intros Hin. apply H2.
  apply in_map_iff in Hin as [y [E Hy]]. apply filter_In in Hy as [Hy _]. rewrite <- E. now apply in_map.
Qed.

Lemma publish_at_most_once prefs subs t u c :
  NoDup (map fst subs) -> NoDup (publish prefs subs t u c).
Proof. intros H. unfold publish. now repeat apply NoDup_map_filter. Qed.

(* ... and never to the contributor a new-contributor notification is about *)
Lemma not_to_new_contributor prefs subs u c sid :
  In (sid, c) subs -> NoDup (map fst subs) ->
  ~ In sid (publish prefs subs new_contributor_topic u (Some c)).
Proof.
  intros Hin Hnd H. apply (publish_exact prefs subs _ u (Some c) sid c Hnd Hin) in H.
  unfold entitled in H. apply andb_true_iff in H as [_ H]. rewrite !Nat.eqb_refl in H. discriminate.
Qed.

Lemma publish_subset prefs subs t u c sid : In sid (publish prefs subs t u c) -> In sid (map fst subs).
Proof.
  unfold publish. intros H. apply in_map_iff in H as [s [E H]]. apply filter_In in H as [H _].
  apply filter_In in H as [H _]. rewrite <- E. now apply in_map.
Qed.
