(* C06: the System State is a function of the run-state flags in every reachable state of the engine model,
   for all fault-free operation sequences. *)
From Coq Require Import ZArith List Bool Arith Lia.
From OP Require Import lib.Obs model.Eng.
Import ListNotations.
Open Scope Z_scope.

Definition fsys (e : E) : sysst := if paused e then Paused else if holding e then Holding else Running.
Definition restart_in (rg : list icmd) : Prop := exists c, In c rg /\ i_name c = Restart.

Record Inv (e : E) : Prop := {
  inv_stopped : started e = false -> sys e = Stopped /\ paused e = false /\ holding e = false;
  inv_active : started e = true -> sys e = fsys e \/ (sys e = Restarting /\ restart_in (reg e));
  inv_reg : forall c, In c (reg e) -> i_name c = Restart -> i_cancelled c = false /\ i_complete c = false;
  inv_trk : trk e = started e;
  inv_run : (run_id e = None <-> started e = false) /\ (forall r, run_id e = Some r -> (r < next_run e)%nat);
  inv_wok : wok e = true }.

(* everything the invariant reads *)
Definition core (e : E) := (started e, paused e, holding e, sys e, reg e, trk e, run_id e, next_run e, wok e).

Lemma Inv_core e e' : core e' = core e -> Inv e -> Inv e'.
Proof.
  unfold core. intros H I. inversion H as [[H1 H2 H3 H4 H5 H6 H7 H8 H9]].
  destruct I as [A B C D F W]. split; unfold fsys in *; rewrite ?H1, ?H2, ?H3, ?H4, ?H5, ?H6, ?H7, ?H8, ?H9; assumption.
Qed.

Lemma core_started e e' : core e' = core e -> started e' = started e.
Proof. unfold core. intros H. now inversion H. Qed.
Lemma core_sys e e' : core e' = core e -> sys e' = sys e.
Proof. unfold core. intros H. now inversion H. Qed.
Lemma core_reg e e' : core e' = core e -> reg e' = reg e.
Proof. unfold core. intros H. now inversion H. Qed.
Lemma core_wok e e' : core e' = core e -> wok e' = wok e.
Proof. unfold core. intros H. now inversion H. Qed.
Lemma core_paused e e' : core e' = core e -> paused e' = paused e.
Proof. unfold core. intros H. now inversion H. Qed.
Lemma core_holding e e' : core e' = core e -> holding e' = holding e.
Proof. unfold core. intros H. now inversion H. Qed.
Lemma core_trk e e' : core e' = core e -> trk e' = trk e.
Proof. unfold core. intros H. now inversion H. Qed.
Lemma core_run_id e e' : core e' = core e -> run_id e' = run_id e.
Proof. unfold core. intros H. now inversion H. Qed.

Lemma iname_eqb_eq a b : iname_eqb a b = true <-> a = b.
Proof. destruct a, b; cbn; split; intros; try reflexivity; try discriminate. Qed.

(* ---------- neutral helpers ---------- *)
Lemma core_mark_done e m r : core (fst (mark_done e m r)) = core e.
Proof. unfold mark_done. destruct (existsb _ _); [|reflexivity]. destruct m as [[x d]|]; reflexivity. Qed.
Lemma core_fin_u e c : core (fin_u e c) = core e.
Proof. reflexivity. Qed.
Lemma core_put_u e c : core (put_u e c) = core e.
Proof. reflexivity. Qed.
Lemma core_note_cancel e r : core (note_cancel e r) = core e.
Proof. unfold note_cancel. destruct (r_name r) as [[]|]; try reflexivity; destruct (trk e); reflexivity. Qed.
Lemma core_note_cancel_m e m r : core (note_cancel_m e m r) = core e.
Proof. destruct m; [reflexivity|apply core_note_cancel]. Qed.
Lemma core_cancel_unstarted e m r : core (fst (cancel_unstarted e m r)) = core e.
Proof.
  unfold cancel_unstarted. pose proof (core_mark_done e m r) as K. destruct (mark_done e m r) as [e1 m1]. cbn [fst] in K.
  destruct (mark_cancelled_raises (tk e1 m1) r); cbn [fst]; [exact K|]. now rewrite core_note_cancel_m.
Qed.
Lemma core_set_out e i v : core (set_out e i v) = core e.
Proof. reflexivity. Qed.
Lemma core_schedule e r : core (schedule e r) = core e.
Proof. reflexivity. Qed.
Lemma core_reset_manager e m : core (fst (reset_manager e m)) = core e.
Proof. reflexivity. Qed.
Lemma core_apply_safe safe e : core (fst (apply_safe safe e)) = core e.
Proof. unfold apply_safe. destruct (safe_from 0 safe (outs e)). reflexivity. Qed.
Lemma core_write_image e : wok e = true -> core (write_image e) = core e.
Proof. intros W. unfold write_image. destruct (negb (started e)); [reflexivity|]. rewrite W. reflexivity. Qed.
Lemma core_update_clocks e dt : core (update_clocks e dt) = core e.
Proof. unfold update_clocks, advance_clocks. cbv zeta. destruct (bpaused e || negb (sys_eqb (sys e) Running)); reflexivity. Qed.

(* ---------- registry updates ---------- *)
Lemma restart_in_filter rg n : n <> Restart -> restart_in rg ->
  restart_in (filter (fun c => negb (iname_eqb (i_name c) n)) rg).
Proof.
  intros Hn [c [Hin Hc]]. exists c. split; [|exact Hc]. apply filter_In. split; [exact Hin|].
  rewrite Hc. destruct n; try reflexivity. congruence.
Qed.

Lemma Inv_drop_i e n : Inv e -> (n <> Restart \/ sys e <> Restarting) -> Inv (drop_i e n).
Proof.
  intros [A B C D F W] H. split; cbn; try assumption.
  - intros S. destruct (B S) as [K|[K1 K2]]; [now left|].
    destruct H as [H|H]; [|congruence]. right. split; [exact K1|now apply restart_in_filter].
  - intros c Hc. apply filter_In in Hc as [Hc _]. now apply C.
Qed.

Lemma Inv_put_i e c : Inv e -> (i_name c = Restart -> i_cancelled c = false /\ i_complete c = false) -> Inv (put_i e c).
Proof.
  intros [A B C D F W] H. split; cbn; try assumption.
  - intros S. destruct (B S) as [K|[K1 [x [Hx1 Hx2]]]]; [now left|]. right. split; [exact K1|].
    destruct (iname_eqb (i_name x) (i_name c)) eqn:E.
    + exists c. split; [|apply iname_eqb_eq in E; congruence].
      apply in_map_iff. exists x. rewrite E. auto.
    + exists x. split; [|exact Hx2]. apply in_map_iff. exists x. rewrite E. auto.
  - intros x Hx Hn. apply in_map_iff in Hx as [y [Hy Hin]].
    destruct (iname_eqb (i_name y) (i_name c)) eqn:E.
    + subst x. now apply H.
    + subst x. now apply C.
Qed.

Lemma Inv_add_i e c : Inv e -> (i_name c = Restart -> i_cancelled c = false /\ i_complete c = false) ->
  Inv (set_cmds e (reg e ++ [c]) (uods e)).
Proof.
  intros [A B C D F W] H. split; cbn; try assumption.
  - intros S. destruct (B S) as [K|[K1 [x [Hx1 Hx2]]]]; [now left|]. right. split; [exact K1|].
    exists x. split; [apply in_or_app; now left|exact Hx2].
  - intros x Hx Hn. apply in_app_or in Hx as [Hx|[<-|[]]]; [now apply C|now apply H].
Qed.

(* ---------- Unpause / Unhold bodies ---------- *)
Lemma unpause_core e : exists e2,
  core (unpause_body e) = core e2 /\
  e2 = set_sys (upd_flags e (started e) false (holding e) (stopping e)) (if holding e then Holding else Running).
Proof. eexists. split; [|reflexivity]. unfold unpause_body. destruct (prev _); reflexivity. Qed.

Lemma Inv_unpause e : Inv e -> started e = true ->
  Inv (unpause_body e) /\ started (unpause_body e) = true /\ sys (unpause_body e) <> Restarting
  /\ reg (unpause_body e) = reg e.
Proof.
  intros [A B C D F W] S. destruct (unpause_core e) as [e2 [H2 E2]].
  assert (I2 : Inv e2).
  { subst e2. split; cbn; try assumption.
    - intros S'. congruence.
    - intros _. left. unfold fsys. cbn. destruct (holding e); reflexivity. }
  split; [|split; [|split]].
  - now apply (Inv_core e2).
  - rewrite (core_started _ _ H2). subst e2. exact S.
  - rewrite (core_sys _ _ H2). subst e2. cbn. destruct (holding e); discriminate.
  - rewrite (core_reg _ _ H2). subst e2. reflexivity.
Qed.

Lemma Inv_unhold e : Inv e -> started e = true ->
  Inv (unhold_body e) /\ started (unhold_body e) = true /\ (sys e <> Restarting -> sys (unhold_body e) <> Restarting)
  /\ reg (unhold_body e) = reg e.
Proof.
  intros [A B C D F W] S. unfold unhold_body. destruct (paused e) eqn:P.
  - split; [|split; [|split]]; [|exact S|tauto|reflexivity]. split; cbn; try assumption.
    + intros S'. congruence.
    + intros _. destruct (B S) as [K|K]; [left|right; exact K]. unfold fsys in *. cbn. now rewrite P in *.
  - split; [|split; [|split]]; [|exact S|cbn; discriminate|reflexivity]. split; cbn; try assumption.
    + intros S'. congruence.
    + intros _. left. unfold fsys. cbn. rewrite ?P. reflexivity.
Qed.

(* ---------- _cancel_command ---------- *)
Definition alive (e : E) : Prop := Inv e /\ started e = true.

Lemma find_i_spec e n c : find_i e n = Some c -> In c (reg e) /\ i_name c = n.
Proof. unfold find_i. intros H. apply find_some in H as [H1 H2]. apply iname_eqb_eq in H2. auto. Qed.

Lemma cancel_request_alive e m r :
  alive e -> (r_name r <> CI Restart \/ sys e <> Restarting) ->
  let e' := fst (cancel_request e m r) in
  alive e' /\ (sys e <> Restarting -> sys e' <> Restarting).
Proof.
  intros [I S] H. unfold cancel_request.
  destruct (r_name r) as [n|n] eqn:Er.
  - destruct (find_i e n) as [c|] eqn:Ef; [|cbn; split; [split|]; auto].
    destruct (find_i_spec _ _ _ Ef) as [Hin Hn].
    assert (Hdrop : n <> Restart \/ sys e <> Restarting).
    { destruct H as [H|H]; [left; intros K; apply H; now rewrite K|now right]. }
    destruct (i_complete c) eqn:Ec.
    + pose proof (core_mark_done (fin_i e n) m r) as K.
      split; [split|].
      * apply (Inv_core _ _ K). now apply Inv_drop_i.
      * rewrite (core_started _ _ K). exact S.
      * rewrite (core_sys _ _ K). auto.
    + set (e1 := match n with Pause => unpause_body e | Hold => unhold_body e | _ => e end).
      assert (I1 : Inv e1 /\ started e1 = true /\ (sys e <> Restarting -> sys e1 <> Restarting) /\ reg e1 = reg e
                   /\ (n = Restart -> e1 = e)).
      { unfold e1. destruct n; try (split; [exact I|split; [exact S|split; [tauto|split; reflexivity]]]).
        - destruct (Inv_unpause e I S) as [J1 [J2 [J3 J4]]]. split; [exact J1|split; [exact J2|split; [tauto|split; [exact J4|discriminate]]]].
        - destruct (Inv_unhold e I S) as [J1 [J2 [J3 J4]]]. split; [exact J1|split; [exact J2|split; [exact J3|split; [exact J4|discriminate]]]]. }
      destruct I1 as [I1 [S1 [N1 [R1 Q1]]]].
      assert (Hdrop1 : n <> Restart \/ sys e1 <> Restarting).
      { destruct Hdrop as [K|K]; [now left|right; now apply N1]. }
      destruct (mark_cancelled_raises (tk e1 m) r) eqn:Em.
      * cbn [fst]. split; [split|]; auto. apply Inv_put_i; [exact I1|]. cbn. intros K. rewrite Hn in K.
        exfalso. unfold mark_cancelled_raises in Em. rewrite Er, K in Em. discriminate.
      * pose proof (core_mark_done (fin_i (note_cancel_m e1 m r) n) m r) as K.
        assert (Kn : core (note_cancel_m e1 m r) = core e1) by apply core_note_cancel_m.
        split; [split|].
        -- apply (Inv_core _ _ K). apply Inv_drop_i; [now apply (Inv_core e1)|].
           rewrite (core_sys _ _ Kn). exact Hdrop1.
        -- rewrite (core_started _ _ K). cbn. rewrite (core_started _ _ Kn). exact S1.
        -- rewrite (core_sys _ _ K). cbn. rewrite (core_sys _ _ Kn). exact N1.
  - match goal with |- context [match ?X with None => cancel_unstarted _ _ _ | Some _ => _ end] => destruct X as [c|] end.
    2:{ pose proof (core_cancel_unstarted e m r) as K. split; [split|].
        - now apply (Inv_core e).
        - rewrite (core_started _ _ K). exact S.
        - rewrite (core_sys _ _ K). auto. }
    destruct (c_complete c).
    + pose proof (core_mark_done (fin_u e c) m r) as K.
      split; [split|].
      * apply (Inv_core _ _ K). apply (Inv_core e); [reflexivity|exact I].
      * rewrite (core_started _ _ K). exact S.
      * rewrite (core_sys _ _ K). auto.
    + destruct (mark_cancelled_raises (tk e m) r).
      * cbn [fst]. split; [split|]; auto. apply (Inv_core e); [reflexivity|exact I].
      * pose proof (core_mark_done (fin_u (note_cancel_m e m r) c) m r) as K.
        assert (Kn : core (note_cancel_m e m r) = core e) by apply core_note_cancel_m.
        split; [split|].
        -- apply (Inv_core _ _ K). apply (Inv_core (note_cancel_m e m r)); [reflexivity|]. now apply (Inv_core e).
        -- rewrite (core_started _ _ K). cbn. rewrite (core_started _ _ Kn). exact S.
        -- rewrite (core_sys _ _ K). cbn. rewrite (core_sys _ _ Kn). auto.
Qed.

(* ---------- cancel_commands ---------- *)
Lemma cancel_all_alive e m src :
  alive e -> (src = Restart \/ sys e <> Restarting) ->
  let e' := fst (cancel_all e m src) in
  alive e' /\ (sys e <> Restarting -> sys e' <> Restarting).
Proof.
  intros A H. unfold cancel_all.
  set (f := fun (em : E * mgr) (r : request) =>
              if cname_eqb (r_name r) (CI src) then em else cancel_request (fst em) (snd em) r).
  assert (G : forall l em, alive (fst em) -> (src = Restart \/ sys (fst em) <> Restarting) ->
                 alive (fst (fold_left f l em)) /\ (sys (fst em) <> Restarting -> sys (fst (fold_left f l em)) <> Restarting)).
  { induction l as [|r l IH]; intros em Aem Hem; cbn [fold_left]; [auto|].
    assert (Step : alive (fst (f em r)) /\ (sys (fst em) <> Restarting -> sys (fst (f em r)) <> Restarting)).
    { unfold f. destruct (cname_eqb (r_name r) (CI src)) eqn:Ec; [auto|].
      apply cancel_request_alive; [exact Aem|].
      destruct Hem as [->|Hem]; [left|now right].
      intros K. rewrite K in Ec. cbn in Ec. discriminate. }
    destruct Step as [A1 N1].
    destruct (IH (f em r) A1) as [A2 N2]; [destruct Hem as [->|Hem]; [now left|right; now apply N1]|].
    split; [exact A2|]. intros K. apply N2. now apply N1. }
  specialize (G (exe e) (e, None) A H). cbn [fst] in G.
  destruct (fold_left f (exe e) (e, None)) as [e' m']. exact G.
Qed.

(* ---------- the bodies of the internal commands ---------- *)
Lemma Inv_flags_only e st pa ho sp :
  st = started e -> pa = paused e -> ho = holding e -> Inv e -> Inv (upd_flags e st pa ho sp).
Proof. intros -> -> -> I. revert I. apply Inv_core. reflexivity. Qed.

Lemma Inv_start_body e : Inv e -> started e = false -> Inv (start_body e) /\ started (start_body e) = true
  /\ sys (start_body e) = Running /\ reg (start_body e) = reg e.
Proof.
  intros [A B C D F W] S. unfold start_body, new_run.
  split; [|split; [|split]]; try reflexivity.
  split; cbn; try assumption; try tauto.
  - discriminate.
  - split; [split; discriminate|]. intros r K. inversion K. lia.
Qed.

(* a stopped state *)
Lemma Inv_of_stopped e :
  started e = false -> paused e = false -> holding e = false -> sys e = Stopped -> trk e = false ->
  run_id e = None -> wok e = true ->
  (forall c, In c (reg e) -> i_name c = Restart -> i_cancelled c = false /\ i_complete c = false) -> Inv e.
Proof.
  intros H1 H2 H3 H4 H5 H6 H7 C. split; auto.
  - intros K. congruence.
  - congruence.
  - split; [tauto|]. intros r Q. congruence.
Qed.

(* Stop, second step: the invariant and what else changes *)
Lemma stop_pre_facts safe e :
  started (stop_pre safe e) = started e /\ paused (stop_pre safe e) = false /\ holding (stop_pre safe e) = false /\
  sys (stop_pre safe e) = Stopped /\ trk (stop_pre safe e) = false /\ run_id (stop_pre safe e) = None /\
  wok (stop_pre safe e) = wok e /\ reg (stop_pre safe e) = reg e /\ restart_pending (stop_pre safe e) = restart_pending e.
Proof.
  unfold stop_pre, apply_safe. destruct (safe_from 0 safe (outs e)) as [cap o]. repeat split.
Qed.

Lemma stop_finish_ok safe e m : Inv e ->
  Inv (fst (stop_finish safe e m)) /\ reg (fst (stop_finish safe e m)) = reg e /\
  exe (fst (stop_finish safe e m)) = match restart_pending e with Some r => [r] | None => [] end /\
  que (fst (stop_finish safe e m)) = [] /\ restart_pending (fst (stop_finish safe e m)) = None.
Proof.
  intros I. unfold stop_finish, stop_core.
  destruct (stop_pre_facts safe e) as [Q0 [Q1 [Q2 [Q3 [Q4 [Q5 [Q6 [Q7 Q8]]]]]]]].
  remember (stop_pre safe e) as e4 eqn:E4. clear E4.
  assert (W4 : wok e4 = true) by (rewrite Q6; apply (inv_wok e I)).
  pose proof (core_write_image e4 W4) as C5.
  assert (P5 : restart_pending (write_image e4) = restart_pending e4).
  { unfold write_image. destruct (negb (started e4)); [reflexivity|]. rewrite W4. reflexivity. }
  remember (write_image e4) as e5 eqn:E5. clear E5.
  set (e6 := stop_flags e5).
  pose proof (core_reset_manager e6 m) as CR.
  split; [|split; [|split; [|split]]].
  - apply Inv_of_stopped.
    + rewrite (core_started _ _ CR). reflexivity.
    + rewrite (core_paused _ _ CR). change (paused e5 = false). rewrite (core_paused _ _ C5). exact Q1.
    + rewrite (core_holding _ _ CR). change (holding e5 = false). rewrite (core_holding _ _ C5). exact Q2.
    + rewrite (core_sys _ _ CR). change (sys e5 = Stopped). rewrite (core_sys _ _ C5). exact Q3.
    + rewrite (core_trk _ _ CR). change (trk e5 = false). rewrite (core_trk _ _ C5). exact Q4.
    + rewrite (core_run_id _ _ CR). change (run_id e5 = None). rewrite (core_run_id _ _ C5). exact Q5.
    + rewrite (core_wok _ _ CR). change (wok e5 = true). rewrite (core_wok _ _ C5). exact W4.
    + rewrite (core_reg _ _ CR). change (reg e6) with (reg e5). rewrite (core_reg _ _ C5), Q7. exact (inv_reg e I).
  - rewrite (core_reg _ _ CR). change (reg e6) with (reg e5). rewrite (core_reg _ _ C5). exact Q7.
  - change (match restart_pending e5 with Some r => [r] | None => [] end = match restart_pending e with Some r => [r] | None => [] end).
    rewrite P5, Q8. reflexivity.
  - reflexivity.
  - reflexivity.
Qed.

Lemma restart_stop_facts e :
  started (restart_stop e) = false /\ paused (restart_stop e) = false /\ holding (restart_stop e) = false /\
  sys (restart_stop e) = Stopped /\ trk (restart_stop e) = false /\ run_id (restart_stop e) = None /\
  wok (restart_stop e) = wok e /\ reg (restart_stop e) = reg e /\ restart_pending (restart_stop e) = restart_pending e.
Proof. repeat split. Qed.

Lemma restart_mid_ok e m : Inv e ->
  Inv (fst (restart_mid e m)) /\ reg (fst (restart_mid e m)) = reg e /\
  exe (fst (restart_mid e m)) = match restart_pending e with Some r => [r] | None => [] end /\
  que (fst (restart_mid e m)) = [] /\ restart_pending (fst (restart_mid e m)) = None.
Proof.
  intros I. split; [|repeat split].
  apply Inv_of_stopped; try reflexivity.
  - exact (inv_wok e I).
  - exact (inv_reg e I).
Qed.

Lemma restart_finish_ok e : Inv e ->
  Inv (restart_finish e) /\ reg (restart_finish e) = reg e /\ sys (restart_finish e) = Running
  /\ exe (restart_finish e) = exe e /\ que (restart_finish e) = que e /\ restart_pending (restart_finish e) = restart_pending e.
Proof.
  intros I. split; [|repeat split]. split.
  - cbn. discriminate.
  - intros _. left. reflexivity.
  - exact (inv_reg e I).
  - reflexivity.
  - split; [split; discriminate|]. cbn. intros r K. inversion K. lia.
  - exact (inv_wok e I).
Qed.

(* the first steps of Pause / Hold / Stop / Restart *)
Lemma pause_begin_facts safe e :
  started (pause_begin safe e) = started e /\ paused (pause_begin safe e) = true /\ holding (pause_begin safe e) = holding e /\
  sys (pause_begin safe e) = Paused /\ reg (pause_begin safe e) = reg e /\ trk (pause_begin safe e) = trk e /\
  run_id (pause_begin safe e) = run_id e /\ next_run (pause_begin safe e) = next_run e /\ wok (pause_begin safe e) = wok e /\
  exe (pause_begin safe e) = exe e /\ que (pause_begin safe e) = que e /\ restart_pending (pause_begin safe e) = restart_pending e.
Proof.
  unfold pause_begin, apply_safe. destruct (safe_from 0 safe _) as [cap o]. repeat split.
Qed.

Lemma Inv_pause_begin safe e : Inv e -> started e = true -> Inv (pause_begin safe e).
Proof.
  intros [A B C D F W] S.
  destruct (pause_begin_facts safe e) as [Q1 [Q2 [Q3 [Q4 [Q5 [Q6 [Q7 [Q8 [Q9 _]]]]]]]]].
  split; rewrite ?Q1, ?Q2, ?Q3, ?Q4, ?Q5, ?Q6, ?Q7, ?Q8, ?Q9; try assumption.
  - intros S'. congruence.
  - intros _. left. unfold fsys. now rewrite Q2.
Qed.

Lemma Inv_hold_begin e : Inv e -> started e = true -> Inv (hold_begin e).
Proof.
  intros [A B C D F W] S. unfold hold_begin. destruct (paused e) eqn:P; split; cbn; try assumption; try (intros S'; congruence).
  - intros _. destruct (B S) as [K|K]; [left|right; exact K]. unfold fsys in *. cbn. now rewrite P in *.
  - intros _. left. unfold fsys. cbn. rewrite ?P. reflexivity.
Qed.
