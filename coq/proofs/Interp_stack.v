(* Invariants of the interpreter model that speak about the generators' stacks: a condition Q on every frame of every
   stack (the running generator's and the ones stored in the interrupt map, the tick's copy of the map included) together
   with a state predicate T, preserved by every transition, hold in every state of every run. The frames a generator has
   yet to execute are suspended while other generators change the state: R bounds what any transition may change and Q
   must be stable under R (rely / guarantee). *)
From Coq Require Import ZArith List Bool Arith Lia.
From OP Require Import lib.Obs model.Interp model.InterpRun proofs.Interp_inv.
Import ListNotations.
Open Scope Z_scope.

Definition o_state (o : outcome) : S := match o with Yield _ _ s' => s' | Go _ s' => s' | Raise _ s' => s' end.
Definition o_stack (o : outcome) : stack := match o with Yield _ k _ => k | Go k _ => k | Raise k _ => k end.

Section StackInv.
  Variable p : program.
  Variable Q : S -> frame -> Prop.
  Variable T : S -> Prop.
  Variable R : S -> S -> Prop.
  Hypothesis R_refl : forall s, R s s.
  Hypothesis R_trans : forall a b c, R a b -> R b c -> R a c.
  Hypothesis Q_stable : forall s s' f, R s s' -> Q s f -> Q s' f.

  Definition stacks_ok (s : S) : Prop := forall x, In x (ints s) -> Forall (Q s) (snd (snd x)).
  Definition G (s : S) (k : stack) : Prop := T s /\ Forall (Q s) k /\ stacks_ok s.

  Hypothesis step_G : forall e b f k s, G s (f :: k) ->
    R s (o_state (step p e b f k s)) /\ G (o_state (step p e b f k s)) (o_stack (step p e b f k s)).
  (* the updates outside the transitions: they leave the interrupt map alone *)
  Hypothesis fail_R : forall s n, R s (set_error (set_ns s n (set_failed (st s n) true)) n).
  Hypothesis fail_T : forall s n, T s -> T (set_error (set_ns s n (set_failed (st s n) true)) n).
  Hypothesis ints_R : forall s i sr, R s (with_ints s i sr).
  Hypothesis ints_T : forall s i sr, T s -> T (with_ints s i sr).
  Hypothesis cmd_R : forall s n, R s (mark_completed s n).
  Hypothesis cmd_T : forall s n, T s -> T (mark_completed s n).
  Hypothesis sched_R : forall s, R s {| nodes := nodes s; ints := ints s; serial := serial s; last_error := last_error s;
                                         block_tag := block_tag s; scheduled := 0; marks := marks s; macros := macros s |}.
  Hypothesis sched_T : forall s, T s -> T {| nodes := nodes s; ints := ints s; serial := serial s; last_error := last_error s;
                                             block_tag := block_tag s; scheduled := 0; marks := marks s; macros := macros s |}.

  Lemma Forall_stable s s' k : R s s' -> Forall (Q s) k -> Forall (Q s') k.
  Proof. intros H F. eapply Forall_impl; [|exact F]. intros f. now apply Q_stable. Qed.
  Lemma stacks_stable s s' : R s s' -> ints s' = ints s -> stacks_ok s -> stacks_ok s'.
  Proof. intros H E O x Hx. rewrite E in Hx. eapply Forall_stable; [exact H|now apply O]. Qed.
  (* a state-only update that keeps the map keeps G *)
  Lemma G_same s s' k : R s s' -> ints s' = ints s -> T s' -> G s k -> G s' k.
  Proof. intros H E Ts [_ [F O]]. split; [exact Ts|]. split; [now apply (Forall_stable s)|now apply (stacks_stable s)]. Qed.

  Lemma unwind_G k : forall s k' s', G s k -> unwind k s = Some (k', s') -> R s s' /\ G s' k'.
  Proof.
    induction k as [|f k IH]; intros s k' s' H U; cbn [unwind] in U; [discriminate|].
    assert (Hk : G s k) by (destruct H as [A [B C]]; split; [exact A|split; [exact (Forall_inv_tail B)|exact C]]).
    destruct f; try (eapply IH; eassumption).
    inversion U; subst. split; [apply fail_R|]. apply (G_same s); [apply fail_R|reflexivity|apply fail_T; apply Hk|exact Hk].
  Qed.

  Lemma next_gen_G e fuel : forall b k s r k' s', G s k -> next_gen p fuel e b k s = Some (r, k', s') -> R s s' /\ G s' k'.
  Proof.
    induction fuel as [|fuel IH]; intros b k s r k' s' H N; cbn [next_gen] in N; [discriminate|].
    destruct k as [|f k]; [inversion N; subst; split; [apply R_refl|exact H]|].
    destruct (step_G e b f k s H) as [Rs Gs]. destruct (step p e b f k s) as [r0 k0 s0|k0 s0|k0 s0]; cbn [o_state o_stack] in Rs, Gs.
    - inversion N; subst. split; assumption.
    - destruct (IH _ _ _ _ _ _ Gs N) as [R2 G2]. split; [eapply R_trans; eassumption|exact G2].
    - destruct (unwind k0 s0) as [[k3 s3]|] eqn:U.
      + destruct (unwind_G _ _ _ _ Gs U) as [R1 G1]. destruct (IH _ _ _ _ _ _ G1 N) as [R2 G2].
        split; [eapply R_trans; [exact Rs|eapply R_trans; eassumption]|exact G2].
      + inversion N; subst. split; [exact Rs|]. destruct Gs as [A [_ C]]. split; [exact A|split; [constructor|exact C]].
  Qed.

  Lemma drive_G e rounds : forall fuel b k s k' s', G s k -> drive p rounds fuel e b k s = Some (k', s') -> R s s' /\ G s' k'.
  Proof.
    induction rounds as [|rounds IH]; intros fuel b k s k' s' H D; cbn [drive] in D; [discriminate|].
    destruct (next_gen p fuel e b k s) as [[[r k2] s2]|] eqn:N; [|discriminate].
    destruct (next_gen_G _ _ _ _ _ _ _ _ H N) as [R1 G1].
    destruct r; try (inversion D; subst; split; assumption).
    destruct (IH _ _ _ _ _ _ G1 D) as [R2 G2]. split; [eapply R_trans; eassumption|exact G2].
  Qed.

  Lemma write_back_In l n sr k x : In x (write_back l n sr k) -> In x l \/ snd (snd x) = k.
  Proof.
    induction l as [|[m [sr0 k0]] l IH]; cbn [write_back]; [tauto|].
    destruct (Nat.eqb m n && Nat.eqb sr0 sr); cbn [In].
    - intros [E|H]; [right; rewrite <- E; reflexivity|left; now right].
    - intros [E|H]; [left; now left|]. destruct (IH H) as [A|B]; [left; now right|now right].
  Qed.

  Definition TS (s : S) : Prop := T s /\ stacks_ok s.
  Lemma run_interrupts_G e rounds fuel snap : forall s s', TS s -> (forall x, In x snap -> Forall (Q s) (snd (snd x))) ->
    run_interrupts p rounds fuel e snap s = Some s' -> R s s' /\ TS s'.
  Proof.
    unfold run_interrupts.
    assert (Gen : forall snap os s s',
              (forall s0, os = Some s0 -> R s s0 /\ TS s0 /\ forall x, In x snap -> Forall (Q s0) (snd (snd x))) ->
              fold_left (fun os x => match os with
                                     | None => None
                                     | Some s0 => match drive p rounds fuel e true (snd (snd x)) s0 with
                                                  | None => None
                                                  | Some (k', s1) => Some (with_ints s1 (write_back (ints s1) (fst x) (fst (snd x)) k') (serial s1))
                                                  end
                                     end) snap os = Some s' -> R s s' /\ TS s').
    { induction snap0 as [|x snap0 IH]; intros os s s' H F; cbn [fold_left] in F.
      - destruct (H s' F) as [A [B _]]. split; assumption.
      - eapply IH; [|exact F]. intros s2 E. destruct os as [s0|]; cbv beta iota in E; [|discriminate].
        destruct (H s0 eq_refl) as [R0 [[T0 O0] Sn]].
        match type of E with match ?d with _ => _ end = _ => destruct d as [[k' s1]|] eqn:D end; [|discriminate].
        assert (G0 : G s0 (snd (snd x))) by (split; [exact T0|split; [apply Sn; now left|exact O0]]).
        destruct (drive_G _ _ _ _ _ _ _ _ G0 D) as [R1 [T1 [F1 O1]]].
        inversion E; subst s2. set (s1' := with_ints s1 _ _).
        assert (R1' : R s1 s1') by apply ints_R.
        split; [eapply R_trans; [exact R0|eapply R_trans; eassumption]|]. split; [split; [now apply ints_T|]|].
        + intros y Hy. unfold s1' in Hy. cbn [ints with_ints] in Hy. apply write_back_In in Hy as [Hy|Hy].
          * eapply Forall_stable; [exact R1'|now apply O1].
          * rewrite Hy. eapply Forall_stable; [exact R1'|exact F1].
        + intros y Hy. eapply Forall_stable; [eapply R_trans; [exact R1|exact R1']|]. apply Sn. now right. }
    intros s s' H Sn F. eapply Gen; [|exact F]. intros s0 E. inversion E; subst. split; [apply R_refl|split; assumption].
  Qed.

  Theorem tick_G e rounds fuel main s main' s' raised :
    G s main -> tick p rounds fuel e main s = Some (main', s', raised) -> R s s' /\ G s' main'.
  Proof.
    intros H Tk. unfold tick in Tk. set (s0 := {| nodes := nodes s; scheduled := 0 |}) in Tk.
    assert (H0 : G s0 main) by (apply (G_same s); [apply sched_R|reflexivity|apply sched_T; apply H|exact H]).
    destruct (drive p rounds fuel e false main s0) as [[m1 s1]|] eqn:D; [|discriminate].
    destruct (drive_G _ _ _ _ _ _ _ _ H0 D) as [R1 [T1 [F1 O1]]].
    destruct (run_interrupts p rounds fuel e (ints s1) s1) as [s2|] eqn:RI; [|discriminate].
    destruct (run_interrupts_G _ _ _ _ _ _ (conj T1 O1) O1 RI) as [R2 [T2 O2]].
    inversion Tk; subst. split; [eapply R_trans; [apply sched_R|eapply R_trans; eassumption]|].
    split; [exact T2|split; [eapply Forall_stable; eassumption|exact O2]].
  Qed.

  Lemma complete_cmds_G l : forall s k, G s k -> G (fold_left (complete_cmd p) l s) k.
  Proof.
    induction l as [|n l IH]; intros s k H; cbn [fold_left]; [exact H|]. apply IH. unfold complete_cmd.
    destruct (n_kind (nd p n)); try exact H. destruct (started (st s n) && negb (completed (st s n))); [|exact H].
    apply (G_same s); [apply cmd_R| |apply cmd_T; apply H|exact H].
    unfold mark_completed. now destruct (failed (st s n)).
  Qed.

  Theorem run_G ts : forall main s now, G s main -> Forall T (states p main s now ts).
  Proof.
    induction ts as [|t ts IH]; intros main s now H; cbn [states]; [constructor|].
    set (s1 := fold_left (complete_cmd p) (t_complete t) s).
    assert (H1 : G s1 main) by now apply complete_cmds_G.
    destruct (tick p (rounds_of p) (fuel_of p) _ main s1) as [[[main' s2] r]|] eqn:Tk; [|constructor].
    destruct (tick_G _ _ _ _ _ _ _ _ H1 Tk) as [_ H2]. constructor; [apply H2|now apply IH].
  Qed.

  (* runs in which further updates are applied between the ticks (cancel / force requests): they change no stack *)
  Variable upd : Type.
  Variable apply : S -> upd -> S.
  Hypothesis upd_R : forall s u, R s (apply s u).
  Hypothesis upd_T : forall s u, T s -> T (apply s u).
  (* they leave the interrupt map alone, or add generators whose frames satisfy Q (an injected snippet) *)
  Hypothesis upd_stacks : forall s u, T s -> stacks_ok s -> stacks_ok (apply s u).

  Lemma applies_G l : forall s k, G s k -> G (fold_left apply l s) k.
  Proof.
    induction l as [|u l IH]; intros s k H; cbn [fold_left]; [exact H|]. apply IH. destruct H as [Ts [F O]].
    split; [now apply upd_T|]. split; [eapply Forall_stable; [apply upd_R|exact F]|now apply upd_stacks].
  Qed.

  Fixpoint gstates (main : stack) (s : S) (now : Z) (ts : list (tick_in * list upd)) : list S :=
    match ts with
    | [] => []
    | (t, us) :: ts' =>
        let s1 := fold_left apply us (fold_left (complete_cmd p) (t_complete t) s) in
        let now' := now + 5 * t_dt t in
        let e := {| e_time := now'; e_thr_wait := t_thr_wait t; e_cond_true := t_cond_true t; e_cond_err := t_cond_err t |} in
        match tick p (rounds_of p) (fuel_of p) e main s1 with
        | None => []
        | Some (main', s2, _) => s2 :: gstates main' s2 now' ts'
        end
    end.

  Theorem grun_G ts : forall main s now, G s main -> Forall T (gstates main s now ts).
  Proof.
    induction ts as [|[t us] ts IH]; intros main s now H; cbn [gstates]; [constructor|].
    set (s1 := fold_left apply us (fold_left (complete_cmd p) (t_complete t) s)).
    assert (H1 : G s1 main) by (apply applies_G; now apply complete_cmds_G).
    destruct (tick p (rounds_of p) (fuel_of p) _ main s1) as [[[main' s2] r]|] eqn:Tk; [|constructor].
    destruct (tick_G _ _ _ _ _ _ _ _ H1 Tk) as [_ H2]. constructor; [apply H2|now apply IH].
  Qed.
End StackInv.
