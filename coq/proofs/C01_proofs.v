(* C01: facts about the model of live edits as implemented. *)
From Coq Require Import ZArith List Bool Arith Lia.
From OP Require Import lib.Obs model.Interp model.InterpRun model.C01 proofs.Interp_inv proofs.C05_proofs.
Import ListNotations.
Open Scope Z_scope.

(* a rejected edit changes nothing *)
Lemma rejected_changes_nothing m e m' : apply_edit m e = (m', false) -> m' = m.
Proof.
  unfold apply_edit. destruct (m_detached m); [intros H; inversion H|].
  destruct (existsb (protected (m_s m)) (e_changed e)); intros H; inversion H; reflexivity.
Qed.
(* while the manager holds the interpreter's program, an edit is rejected exactly when it changes a started or completed line *)
Lemma attached_rejected_iff m e : m_detached m = false ->
  (snd (apply_edit m e) = false <-> existsb (protected (m_s m)) (e_changed e) = true).
Proof.
  intros D. unfold apply_edit. rewrite D. destruct (existsb (protected (m_s m)) (e_changed e)); cbn [snd]; split; auto; discriminate.
Qed.
(* REFUTED clause 3: after an accepted edit the manager is detached, and a detached manager accepts any edit *)
Lemma detached_accepts_everything m e : m_detached m = true -> snd (apply_edit m e) = true.
Proof. intros D. unfold apply_edit. now rewrite D. Qed.
Lemma accepted_merge_detaches m e m' : m_detached m = false -> apply_edit m e = (m', true) -> m_detached m' = true.
Proof.
  intros D. unfold apply_edit. rewrite D. destruct (existsb (protected (m_s m)) (e_changed e)); intros H; inversion H; reflexivity.
Qed.

(* REFUTED clause 1: an accepted edit leaves no line started or completed, whatever had run *)
Lemma nth_repeat_ns0 n k : nth n (repeat ns0 k) ns0 = ns0.
Proof. revert n. induction k as [|k IH]; intros [|n]; cbn; auto. Qed.
Lemma fresh_clean p omap s n : started (st (fresh p omap s) n) = false /\ completed (st (fresh p omap s) n) = false.
Proof. unfold Interp.st, fresh. cbn [nodes]. rewrite nth_repeat_ns0. split; reflexivity. Qed.
Definition clean (s : S) : Prop := forall n, started (st s n) = false /\ completed (st s n) = false.
Lemma register_clean p s i : clean s -> clean (register_interrupt p s i).
Proof.
  intros C n. unfold register_interrupt. destruct (in_ended_block p s i); [apply C|].
  set (s1 := with_ints s _ _). rewrite st_set_ns. destruct (_ && _) eqn:E.
  - apply andb_prop in E as [E _]. apply Nat.eqb_eq in E. subst n. cbn [set_cond started completed]. apply (C i).
  - apply (C n).
Qed.
Theorem accepted_edit_drops_all_progress m e m' : apply_edit m e = (m', true) -> clean (m_s m').
Proof.
  unfold apply_edit. destruct (m_detached m).
  - intros H. inversion H; subst. cbn [m_s]. intros n. apply fresh_clean.
  - destruct (existsb (protected (m_s m)) (e_changed e)); [intros H; inversion H|]. intros H. inversion H; subst. cbn [m_s].
    set (f := fun (acc : S) (x : nat * (nat * stack)) => _).
    assert (G : forall l s0, clean s0 -> clean (fold_left f l s0)).
    { induction l as [|x l IH]; intros s0 C; cbn [fold_left]; [exact C|]. apply IH. unfold f.
      destruct (index_of_old (e_old e) (fst x)) as [i|]; [|exact C]. destruct (has_children (e_prog e) i); [now apply register_clean|exact C]. }
    apply G. intros n. apply fresh_clean.
Qed.
