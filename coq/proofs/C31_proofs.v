From Coq Require Import ZArith List Bool Arith Lia.
From OP Require Import lib.Obs model.C31.
Import ListNotations.
Open Scope Z_scope.

(* The invariant: whoever is inside the critical section saw the current version, and every
   accepted save was based on a version smaller than the current one, bases strictly increasing. *)
Fixpoint increasing (l : list Z) (bound : Z) : Prop :=   (* strictly increasing, all < bound *)
  match l with
  | [] => True
  | x :: l' => x < bound /\ (forall y, In y l' -> x < y) /\ increasing l' bound
  end.

Record Inv (s : st) : Prop := {
  inv_holder : forall i b, holder s = Some (i, b) -> version s = b;
  inv_acc : increasing (map snd (accepted s)) (version s)
}.

Lemma increasing_weaken l b b' : b <= b' -> increasing l b -> increasing l b'.
Proof. induction l as [|x l IH]; cbn; intros Hb H; [exact I|]. destruct H as [H1 [H2 H3]]. repeat split; [lia|auto|auto]. Qed.

Lemma increasing_bound l b y : increasing l b -> In y l -> y < b.
Proof. induction l as [|x l IH]; cbn; intros H Hin; [contradiction|]. destruct H as [H1 [H2 H3]]. destruct Hin as [<-|Hin]; auto. Qed.

Lemma increasing_snoc l b : increasing l b -> increasing (l ++ [b]) (b + 1).
Proof.
  induction l as [|x l IH]; cbn; intros H; [repeat split; [lia|tauto]|].
  destruct H as [H1 [H2 H3]]. repeat split; [lia| |auto].
  intros y Hy. apply in_app_or in Hy as [Hy|[<-|[]]]; [auto|exact H1].
Qed.

Lemma enter_inv s i b : holder s = None -> Inv s -> Inv (enter s i b).
Proof.
  intros Hh [H1 H2]. unfold enter. destruct (version s =? b) eqn:E; constructor; cbn; try assumption.
  - intros i' b' Hs. inversion Hs; subst. now apply Z.eqb_eq.
  - discriminate.
Qed.

Lemma grant_inv q : forall s, holder s = None -> Inv s -> Inv (grant s q).
Proof.
  induction q as [|[i b] q IH]; intros s Hh HI; cbn [grant].
  - destruct HI as [H1 H2]. constructor; cbn; [discriminate|exact H2].
  - set (s1 := {| version := version s; holder := None; queue := q; stat := stat s;
                  rpc_log := rpc_log s; accepted := accepted s |}).
    assert (HI1 : Inv s1) by (destruct HI as [H1 H2]; constructor; cbn; [discriminate|exact H2]).
    pose proof (enter_inv s1 i b eq_refl HI1) as HI2.
    destruct (holder (enter s1 i b)) eqn:E; [exact HI2|]. apply IH; assumption.
Qed.

Lemma step_inv s o : Inv s -> Inv (step s o).
Proof.
  intros HI. destruct o as [i b|i ok]; cbn [step].
  - destruct (holder s) as [[j bj]|] eqn:Eh.
    + destruct HI as [H1 H2]. constructor; cbn; [rewrite Eh in *; exact H1|exact H2].
    + now apply enter_inv.
  - destruct (holder s) as [[j base]|] eqn:Eh; [|exact HI].
    destruct (Nat.eqb i j); [|exact HI].
    destruct HI as [H1 H2]. pose proof (H1 j base Eh) as Hv.
    destruct ok; cbn [queue]; apply grant_inv; try reflexivity; constructor; cbn; try discriminate.
    + rewrite map_app. cbn. rewrite Hv in H2. now apply increasing_snoc.
    + exact H2.
Qed.

Lemma init_inv v : Inv (init v).
Proof. constructor; cbn; [discriminate|exact I]. Qed.

Lemma reachable_inv os : forall s, Inv s -> Inv (final s os).
Proof. induction os as [|o os IH]; intros s H; cbn; [exact H|]. apply IH, step_inv, H. Qed.

(* consequences *)
Lemma increasing_nodup l b : increasing l b -> NoDup l.
Proof.
  induction l as [|x l IH]; cbn; intros H; [constructor|]. destruct H as [H1 [H2 H3]].
  constructor; [|auto]. intros Hin. specialize (H2 x Hin). lia.
Qed.

(* grant never touches the version or the accepted list *)
Lemma enter_version s i b : version (enter s i b) = version s /\ accepted (enter s i b) = accepted s.
Proof. unfold enter. destruct (version s =? b); cbn; auto. Qed.
Lemma grant_version q : forall s, version (grant s q) = version s /\ accepted (grant s q) = accepted s.
Proof.
  induction q as [|[i b] q IH]; intros s; cbn [grant]; [cbn; auto|].
  match goal with |- context [enter ?s1 i b] => set (t := s1) end.
  destruct (enter_version t i b) as [E1 E2].
  destruct (holder (enter t i b)); [rewrite E1, E2; cbn; auto|].
  destruct (IH (enter t i b)) as [G1 G2]. rewrite G1, G2, E1, E2. cbn. auto.
Qed.

(* the version changes only when a save is accepted: by exactly one, from that save's base *)
Lemma step_version s o : Inv s ->
  (version (step s o) = version s /\ accepted (step s o) = accepted s)
  \/ (exists i, o = Reply i true /\ holder s = Some (i, version s)
                /\ version (step s o) = version s + 1 /\ accepted (step s o) = accepted s ++ [(i, version s)]).
Proof.
  intros HI. destruct o as [i b|i ok]; cbn [step].
  - left. destruct (holder s); [cbn; auto|apply enter_version].
  - destruct (holder s) as [[j base]|] eqn:Eh; [|left; auto].
    destruct (Nat.eqb i j) eqn:Eij; [|left; auto]. apply Nat.eqb_eq in Eij. subst j.
    pose proof (inv_holder s HI i base Eh) as Hv.
    destruct ok; cbn [queue].
    + right. exists i. match goal with |- context [grant ?t ?q] => destruct (grant_version q t) as [G1 G2] end.
      rewrite G1, G2. cbn. subst base. auto.
    + left. match goal with |- context [grant ?t ?q] => destruct (grant_version q t) as [G1 G2] end.
      rewrite G1, G2. cbn. auto.
Qed.
