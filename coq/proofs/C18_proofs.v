(* Proofs for C18: the instruction-line recogniser recovers exactly the parts a line was rendered from
   (general, by span lemmas), and the tag-operator-value parser recovers tag, operator, value and unit
   for every operator spelling and every supported unit (finite sweep over the generated tables). *)
From Coq Require Import ZArith List Bool Lia.
From OP Require Import lib.Obs gen.Grammar model.C18.
Import ListNotations.
Open Scope Z_scope.

(* ---------- span ---------- *)
Lemma span_app p (a b : str) :
  forallb p a = true -> match b with [] => True | c :: _ => p c = false end ->
  span p (a ++ b) = (a, b).
Proof.
  induction a as [|x a IH]; intros Ha Hb; cbn [app span].
  - destruct b as [|c b]; [reflexivity|]. cbn [span]. now rewrite Hb.
  - cbn [forallb] in Ha. apply andb_true_iff in Ha as [Hx Ha]. rewrite Hx, (IH Ha Hb). reflexivity.
Qed.

Lemma span_all p (a : str) : forallb p a = true -> span p a = (a, []).
Proof. intros H. rewrite <- (app_nil_r a) at 1. now apply span_app. Qed.

Lemma span_split p (s : str) : s = fst (span p s) ++ snd (span p s) /\ forallb p (fst (span p s)) = true.
Proof.
  induction s as [|c s [IH1 IH2]]; cbn [span]; [now split|].
  destruct (p c) eqn:E; [|now split].
  destruct (span p s) as [a b]. cbn [fst snd] in *. split; [now rewrite IH1 at 1|]. cbn [forallb]. now rewrite E.
Qed.

Lemma span_fst_app p (a x : str) : forallb p a = true -> fst (span p (a ++ x)) = a ++ fst (span p x).
Proof.
  induction a as [|c a IH]; intros H; cbn [app]; [reflexivity|].
  cbn [forallb] in H. apply andb_true_iff in H as [Hc Ha]. cbn [span]. rewrite Hc.
  specialize (IH Ha). destruct (span p (a ++ x)) as [u v]. cbn [fst] in *. now rewrite IH.
Qed.

Lemma span_fst_cons p c (s : str) : p c = true -> fst (span p (c :: s)) = c :: fst (span p s).
Proof. intros H. cbn [span]. rewrite H. now destruct (span p s). Qed.

Lemma forallb_span_fst (q p : Z -> bool) (s : str) : forallb q s = true -> forallb q (fst (span p s)) = true.
Proof.
  induction s as [|c s IH]; intros H; cbn [span]; [reflexivity|].
  cbn [forallb] in H. apply andb_true_iff in H as [Hc Hs].
  destruct (p c); [|reflexivity]. specialize (IH Hs). destruct (span p s) as [u v]. cbn [fst forallb] in *. now rewrite Hc, IH.
Qed.

Lemma forallb_rev (p : Z -> bool) (s : str) : forallb p (rev s) = forallb p s.
Proof.
  induction s as [|c s IH]; [reflexivity|]. cbn [rev forallb]. rewrite forallb_app, IH. cbn [forallb]. now rewrite andb_true_r, andb_comm.
Qed.

(* ---------- character classes: disjointness is decided on the range tables ---------- *)
Definition ranges_disjoint (r1 r2 : list (Z * Z)) : bool :=
  forallb (fun a => forallb (fun b => (snd a <? fst b) || (snd b <? fst a)) r2) r1.

Lemma ranges_disjoint_sound r1 r2 c :
  ranges_disjoint r1 r2 = true -> in_ranges r1 c = true -> in_ranges r2 c = false.
Proof.
  unfold ranges_disjoint, in_ranges. intros Hd H1.
  apply existsb_exists in H1 as [a [Ha Hin]].
  apply not_true_is_false. intros H2. apply existsb_exists in H2 as [b [Hb Hinb]].
  rewrite forallb_forall in Hd. specialize (Hd a Ha). rewrite forallb_forall in Hd. specialize (Hd b Hb).
  lia.
Qed.

Definition name_start_ranges : list (Z * Z) := [(97, 122); (65, 90); (95, 95); (48, 57)].
Lemma name_start_ranges_ok c : is_name_start c = in_ranges name_start_ranges c.
Proof. unfold is_name_start, in_ranges, name_start_ranges. cbn [existsb fst snd]. rewrite orb_false_r.
  replace ((95 <=? c) && (c <=? 95)) with (c =? 95) by lia. now rewrite !orb_assoc. Qed.

Lemma digit_not_space c : is_udigit c = true -> is_space c = false.
Proof. apply ranges_disjoint_sound. vm_compute. reflexivity. Qed.
Lemma name_start_not_space c : is_name_start c = true -> is_space c = false.
Proof. rewrite name_start_ranges_ok. apply ranges_disjoint_sound. vm_compute. reflexivity. Qed.
Lemma space_not_in c x : is_space x = false -> is_space c = true -> (x =? c) = false.
Proof. intros Hx Hc. destruct (x =? c) eqn:E; [|reflexivity]. apply Z.eqb_eq in E. subst. congruence. Qed.
Lemma digit_is c x : is_udigit x = false -> is_udigit c = true -> (c =? x) = false.
Proof. intros Hx Hc. destruct (c =? x) eqn:E; [|reflexivity]. apply Z.eqb_eq in E. subst. congruence. Qed.
Lemma name_start_is c x : is_name_start x = false -> is_name_start c = true -> (c =? x) = false.
Proof. intros Hx Hc. destruct (c =? x) eqn:E; [|reflexivity]. apply Z.eqb_eq in E. subst. congruence. Qed.

(* ---------- strip and the has_argument flag ---------- *)
Lemma rstrip_decomp (s : str) : exists ws, s = rstrip s ++ ws /\ forallb is_space ws = true.
Proof.
  unfold rstrip, lstrip. destruct (span_split is_space (rev s)) as [H1 H2].
  exists (rev (fst (span is_space (rev s)))). split; [|now rewrite forallb_rev].
  rewrite <- rev_app_distr, <- H1. now rewrite rev_involutive.
Qed.

Lemma colon_before_hash_ws (s ws : str) : forallb is_space ws = true ->
  existsb (Z.eqb colon) (fst (span not_hash (s ++ ws))) = existsb (Z.eqb colon) (fst (span not_hash s)).
Proof.
  intros Hws. induction s as [|c s IH]; cbn [app].
  - cbn [span fst existsb]. apply not_true_is_false. intros H. apply existsb_exists in H as [x [Hin Hx]].
    pose proof (forallb_span_fst is_space not_hash ws Hws) as Hf. rewrite forallb_forall in Hf.
    specialize (Hf x Hin). apply Z.eqb_eq in Hx. subst x. vm_compute in Hf. discriminate.
  - cbn [span]. destruct (not_hash c); [|reflexivity].
    destruct (span not_hash (s ++ ws)) as [u v]. destruct (span not_hash s) as [u' v']. cbn [fst existsb] in *. now rewrite IH.
Qed.

Lemma has_argument_strip (i : nat) (body : str) :
  match body with [] => False | c :: _ => is_space c = false end ->
  existsb (Z.eqb colon) (fst (span not_hash (strip (repeat space i ++ body))))
  = existsb (Z.eqb colon) (fst (span not_hash body)).
Proof.
  intros Hb. unfold strip. replace (lstrip (repeat space i ++ body)) with body.
  - destruct (rstrip_decomp body) as [ws [E Hws]]. rewrite E at 2. now rewrite colon_before_hash_ws.
  - unfold lstrip. rewrite span_app; [reflexivity| |destruct body; [contradiction|exact Hb]].
    clear. induction i; [reflexivity|]. cbn [repeat forallb]. now rewrite IHi.
Qed.

(* ---------- well-formed parts ---------- *)
Definition nonempty (s : str) : Prop := s <> [].
Definition wf_digits (d : str) : Prop := d <> [] /\ forallb is_udigit d = true.
Definition thr_text (t : str * option str) : str :=
  match t with (d1, None) => d1 | (d1, Some d2) => d1 ++ dot :: d2 end.
Definition wf_thr (t : str * option str) : Prop :=
  wf_digits (fst t) /\ match snd t with None => True | Some d2 => wf_digits d2 end.
Definition starts_unspaced (c : str) : Prop := match c with [] => True | x :: _ => is_space x = false end.

Record wf_line (thr : option (str * option str)) (name : str) (arg comment : option str) : Prop := {
  wf_t : match thr with Some t => wf_thr t | None => True end;
  wf_n0 : match name with [] => False | c :: _ => is_name_start c = true /\ (thr = None -> is_udigit c = false) end;
  wf_n : forallb not_colon_hash name = true;
  wf_a : match arg with Some a => a <> [] /\ forallb not_hash a = true | None => True end;
  wf_c : match comment with Some c => starts_unspaced c | None => True end }.

Lemma threshold_at_some t n0 rest : wf_thr t -> is_name_start n0 = true ->
  threshold_at (thr_text t ++ space :: n0 :: rest) = Some (thr_text t, n0 :: rest).
Proof.
  destruct t as [d1 od2]. intros [[Hne1 Hd1] H2] Hn0. cbn [fst snd thr_text] in *.
  unfold threshold_at. destruct od2 as [d2|].
  - destruct H2 as [Hne2 Hd2]. rewrite <- app_assoc. cbn [app].
    rewrite (span_app is_udigit d1 _ Hd1) by reflexivity.
    destruct d1 as [|x d1]; [congruence|]. rewrite Z.eqb_refl.
    rewrite (span_app is_udigit d2 _ Hd2) by reflexivity.
    destruct d2 as [|y d2]; [congruence|]. rewrite Hn0. reflexivity.
  - rewrite (span_app is_udigit d1 _ Hd1) by reflexivity.
    destruct d1 as [|x d1]; [congruence|]. rewrite Hn0. reflexivity.
Qed.

Lemma threshold_at_none c rest : is_udigit c = false -> threshold_at (c :: rest) = None.
Proof. intros H. unfold threshold_at. cbn [span]. now rewrite H. Qed.

Definition render (i : nat) (thr : option (str * option str)) (name : str) (arg comment : option str) : str :=
  render_line i (option_map thr_text thr) name arg comment.

Lemma not_hash_weaken s : forallb not_colon_hash s = true -> forallb not_hash s = true.
Proof.
  intros H. rewrite forallb_forall in *. intros x Hx. specialize (H x Hx). unfold not_colon_hash, not_hash in *.
  destruct (x =? hash); [now rewrite orb_true_r in H|reflexivity].
Qed.
Lemma no_colon s : forallb not_colon_hash s = true -> existsb (Z.eqb colon) s = false.
Proof.
  intros H. apply not_true_is_false. intros E. apply existsb_exists in E as [x [Hin Hx]].
  rewrite forallb_forall in H. specialize (H x Hin). apply Z.eqb_eq in Hx. subst. vm_compute in H. discriminate.
Qed.
Lemma digits_nch d : forallb is_udigit d = true -> forallb not_colon_hash d = true.
Proof.
  intros H. rewrite forallb_forall in *. intros x Hx. specialize (H x Hx). unfold not_colon_hash.
  rewrite (digit_is x colon), (digit_is x hash); auto.
Qed.
Lemma thr_nch t : wf_thr t -> forallb not_colon_hash (thr_text t) = true.
Proof.
  destruct t as [d1 [d2|]]; intros [[_ H1] H2]; cbn [fst snd thr_text] in *; [|now apply digits_nch].
  destruct H2 as [_ H2]. rewrite forallb_app. cbn [forallb]. now rewrite !digits_nch.
Qed.

(* the tail after the instruction name, and what the recogniser extracts from it *)
Definition tail_of (arg comment : option str) : str :=
  match arg with Some a => colon :: space :: a | None => [] end
  ++ match comment with Some c => space :: hash :: space :: c | None => [] end.

Lemma lstrip_unspaced c : starts_unspaced c -> lstrip c = c.
Proof. unfold lstrip. destruct c as [|x c]; [reflexivity|]. cbn. intros H. now rewrite H. Qed.

Lemma comment_of c : starts_unspaced c ->
  match lstrip (hash :: space :: c) with [] => None | h :: r4 => if h =? hash then Some (lstrip r4) else None end = Some c.
Proof.
  intros H. change (lstrip (hash :: space :: c)) with (hash :: space :: c). cbv beta iota. rewrite Z.eqb_refl.
  replace (lstrip (space :: c)) with (lstrip c); [now rewrite lstrip_unspaced|].
  unfold lstrip. cbn [span]. change (is_space space) with true. cbv iota. now destruct (span is_space c).
Qed.

Theorem split_line_roundtrip i thr name arg comment :
  wf_line thr name arg comment ->
  split_line (render i thr name arg comment) = expected_line i (option_map thr_text thr) name arg comment.
Proof.
  intros [Ht Hn0 Hn Ha Hc].
  destruct name as [|n0 name']; [contradiction|]. destruct Hn0 as [Hn0 Hnd].
  set (name := n0 :: name') in *.
  set (tail := tail_of arg comment).
  set (body := match thr with Some t => thr_text t ++ [space] | None => [] end ++ name ++ tail).
  assert (Hline : render i thr name arg comment = repeat space i ++ body).
  { unfold render, render_line, body, tail, tail_of. destruct thr; cbn [option_map]; now rewrite <- ?app_assoc. }
  assert (Hb0 : match body with [] => False | c :: _ => is_space c = false /\ (c =? hash) = false end).
  { unfold body. destruct thr as [[d1 od2]|].
    - destruct Ht as [[Hne Hd] _]. cbn [fst] in *. destruct d1 as [|x d1]; [congruence|].
      cbn [forallb] in Hd. apply andb_true_iff in Hd as [Hx _].
      destruct od2; cbn; (split; [now apply digit_not_space|now apply digit_is]).
    - cbn. split; [now apply name_start_not_space|now apply name_start_is]. }
  assert (Hsp : forallb is_space (repeat space i) = true).
  { clear. induction i; [reflexivity|]. cbn [repeat forallb]. now rewrite IHi. }
  (* has_argument *)
  assert (Hhas : existsb (Z.eqb colon) (fst (span not_hash (strip (render i thr name arg comment))))
                 = match arg with Some _ => true | None => false end).
  { rewrite Hline, has_argument_strip by (destruct body; [contradiction|tauto]).
    set (P := match thr with Some t => thr_text t ++ [space] | None => [] end ++ name).
    assert (HP : forallb not_colon_hash P = true).
    { unfold P. rewrite forallb_app, Hn. destruct thr; [|reflexivity]. rewrite forallb_app, thr_nch by assumption. reflexivity. }
    replace body with (P ++ tail) by (unfold P, body; now rewrite app_assoc).
    rewrite span_fst_app by now apply not_hash_weaken. rewrite existsb_app, (no_colon P HP). cbn [orb].
    unfold tail, tail_of. destruct arg as [a|].
    - cbn [app]. rewrite span_fst_cons by reflexivity. cbn [existsb]. now rewrite Z.eqb_refl.
    - destruct comment; reflexivity. }
  unfold split_line. rewrite Hhas. rewrite Hline at 1.
  rewrite (span_app is_space (repeat space i) body Hsp) by (destruct body; [exact I|tauto]).
  destruct body as [|c0 body'] eqn:Ebody; [contradiction|]. destruct Hb0 as [_ Hh]. cbv beta iota. rewrite Hh.
  rewrite repeat_length.
  (* threshold *)
  assert (Hthr : threshold_at (c0 :: body') = option_map (fun t => (thr_text t, name ++ tail)) thr
                 /\ (thr = None -> c0 :: body' = name ++ tail)).
  { rewrite <- Ebody. unfold body. destruct thr as [t|]; cbn [option_map].
    - split; [|discriminate]. rewrite <- app_assoc. cbn [app]. unfold name. cbn [app]. now rewrite threshold_at_some.
    - split; [|reflexivity]. cbn [app]. unfold name. cbn [app]. now rewrite threshold_at_none by auto. }
  destruct Hthr as [Hthr Hnone]. rewrite Hthr.
  assert (Hgoal : forall X : option str -> str -> parts,
            X (option_map thr_text thr) (name ++ tail) = expected_line i (option_map thr_text thr) name arg comment ->
            (let '(thr0, body1) := match option_map (fun t => (thr_text t, name ++ tail)) thr with
                                   | Some (t, r) => (Some t, r) | None => (None, c0 :: body') end in X thr0 body1)
            = expected_line i (option_map thr_text thr) name arg comment).
  { intros X HX. destruct thr as [t|]; cbn [option_map] in *; [exact HX|]. now rewrite Hnone. }
  match goal with |- match ?m with (t0, b0) => @?F t0 b0 end = _ => apply (Hgoal F) end.
  cbv beta iota. unfold name at 1. cbn [app]. rewrite Hn0.
  change (n0 :: name' ++ tail) with (name ++ tail).
  (* name, argument, comment *)
  unfold expected_line, tail, tail_of.
  destruct arg as [a|]; destruct comment as [c|]; cbn [app].
  - destruct Ha as [Hane Hah]. rewrite (span_app not_colon_hash name _ Hn) by reflexivity.
    cbn [Z.eqb andb]. rewrite !Z.eqb_refl. cbn [andb].
    replace (a ++ space :: hash :: space :: c) with ((a ++ [space]) ++ hash :: space :: c) by now rewrite <- app_assoc.
    rewrite (span_app not_hash (a ++ [space])) by (rewrite ?forallb_app, ?Hah; reflexivity).
    destruct (a ++ [space]) eqn:E; [now destruct a|]. rewrite <- E.
    now rewrite comment_of.
  - destruct Ha as [Hane Hah]. rewrite (span_app not_colon_hash name _ Hn) by reflexivity.
    rewrite !Z.eqb_refl. cbn [andb]. rewrite app_nil_r, (span_all not_hash a Hah).
    destruct a; [congruence|]. reflexivity.
  - replace (name ++ space :: hash :: space :: c) with ((name ++ [space]) ++ hash :: space :: c) by now rewrite <- app_assoc.
    rewrite (span_app not_colon_hash (name ++ [space])) by (rewrite ?forallb_app, ?Hn; reflexivity).
    change (hash =? colon) with false. cbn [andb].
    now rewrite comment_of.
  - rewrite app_nil_r, (span_all not_colon_hash name Hn). reflexivity.
Qed.

(* ---------- tag operator value: finite sweep over the generated operator and unit tables ---------- *)
Definition sweep_tags : list str := [[84; 84; 48; 49]; [82; 117; 110; 32; 84; 105; 109; 101]; [120; 95; 121]; [233]].
Definition sweep_values : list str := [[53]; [49; 46; 53]; [45; 51]; [48; 46; 50; 53]; [43; 50]; [46; 53]; [53; 46]; [49; 101; 51]; [50; 69; 45; 50]].
Definition tov_ok (ops : list str) (tag op v : str) (u : option str) : bool :=
  tov_eqb (parse_tov ops (render_tov tag op v u)) (expected_tov tag op v u).
Definition sweep (ops : list str) : bool :=
  forallb (fun tag => forallb (fun op => forallb (fun v =>
    tov_ok ops tag op v None && forallb (fun u => tov_ok ops tag op v (Some u)) supported_units)
    sweep_values) ops) sweep_tags.

Lemma sweep_conditions : sweep condition_operators = true.
Proof. vm_compute. reflexivity. Qed.
Lemma sweep_assignments : sweep assignment_operators = true.
Proof. vm_compute. reflexivity. Qed.

Lemma tov_sweep_spec ops tag op v u :
  sweep ops = true -> In tag sweep_tags -> In op ops -> In v sweep_values ->
  match u with Some x => In x supported_units | None => True end ->
  tov_eqb (parse_tov ops (render_tov tag op v u)) (expected_tov tag op v u) = true.
Proof.
  unfold sweep. intros H Ht Ho Hv Hu.
  rewrite forallb_forall in H. specialize (H tag Ht).
  rewrite forallb_forall in H. specialize (H op Ho).
  rewrite forallb_forall in H. specialize (H v Hv).
  apply andb_true_iff in H as [H0 H1]. destruct u as [x|]; [|exact H0].
  rewrite forallb_forall in H1. exact (H1 x Hu).
Qed.

(* every character of every supported unit is in the condition unit class (what the fix restored) *)
Lemma units_in_class : forallb (forallb is_unit_char) supported_units = true.
Proof. vm_compute. reflexivity. Qed.

(* the monitor is satisfied by the model on well-formed lines *)
Lemma monitor_line i thr name arg comment : wf_line thr name arg comment ->
  holds_b (QLineWF i (option_map thr_text thr) name arg comment)
          (run (QLineWF i (option_map thr_text thr) name arg comment)) = true.
Proof.
  intros H. cbn [run holds_b]. fold (render i thr name arg comment). rewrite split_line_roundtrip by assumption.
  assert (R : forall p, parts_eqb p p = true).
  { assert (S : forall s, str_eqb s s = true) by (induction s; cbn; [reflexivity|now rewrite Z.eqb_refl]).
    assert (O : forall o, ostr_eqb o o = true) by (destruct o; cbn; auto).
    destruct p; cbn; rewrite ?Nat.eqb_refl, ?S, ?O, ?eqb_reflx; reflexivity. }
  apply R.
Qed.
