From Coq Require Import ZArith List Bool Lia.
From OP Require Import lib.Obs model.C22.
Import ListNotations.
Open Scope Z_scope.

(* ---------- basic string facts ---------- *)
Lemma prefix_app p s r : prefix p s = Some r -> s = p ++ r.
Proof.
  revert s. induction p as [|a p IH]; intros s H; cbn in H; [inversion H; reflexivity|].
  destruct s as [|b s]; [discriminate|]. destruct (a =? b) eqn:E; [|discriminate].
  apply Z.eqb_eq in E. subst. cbn. f_equal. now apply IH.
Qed.

Lemma prefix_self p r : prefix p (p ++ r) = Some r.
Proof. induction p as [|a p IH]; cbn; [reflexivity|]. now rewrite Z.eqb_refl. Qed.

Lemma drop_spaces_app s : exists pre, all_space pre = true /\ s = pre ++ drop_spaces s.
Proof.
  induction s as [|c s [pre [Hp E]]]; [exists []; auto|]. cbn [drop_spaces].
  destruct (is_space c) eqn:Ec.
  - exists (c :: pre). unfold all_space in *. cbn [forallb app]. rewrite Ec, Hp. split; [reflexivity|]. now f_equal.
  - exists []. auto.
Qed.

Lemma take_digits_app s d r : take_digits s = (d, r) -> s = d ++ r /\ forallb is_digit d = true.
Proof.
  revert d r. induction s as [|c s IH]; intros d r H; cbn in H; [inversion H; auto|].
  destruct (is_digit c) eqn:Ec.
  - destruct (take_digits s) as [d' r'] eqn:E. inversion H; subst. destruct (IH d' r eq_refl) as [-> Hd].
    cbn. rewrite Ec, Hd. auto.
  - inversion H; subst. auto.
Qed.

(* ---------- numbers: what is captured is a substring of the argument ---------- *)
Lemma take_number_app nonneg intonly s n r : take_number nonneg intonly s = Some (n, r) -> s = n ++ r.
Proof.
  unfold take_number.
  destruct s as [|c s'].
  - cbn. destruct intonly; discriminate.
  - destruct ((c =? minus) && negb nonneg) eqn:Es.
    + destruct (take_digits s') as [d1 s2] eqn:E1. destruct (take_digits_app _ _ _ E1) as [-> _].
      destruct intonly.
      * destruct d1; [discriminate|]. intros H. inversion H; subst. cbn; rewrite <- ?app_assoc; cbn; rewrite <- ?app_assoc; rewrite ?app_nil_r; reflexivity.
      * destruct s2 as [|c2 s3].
        -- destruct d1; [discriminate|]. intros H. inversion H; subst. cbn; rewrite <- ?app_assoc; cbn; rewrite <- ?app_assoc; rewrite ?app_nil_r; reflexivity.
        -- destruct (c2 =? dot) eqn:Ed.
           ++ apply Z.eqb_eq in Ed. subst c2. destruct (take_digits s3) as [d2 s4] eqn:E2.
              destruct (take_digits_app _ _ _ E2) as [-> _].
              destruct d1, d2; try discriminate; intros H; inversion H; subst; cbn; rewrite <- ?app_assoc; cbn; rewrite <- ?app_assoc; rewrite ?app_nil_r; reflexivity.
           ++ destruct d1; [discriminate|]. intros H. inversion H; subst. cbn; rewrite <- ?app_assoc; cbn; rewrite <- ?app_assoc; rewrite ?app_nil_r; reflexivity.
    + destruct (take_digits (c :: s')) as [d1 s2] eqn:E1. destruct (take_digits_app _ _ _ E1) as [E0 _].
      rewrite E0. destruct intonly.
      * destruct d1; [discriminate|]. intros H. inversion H; subst. cbn; rewrite <- ?app_assoc; cbn; rewrite <- ?app_assoc; rewrite ?app_nil_r; reflexivity.
      * destruct s2 as [|c2 s3].
        -- destruct d1; [discriminate|]. intros H. inversion H; subst. cbn; rewrite <- ?app_assoc; cbn; rewrite <- ?app_assoc; rewrite ?app_nil_r; reflexivity.
        -- destruct (c2 =? dot) eqn:Ed.
           ++ apply Z.eqb_eq in Ed. subst c2. destruct (take_digits s3) as [d2 s4] eqn:E2.
              destruct (take_digits_app _ _ _ E2) as [-> _].
              destruct d1, d2; try discriminate; intros H; inversion H; subst; cbn; rewrite <- ?app_assoc; cbn; rewrite <- ?app_assoc; rewrite ?app_nil_r; reflexivity.
           ++ destruct d1; [discriminate|]. intros H. inversion H; subst. cbn; rewrite <- ?app_assoc; cbn; rewrite <- ?app_assoc; rewrite ?app_nil_r; reflexivity.
Qed.

Lemma take_unit_app units s u :
  take_unit units s = Some u -> In u units /\ exists tail, s = u ++ tail /\ all_space tail = true.
Proof.
  induction units as [|x units IH]; cbn; [discriminate|].
  destruct (prefix x s) as [rest|] eqn:Ep.
  - destruct (all_space rest) eqn:Ea.
    + intros H. inversion H; subst. split; [now left|]. exists rest. split; [now apply prefix_app|exact Ea].
    + intros H. destruct (IH H) as [H1 H2]. split; [now right|exact H2].
  - intros H. destruct (IH H) as [H1 H2]. split; [now right|exact H2].
Qed.

(* "deliver the number and unit unchanged": the captures are substrings of the argument, separated
   and surrounded by whitespace only, and a captured unit is one of the declared units *)
Lemma number_capture units nonneg intonly s num unit :
  match_number units nonneg intonly s = Some (num, unit) ->
  exists pre mid post,
    all_space pre = true /\ all_space mid = true /\ all_space post = true /\
    s = pre ++ num ++ mid ++ (match unit with Some u => u | None => [] end) ++ post /\
    match unit with Some u => In u units | None => units = [] end.
Proof.
  unfold match_number. destruct (drop_spaces_app s) as [pre [Hpre Es]].
  destruct (take_number nonneg intonly (drop_spaces s)) as [[n rest]|] eqn:En; [|discriminate].
  apply take_number_app in En. destruct (drop_spaces_app rest) as [mid [Hmid Er]].
  destruct units as [|u0 units'].
  - destruct (all_space (drop_spaces rest)) eqn:Ea; [|discriminate]. intros H. inversion H; subst.
    exists pre, mid, (drop_spaces rest). repeat split; try assumption. cbn [app].
    rewrite Es at 1. rewrite En. rewrite Er at 1. reflexivity.
  - destruct (take_unit (u0 :: units') (drop_spaces rest)) as [u|] eqn:Eu; [|discriminate].
    intros H. inversion H; subst. destruct (take_unit_app _ _ _ Eu) as [Hin [tail [Et Ha]]].
    exists pre, mid, tail. repeat split; try assumption.
    rewrite Es at 1. rewrite En. rewrite Er at 1. rewrite Et. reflexivity.
Qed.

(* ---------- categorical ---------- *)
(* the pattern accepts the EMPTY value whenever there are no additive options (or no exclusive
   ones): "never an empty value" is false of the faithful model, for every option list *)
Lemma empty_accepted_no_additive excl : match_categorical excl [] [] = true.
Proof. unfold match_categorical. cbn. rewrite !orb_true_r. reflexivity. Qed.
Lemma empty_accepted_no_exclusive add : match_categorical [] add [] = true.
Proof. unfold match_categorical. cbn. reflexivity. Qed.

(* no documented value is rejected (options non-empty and not ending in '+') *)
Definition opt_ok (o : str) : bool := match o with [] => false | _ => negb (ends_with_plus o) end.

Lemma ends_with_plus_app a b : b <> [] -> ends_with_plus (a ++ b) = ends_with_plus b.
Proof.
  intros Hb. unfold ends_with_plus. rewrite rev_app_distr. destruct (rev b) eqn:E; [|reflexivity].
  exfalso. apply Hb. rewrite <- (rev_involutive b), E. reflexivity.
Qed.

Lemma existsb_mono {A} (f g : A -> bool) l : (forall x, In x l -> f x = true -> g x = true) ->
  existsb f l = true -> existsb g l = true.
Proof.
  intros H E. apply existsb_exists in E as [x [Hx Hf]]. apply existsb_exists. exists x. auto.
Qed.

Lemma plus_list_segs add : forallb opt_ok add = true ->
  forall fuel s, plus_list fuel add s = true ->
  forall fuel', (length s <= fuel')%nat -> segs fuel' add s = true /\ ends_with_plus s = false /\ s <> [].
Proof.
  intros Hok. induction fuel as [|fuel IH]; intros s H fuel' Hlen; [discriminate|].
  cbn [plus_list] in H. apply existsb_exists in H as [a [Ha H]].
  rewrite forallb_forall in Hok. pose proof (Hok a Ha) as Hoa. unfold opt_ok in Hoa.
  destruct a as [|a0 a']; [discriminate|]. apply negb_true_iff in Hoa.
  destruct (prefix (a0 :: a') s) as [rest|] eqn:Ep; [|discriminate].
  pose proof (prefix_app _ _ _ Ep) as Es. subst s.
  destruct fuel' as [|fuel'']; [cbn in Hlen; lia|].
  destruct rest as [|c rest].
  - rewrite app_nil_r. repeat split; [|exact Hoa|discriminate].
    cbn [segs]. apply existsb_exists. exists (a0 :: a'). split; [now right|].
    rewrite app_nil_r in Ep. rewrite app_nil_r in *. rewrite Ep. destruct fuel''; reflexivity.
  - apply andb_true_iff in H as [Hc H]. apply Z.eqb_eq in Hc. subst c.
    assert (Hl : (length rest <= fuel'')%nat).
    { rewrite app_length in Hlen. cbn in Hlen. lia. }
    destruct fuel'' as [|f3].
    { (* rest must be non-empty for plus_list to hold, so fuel'' >= 1 *)
      destruct rest; [destruct fuel; cbn in H; [discriminate|]; apply existsb_exists in H as [b [Hb Hp]];
        destruct b; [discriminate|cbn in Hp; discriminate]|cbn in Hl; lia]. }
    destruct (IH rest H f3) as [Hs [He Hne]].
    { rewrite app_length in Hlen. cbn in Hlen. lia. }
    repeat split.
    + cbn [segs]. apply existsb_exists. exists (a0 :: a'). split; [now right|]. rewrite Ep.
      (* after the option: a '+' piece, then the rest *)
      change (segs (S f3) add (plus :: rest) = true). cbn [segs].
      apply existsb_exists. exists [plus]. split; [now left|]. cbn [prefix]. rewrite Z.eqb_refl. exact Hs.
    + rewrite ends_with_plus_app by discriminate.
      change (plus :: rest) with ([plus] ++ rest). now rewrite ends_with_plus_app.
    + discriminate.
Qed.

Lemma segs_fuel_mono add : forall f s, segs f add s = true -> forall f', (f <= f')%nat -> segs f' add s = true.
Proof.
  induction f as [|f IH]; intros s H f' Hle.
  - destruct s; [destruct f'; reflexivity|discriminate].
  - destruct s as [|c s]; [destruct f'; reflexivity|]. destruct f' as [|f']; [lia|].
    cbn [segs] in *. eapply existsb_mono; [|exact H]. intros o _ Ho. destruct o; [discriminate|].
    destruct (prefix (z :: o) (c :: s)); [|discriminate]. apply IH; [exact Ho|lia].
Qed.

Lemma doc_implies_impl excl add s :
  forallb opt_ok add = true -> forallb opt_ok excl = true ->
  doc_categorical excl add s = true -> match_categorical excl add s = true.
Proof.
  intros Ha He H. unfold doc_categorical, match_categorical in *.
  eapply existsb_mono; [|exact H]. intros body _ Hb. unfold body_doc in Hb. unfold body_impl.
  destruct body as [|b0 b']; [discriminate|]. apply orb_true_iff in Hb as [Hb|Hb].
  - (* an exclusive option *)
    apply existsb_exists in Hb as [e [Hin Heq]]. unfold str_eqb in Heq.
    assert (Hee : e = b0 :: b').
    { clear -Heq. revert Heq. generalize (b0 :: b'). intros l. revert e.
      induction l as [|x l IH]; intros [|y e] H; cbn in H; try discriminate; [reflexivity|].
      apply andb_true_iff in H as [H1 H2]. apply Z.eqb_eq in H1. subst. f_equal. now apply IH. }
    rewrite forallb_forall in He. pose proof (He e Hin) as Hoe. rewrite Hee in Hoe. cbn [opt_ok] in Hoe.
    rewrite Hoe. cbn [andb]. apply orb_true_iff. left. apply orb_true_iff. left.
    apply existsb_exists. exists e. split; [exact Hin|exact Heq].
  - destruct (plus_list_segs add Ha _ _ Hb (length (b0 :: b')) (le_n _)) as [Hs [Hp _]].
    rewrite Hp. cbn [negb andb]. apply orb_true_iff. right. exact Hs.
Qed.

(* refutation witnesses for "exactly the documented language" *)
Definition A01 : str := [65; 48; 49]. Definition A02 : str := [65; 48; 50].
Lemma overaccepts_unseparated :
  match_categorical [] [A01; A02] (A01 ++ A02) = true /\ doc_categorical [] [A01; A02] (A01 ++ A02) = false.
Proof. vm_compute. split; reflexivity. Qed.
Lemma overaccepts_leading_plus :
  match_categorical [] [A01; A02] (plus :: A01) = true /\ doc_categorical [] [A01; A02] (plus :: A01) = false.
Proof. vm_compute. split; reflexivity. Qed.

(* introspection: a unit containing '|' is split in two *)
Lemma get_units_refuted :
  get_units (regex_number_str [[97; 124; 98]] false false) = Some [[97]; [98]].
Proof. vm_compute. reflexivity. Qed.
Lemma get_units_example :
  get_units (regex_number_str [[107; 103]; [76; 47; 104]; [37]] false false) = Some [[107; 103]; [76; 47; 104]; [37]].
Proof. vm_compute. reflexivity. Qed.
