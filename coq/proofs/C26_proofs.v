(* C26: the round trip decode t (encode v) = Some v for well-typed clean values, and its lift to the envelope. *)
From Coq Require Import ZArith List Bool Arith Lia.
From OP Require Import lib.Obs model.C26.
Import ListNotations.

Section TyInd.
  Variable P : ty -> Prop.
  Hypothesis H_null : P TNull.
  Hypothesis H_bool : P TBool.
  Hypothesis H_int : P TInt.
  Hypothesis H_float : P TFloat.
  Hypothesis H_str : P TStr.
  Hypothesis H_enum : forall vals, P (TEnum vals).
  Hypothesis H_opt : forall t, P t -> P (TOpt t).
  Hypothesis H_union : forall ts, P (TUnion ts).
  Hypothesis H_list : forall t, P t -> P (TList t).
  Hypothesis H_set : forall t, P t -> P (TSet t).
  Hypothesis H_dict : forall k v, P k -> P v -> P (TDict k v).
  Hypothesis H_model : forall fs, Forall (fun ft => P (snd ft)) fs -> P (TModel fs).
  Fixpoint ty_ind' (t : ty) : P t :=
    match t with
    | TNull => H_null | TBool => H_bool | TInt => H_int | TFloat => H_float | TStr => H_str
    | TEnum vals => H_enum vals
    | TOpt t' => H_opt t' (ty_ind' t')
    | TUnion ts => H_union ts
    | TList t' => H_list t' (ty_ind' t')
    | TSet t' => H_set t' (ty_ind' t')
    | TDict k v => H_dict k v (ty_ind' k) (ty_ind' v)
    | TModel fs => H_model fs ((fix go (fs : list (nat * ty)) : Forall (fun ft => P (snd ft)) fs :=
                                  match fs with
                                  | [] => Forall_nil _
                                  | ft :: fs' => Forall_cons ft (ty_ind' (snd ft)) (go fs')
                                  end) fs)
    end.
End TyInd.

Lemma str_eqb_refl s : str_eqb s s = true.
Proof. destruct s; cbn; auto using Nat.eqb_refl, Z.eqb_refl. Qed.
Lemma str_eqb_sid a b : str_eqb (SId a) (SId b) = Nat.eqb a b. Proof. reflexivity. Qed.

(* ---------- scalars ---------- *)
Lemma scalar_rt t v : check_scalar t v = true -> decode_scalar t (encode v) = Some v.
Proof.
  destruct t, v; cbn; try discriminate; try reflexivity.
  - destruct f; try discriminate. reflexivity.
Qed.
Lemma scalar_kind_matches t v : check_scalar t v = true -> kind_matches t (encode v) = true.
Proof. destruct t, v; cbn; try discriminate; try reflexivity. destruct f; try discriminate; reflexivity. Qed.
Lemma kind_matches_same t t' j : is_scalar t = true -> is_scalar t' = true ->
  kind_matches t j = true -> kind_matches t' j = true -> scalar_kind t = scalar_kind t'.
Proof. destruct t, t', j; cbn; try discriminate; reflexivity. Qed.
Lemma scalar_kind_inj t t' : is_scalar t = true -> is_scalar t' = true -> scalar_kind t = scalar_kind t' -> t = t'.
Proof. destruct t, t'; cbn; try discriminate; reflexivity. Qed.

Lemma find_unique ts : forall t j, forallb is_scalar ts = true -> nodupb (map scalar_kind ts) = true ->
  In t ts -> kind_matches t j = true -> find (fun t' => kind_matches t' j) ts = Some t.
Proof.
  induction ts as [|a ts IH]; intros t j Hs Hn Hin Hk; [destruct Hin|].
  cbn [forallb] in Hs. apply andb_prop in Hs as [Ha Hs]. cbn [map nodupb] in Hn. apply andb_prop in Hn as [Hn1 Hn].
  cbn [find]. destruct (kind_matches a j) eqn:Ka.
  - destruct Hin as [->|Hin]; [reflexivity|].
    assert (St : is_scalar t = true) by (rewrite forallb_forall in Hs; now apply Hs).
    pose proof (kind_matches_same a t j Ha St Ka Hk) as E.
    apply negb_true_iff in Hn1. exfalso. assert (X : existsb (Nat.eqb (scalar_kind a)) (map scalar_kind ts) = true).
    { apply existsb_exists. exists (scalar_kind t). split; [now apply in_map|]. rewrite E. apply Nat.eqb_refl. }
    congruence.
  - destruct Hin as [->|Hin]; [congruence|]. now apply IH.
Qed.

(* ---------- a well-typed value other than None is not encoded as null ---------- *)
Lemma check_float_finite t : forall f, check t (PFloat f) = true -> exists b, f = FFin b.
Proof.
  induction t using ty_ind'; intros f C; cbn in C; try discriminate.
  - destruct f; try discriminate. eauto.
  - now apply IHt.
  - apply andb_prop in C as [_ C]. apply existsb_exists in C as [t' [_ C]]. destruct t'; cbn in C; try discriminate.
    destruct f; try discriminate. eauto.
  - destruct t1; discriminate.
Qed.
Lemma encode_null t v : check t v = true -> encode v = JNull -> v = PNone.
Proof.
  intros C E. destruct v; cbn in E; try discriminate; try reflexivity.
  destruct (check_float_finite t f C) as [b ->]. discriminate.
Qed.

(* ---------- lists ---------- *)
Lemma map_opt_map {A B} (f : A -> option B) (g : B -> A) l :
  Forall (fun x => f (g x) = Some x) l -> map_opt f (map g l) = Some l.
Proof. induction 1 as [|x l H _ IH]; cbn; [reflexivity|]. now rewrite H, IH. Qed.

(* ---------- models: positional fields, unique names ---------- *)
Section Fields.
  Variable dec : ty -> jv -> option pv.
  Definition fields_of (obj : list (str * jv)) :=
    fix fields (fs : list (nat * ty)) : option (list (nat * pv)) :=
      match fs with
      | [] => Some []
      | (f, ft) :: fs' =>
          match lookup (SId f) obj with
          | Some x => match dec ft x, fields fs' with Some x', Some r => Some ((f, x') :: r) | _, _ => None end
          | None => None
          end
      end.
  Definition matches_of (chk : ty -> pv -> bool) :=
    fix fields (fs : list (nat * ty)) (l : list (nat * pv)) : bool :=
      match fs, l with
      | [], [] => true
      | (f, ft) :: fs', (g, x) :: l' => Nat.eqb f g && chk ft x && fields fs' l'
      | _, _ => false
      end.
  Lemma fields_rt obj : forall fs l,
    matches_of check fs l = true ->
    Forall (fun ft => forall v, check (snd ft) v = true -> dec (snd ft) (encode v) = Some v) fs ->
    (forall f x, In (f, x) l -> lookup (SId f) obj = Some (encode x)) ->
    fields_of obj fs = Some l.
  Proof.
    induction fs as [|[f ft] fs IH]; intros l M F L; destruct l as [|[g x] l]; cbn in M; try discriminate; [reflexivity|].
    apply andb_prop in M as [M M3]. apply andb_prop in M as [M1 M2]. apply Nat.eqb_eq in M1. subst g.
    cbn [fields_of]. rewrite (L f x (or_introl eq_refl)).
    pose proof (Forall_inv F) as F1. cbn [snd] in F1. rewrite (F1 x M2).
    fold (fields_of obj fs). rewrite (IH l M3 (Forall_inv_tail F)); [reflexivity|].
    intros f' x' Hin. apply L. now right.
  Qed.
End Fields.

Lemma lookup_obj l : nodupb (map fst l) = true ->
  forall f x, In (f, x) l -> forall extra,
  lookup (SId f) (map (fun fv : nat * pv => match fv with (g, y) => (SId g, encode y) end) l ++ extra) = Some (encode x).
Proof.
  induction l as [|[g y] l IH]; intros N f x Hin extra; [destruct Hin|].
  cbn [map fst nodupb] in N. apply andb_prop in N as [N1 N]. cbn [map app lookup]. rewrite str_eqb_sid.
  destruct Hin as [E|Hin].
  - inversion E; subst. now rewrite Nat.eqb_refl.
  - destruct (Nat.eqb f g) eqn:Q; [|now apply IH].
    apply Nat.eqb_eq in Q. subst g. apply negb_true_iff in N1. exfalso.
    assert (X : existsb (Nat.eqb f) (map fst l) = true).
    { apply existsb_exists. exists f. split; [change f with (fst (f, x)); now apply in_map|apply Nat.eqb_refl]. }
    congruence.
Qed.

Lemma matches_names chk : forall fs l, matches_of chk fs l = true -> map fst l = map fst fs.
Proof.
  induction fs as [|[f ft] fs IH]; intros l M; destruct l as [|[g x] l]; cbn in M; try discriminate; [reflexivity|].
  apply andb_prop in M as [M M3]. apply andb_prop in M as [M1 _]. apply Nat.eqb_eq in M1. subst g. cbn. f_equal. now apply IH.
Qed.

(* ---------- the round trip ---------- *)
Theorem roundtrip t : forall v, wf t = true -> check t v = true -> decode t (encode v) = Some v.
Proof.
  induction t using ty_ind'; intros v W C.
  - now apply scalar_rt.
  - now apply scalar_rt.
  - now apply scalar_rt.
  - now apply scalar_rt.
  - now apply scalar_rt.
  - (* enum *) cbn in C. destruct v; try discriminate. cbn. now rewrite C.
  - (* T | None *) cbn [check] in C. cbn [wf] in W. apply andb_prop in W as [W1 W2]. destruct v; try (cbn; reflexivity).
    all: cbn [decode]; match goal with |- match encode ?x with _ => _ end = _ =>
           destruct (encode x) eqn:E;
           try (rewrite <- E; now apply IHt);
           (apply (encode_null t) in E; [discriminate|exact C]) end.
  - (* union of scalars *) cbn [check] in C. apply andb_prop in C as [C C3]. apply andb_prop in C as [C1 C2].
    apply existsb_exists in C3 as [t' [Hin Ht']]. cbn [decode].
    rewrite (find_unique ts t' (encode v) C1 C2 Hin (scalar_kind_matches t' v Ht')). now apply scalar_rt.
  - (* list *) cbn [check] in C. destruct v; try discriminate. cbn [encode decode wf] in *.
    rewrite map_opt_map; [reflexivity|]. rewrite forallb_forall in C. apply Forall_forall. intros x Hx. apply IHt; auto.
  - (* set *) cbn [check] in C. destruct v; try discriminate. cbn [encode decode wf] in *.
    rewrite map_opt_map; [reflexivity|]. rewrite forallb_forall in C. apply Forall_forall. intros x Hx. apply IHt; auto.
  - (* dict with string keys *) cbn [check] in C. destruct t1; try discriminate. destruct v; try discriminate.
    cbn [wf] in W. apply andb_prop in W as [_ W2]. cbn [encode decode].
    rewrite (map_opt_map _ (fun kv : pv * pv => match kv with (k, x) => (key_text k, encode x) end)); [reflexivity|].
    rewrite forallb_forall in C. apply Forall_forall. intros [k x] Hx. specialize (C _ Hx). cbn [fst snd] in C.
    apply andb_prop in C as [Ck Cx]. destruct k; cbn in Ck; try discriminate. cbn [key_text decode decode_scalar].
    rewrite (IHt2 x W2 Cx). reflexivity.
  - (* model *) cbn [check] in C. destruct v; try discriminate. apply andb_prop in C as [N M].
    change ((fix fields (fs0 : list (nat * ty)) (l0 : list (nat * pv)) {struct fs0} : bool := _) fs l) with (matches_of check fs l) in M.
    cbn [encode decode].
    change ((fix fields (fs0 : list (nat * ty)) : option (list (nat * pv)) := _) fs)
      with (fields_of decode (map (fun fv : nat * pv => match fv with (f, x) => (SId f, encode x) end) l) fs).
    rewrite (fields_rt decode _ fs l M); [reflexivity| |].
    + cbn [wf] in W. revert H W. clear. induction fs as [|[f ft] fs IH]; intros H W; [constructor|].
      apply andb_prop in W as [W1 W2]. constructor; [|apply IH; [exact (Forall_inv_tail H)|exact W2]].
      cbn [snd]. intros v Cv. exact (Forall_inv H v W1 Cv).
    + intros f x Hin. pose proof (lookup_obj l) as L. rewrite (matches_names check fs l M) in L.
      specialize (L N f x Hin []). now rewrite app_nil_r in L.
Qed.

(* ---------- the envelope ---------- *)
Lemma lookup_skip l f extra : existsb (Nat.eqb f) (map fst l) = false ->
  lookup (SId f) (map (fun fv : nat * pv => match fv with (g, y) => (SId g, encode y) end) l ++ extra) = lookup (SId f) extra.
Proof.
  induction l as [|[g y] l IH]; intros N; [reflexivity|]. cbn [map fst existsb] in N. apply orb_false_iff in N as [N1 N].
  cbn [map app lookup]. rewrite str_eqb_sid, N1. now apply IH.
Qed.

Theorem envelope_roundtrip reg c fs v :
  c_ty c = TModel fs -> wf (TModel fs) = true -> check (TModel fs) v = true ->
  existsb (Nat.eqb K_type) (map fst fs) = false -> existsb (Nat.eqb K_ns) (map fst fs) = false ->
  find (fun c' => Nat.eqb (c_ns c') (c_ns c) && Nat.eqb (c_name c') (c_name c)) reg = Some c ->
  deserialize reg (serialize c v) = Some (c_ns c, c_name c, v).
Proof.
  intros T W C N1 N2 F. pose proof C as C0. cbn [check] in C. destruct v; try discriminate. apply andb_prop in C as [N M].
  change ((fix fields (fs0 : list (nat * ty)) (l0 : list (nat * pv)) {struct fs0} : bool := _) fs l) with (matches_of check fs l) in M.
  pose proof (matches_names check fs l M) as Names.
  unfold serialize. cbn [encode]. set (extra := [(SId K_type, JStr (SId (c_name c))); (SId K_ns, JStr (SId (c_ns c)))]).
  unfold deserialize.
  rewrite (lookup_skip l K_type extra) by (now rewrite Names).
  rewrite (lookup_skip l K_ns extra) by (now rewrite Names).
  cbn [extra lookup str_eqb K_type K_ns Nat.eqb]. rewrite F, T. cbn [decode].
  change ((fix fields (fs0 : list (nat * ty)) : option (list (nat * pv)) := _) fs)
    with (fields_of decode (map (fun fv : nat * pv => match fv with (f, x) => (SId f, encode x) end) l ++ extra) fs).
  rewrite (fields_rt decode _ fs l M); [reflexivity| |].
  - cbn [wf] in W. revert W. clear. induction fs as [|[f ft] fs IH]; intros W; [constructor|].
    apply andb_prop in W as [W1 W2]. constructor; [|now apply IH]. cbn [snd]. intros v Cv. now apply roundtrip.
  - intros f x Hin. apply lookup_obj; [now rewrite Names|exact Hin].
Qed.

(* an envelope that names no registered class is rejected *)
Theorem unknown_class_rejected reg l n ns :
  lookup (SId K_type) l = Some (JStr (SId n)) -> lookup (SId K_ns) l = Some (JStr (SId ns)) ->
  find (fun c => Nat.eqb (c_ns c) ns && Nat.eqb (c_name c) n) reg = None ->
  deserialize reg (JObj l) = None.
Proof. intros A B F. unfold deserialize. now rewrite A, B, F. Qed.
Theorem missing_type_rejected reg l : lookup (SId K_type) l = None -> deserialize reg (JObj l) = None.
Proof. intros A. unfold deserialize. now rewrite A. Qed.
Theorem missing_ns_rejected reg l : lookup (SId K_ns) l = None -> deserialize reg (JObj l) = None.
Proof. intros A. unfold deserialize. rewrite A. destruct (lookup (SId K_type) l) as [[| | | |[]| |]|]; reflexivity. Qed.
