From Coq Require Import ZArith List Bool Lia.
From OP Require Import lib.Obs model.C34 proofs.C35_proofs.
Import ListNotations.
Open Scope Z_scope.

(* ---------- sortedness ---------- *)
Fixpoint le_all (t : Z) (l : list sample) : Prop :=
  match l with [] => True | a :: l' => t <= stime a /\ le_all t l' end.
Fixpoint sorted (l : list sample) : Prop :=
  match l with [] => True | a :: l' => le_all (stime a) l' /\ sorted l' end.

Lemma le_all_weaken t t' l : t' <= t -> le_all t l -> le_all t' l.
Proof. induction l as [|a l IH]; cbn; intuition lia. Qed.

Lemma le_all_ins t x l : t <= stime x -> le_all t l -> le_all t (ins x l).
Proof.
  induction l as [|y l IH]; cbn; intros Hx H; [tauto|].
  destruct (stime x <=? stime y); cbn; intuition.
Qed.

Lemma ins_sorted x l : sorted l -> sorted (ins x l).
Proof.
  induction l as [|y l IH]; cbn; intros H; [tauto|].
  destruct H as [Hy Hs]. destruct (stime x <=? stime y) eqn:E; cbn.
  - apply Z.leb_le in E. repeat split; try assumption.
    apply le_all_weaken with (stime y); assumption.
  - apply Z.leb_gt in E. split; [apply le_all_ins; [lia|assumption]|auto].
Qed.

Lemma sort_sorted l : sorted (sort_by_time l).
Proof. induction l as [|x l IH]; cbn; [exact I|apply ins_sorted, IH]. Qed.

Lemma advance_cons2 t a b rest :
  advance t (a :: b :: rest) = if stime b <=? t then advance t (b :: rest) else a :: b :: rest.
Proof. reflexivity. Qed.

Lemma advance_sorted t c : sorted c -> sorted (advance t c).
Proof.
  induction c as [|a c IH]; intros H; [exact I|].
  destruct c as [|b rest]; [exact H|].
  rewrite advance_cons2. destruct (stime b <=? t); [apply IH; apply H|exact H].
Qed.

(* ---------- the cursor computes the sample-and-hold value ---------- *)
Lemma last_le_all_gt t l acc :
  le_all (t + 1) l -> last_le t l acc = acc.
Proof.
  revert acc. induction l as [|a l IH]; cbn; intros acc H; [reflexivity|].
  destruct H as [Ha H]. rewrite IH by assumption.
  destruct (stime a <=? t) eqn:E; [apply Z.leb_le in E; lia|reflexivity].
Qed.

Lemma last_le_head_le t a l acc acc' :
  stime a <= t -> last_le t (a :: l) acc = last_le t (a :: l) acc'.
Proof. intros H. cbn. apply Z.leb_le in H. now rewrite H. Qed.

Lemma cursor_cell t c : sorted c -> cell t (advance t c) = last_le t c None.
Proof.
  induction c as [|a c IH]; intros H; [reflexivity|].
  destruct c as [|b rest].
  - cbn. destruct (t <? stime a) eqn:E1, (stime a <=? t) eqn:E2; try reflexivity.
    + apply Z.ltb_lt in E1. apply Z.leb_le in E2. lia.
    + apply Z.ltb_ge in E1. apply Z.leb_gt in E2. lia.
  - rewrite advance_cons2. destruct H as [[Hab Hle] Hs].
    destruct (stime b <=? t) eqn:Eb.
    + rewrite IH by exact Hs. apply Z.leb_le in Eb.
      cbn [last_le]. assert (Ea : stime a <=? t = true) by (apply Z.leb_le; lia).
      rewrite Ea. apply last_le_head_le. exact Eb.
    + apply Z.leb_gt in Eb. cbn [cell last_le].
      assert (Eb' : stime b <=? t = false) by (apply Z.leb_gt; lia). rewrite Eb'.
      rewrite last_le_all_gt.
      * destruct (t <? stime a) eqn:E1, (stime a <=? t) eqn:E2; try reflexivity.
        -- apply Z.ltb_lt in E1. apply Z.leb_le in E2. lia.
        -- apply Z.ltb_ge in E1. apply Z.leb_gt in E2. lia.
      * destruct Hs as [Hb _]. apply le_all_weaken with (stime b); [lia|exact Hb].
Qed.

Lemma advance_advance t t' c :
  sorted c -> t <= t' -> advance t' (advance t c) = advance t' c.
Proof.
  induction c as [|a c IH]; intros H Ht; [reflexivity|].
  destruct c as [|b rest]; [reflexivity|].
  rewrite (advance_cons2 t). destruct (stime b <=? t) eqn:Eb.
  - rewrite advance_cons2. apply Z.leb_le in Eb. assert (Eb' : stime b <=? t' = true) by (apply Z.leb_le; lia).
    rewrite Eb'. apply IH; [apply H|exact Ht].
  - reflexivity.
Qed.

Lemma hold_after_advance t t' c :
  sorted c -> t <= t' -> last_le t' (advance t c) None = last_le t' c None.
Proof.
  intros H Ht. rewrite <- (cursor_cell t' (advance t c)) by (apply advance_sorted, H).
  rewrite advance_advance by assumption. apply cursor_cell, H.
Qed.

(* ---------- rows ---------- *)
Fixpoint ge_all (t : Z) (l : list Z) : Prop :=
  match l with [] => True | u :: l' => t <= u /\ ge_all t l' end.
Fixpoint nondecr (l : list Z) : Prop :=
  match l with [] => True | t :: l' => ge_all t l' /\ nondecr l' end.

Definition spec_rows (ticks : list Z) (cs : list (list sample)) : list (list (option Z)) :=
  map (fun t => map (fun c => last_le t c None) cs) ticks.

Lemma spec_rows_advance t ticks cs :
  Forall sorted cs -> ge_all t ticks ->
  spec_rows ticks (map (advance t) cs) = spec_rows ticks cs.
Proof.
  intros Hs. unfold spec_rows. induction ticks as [|u ticks IH]; cbn [map ge_all]; intros H; [reflexivity|].
  destruct H as [Hu H]. rewrite IH by exact H. f_equal.
  rewrite map_map. apply map_ext_in. intros c Hc.
  apply hold_after_advance; [|exact Hu]. rewrite Forall_forall in Hs. now apply Hs.
Qed.

Lemma rows_spec ticks : forall cs,
  Forall sorted cs -> nondecr ticks -> rows ticks cs = spec_rows ticks cs.
Proof.
  induction ticks as [|t ticks IH]; intros cs Hs H; [reflexivity|].
  destruct H as [Hge H]. cbn [rows row]. rewrite IH; [| |exact H].
  - rewrite spec_rows_advance by assumption. cbn [spec_rows map]. f_equal.
    rewrite map_map. apply map_ext_in. intros c Hc. apply cursor_cell.
    rewrite Forall_forall in Hs. now apply Hs.
  - rewrite Forall_forall in *. intros c Hc. apply in_map_iff in Hc as [c0 [<- Hc0]].
    apply advance_sorted. now apply Hs.
Qed.

(* ---------- tick times: sorted(set(...)) ---------- *)
Fixpoint gt_all (t : Z) (l : list Z) : Prop :=
  match l with [] => True | u :: l' => t < u /\ gt_all t l' end.
Fixpoint strictly_incr (l : list Z) : Prop :=
  match l with [] => True | t :: l' => gt_all t l' /\ strictly_incr l' end.

Lemma gt_all_weaken t t' l : t' <= t -> gt_all t l -> gt_all t' l.
Proof. induction l as [|a l IH]; cbn; intuition lia. Qed.

Lemma gt_all_insert t x l : t < x -> gt_all t l -> gt_all t (insert_uniq x l).
Proof.
  induction l as [|u l IH]; cbn; intros Hx H; [tauto|].
  destruct (x <? u); [cbn; intuition|]. destruct (x =? u); cbn; intuition.
Qed.

Lemma insert_uniq_incr x l : strictly_incr l -> strictly_incr (insert_uniq x l).
Proof.
  induction l as [|u l IH]; cbn; intros H; [tauto|].
  destruct H as [Hu Hs]. destruct (x <? u) eqn:E1.
  - apply Z.ltb_lt in E1. cbn. repeat split; try assumption.
    apply gt_all_weaken with u; [lia|assumption].
  - destruct (x =? u) eqn:E2; cbn; [tauto|].
    apply Z.ltb_ge in E1. apply Z.eqb_neq in E2.
    split; [apply gt_all_insert; [lia|assumption]|auto].
Qed.

Lemma tick_times_incr es : strictly_incr (tick_times es).
Proof.
  unfold tick_times. induction (map stime (concat es)) as [|t l IH]; cbn; [exact I|].
  apply insert_uniq_incr, IH.
Qed.

Lemma in_insert_uniq x t l : In x (insert_uniq t l) <-> x = t \/ In x l.
Proof.
  induction l as [|u l IH]; cbn; [intuition|].
  destruct (t <? u); [cbn; intuition|].
  destruct (t =? u) eqn:E; cbn.
  - apply Z.eqb_eq in E. subst. intuition.
  - rewrite IH. intuition.
Qed.

Lemma tick_times_complete es x : In x (tick_times es) <-> In x (map stime (concat es)).
Proof.
  unfold tick_times. induction (map stime (concat es)) as [|t l IH]; cbn; [tauto|].
  rewrite in_insert_uniq, IH. intuition.
Qed.

Lemma gt_ge t l : gt_all t l -> ge_all t l.
Proof. induction l; cbn; intuition lia. Qed.
Lemma incr_nondecr l : strictly_incr l -> nondecr l.
Proof. induction l as [|t l IH]; cbn; [tauto|]. intros [H1 H2]. split; [apply gt_ge, H1|auto]. Qed.

Lemma increasing_cons2 a b l : increasing (a :: b :: l) = (a <? b) && increasing (b :: l).
Proof. reflexivity. Qed.

Lemma increasing_true l : strictly_incr l -> increasing l = true.
Proof.
  induction l as [|a l IH]; [reflexivity|]. destruct l as [|b l']; [reflexivity|].
  intros [[Hab _] Hs]. rewrite increasing_cons2. rewrite IH by exact Hs.
  apply Z.ltb_lt in Hab. now rewrite Hab.
Qed.

(* ---------- export ---------- *)
Lemma export_spec es :
  export es = map (fun t => (t, map (hold t) es)) (tick_times es).
Proof.
  unfold export. rewrite rows_spec.
  - unfold spec_rows. induction (tick_times es) as [|t ts IH]; [reflexivity|].
    cbn [map combine]. rewrite IH. f_equal. f_equal. rewrite map_map. reflexivity.
  - rewrite Forall_forall. intros c Hc. apply in_map_iff in Hc as [c0 [<- _]]. apply sort_sorted.
  - apply incr_nondecr, tick_times_incr.
Qed.

Lemma cell_eqb_refl c : cell_eqb c c = true.
Proof. destruct c; cbn; [apply Z.eqb_refl|reflexivity]. Qed.
Lemma cells_eqb_refl l : list_eqb cell_eqb l l = true.
Proof. induction l as [|c l IH]; cbn; [reflexivity|]. now rewrite cell_eqb_refl, IH. Qed.

Lemma model_satisfies_monitor i : holds_b i (run i) = true.
Proof.
  unfold holds_b, run. rewrite export_spec. rewrite map_map. cbn [fst].
  rewrite map_id. rewrite (increasing_true _ (tick_times_incr i)). cbn [andb].
  rewrite forallb_forall. intros r Hr. apply in_map_iff in Hr as [t [<- _]].
  cbn [fst snd]. apply cells_eqb_refl.
Qed.
