(* C02 / C03 / C04: who may change what, per tick, in the interpreter model. *)
From Coq Require Import ZArith List Bool Arith Lia.
From OP Require Import lib.Obs model.Interp model.InterpRun proofs.Interp_inv proofs.C05_proofs proofs.Interp_fields.
Import ListNotations.
Open Scope Z_scope.

Section Who.
  Variable p : program.

  (* a scope whose body may run repeatedly: an Alarm (re-arms) or a Macro (called again) *)
  Definition is_alarm (n : nat) : bool := match n_kind (nd p n) with KAlarm | KMacro _ => true | _ => false end.
  Definition is_blank (n : nat) : bool := match n_kind (nd p n) with KBlank _ => true | _ => false end.
  (* m is an alarm or lies in the body of one *)
  Definition under_alarm (m : nat) : bool :=
    existsb (fun a => is_alarm a && (Nat.eqb a m || memn m (descendants p a))) (seq 0 (length p)).

  Definition repeats (a : nat) : Prop := n_kind (nd p a) = KAlarm \/ exists nm, n_kind (nd p a) = KMacro nm.
  Lemma alarm_lt a : repeats a -> (a < length p)%nat.
  Proof.
    unfold repeats, nd. intros H. destruct (Nat.lt_ge_cases a (length p)) as [L|G]; [exact L|].
    rewrite nth_overflow in H by exact G. destruct H as [H|[nm H]]; discriminate.
  Qed.
  Lemma under_alarm_of a m : repeats a -> (m = a \/ In m (descendants p a)) -> under_alarm m = true.
  Proof.
    intros K H. unfold under_alarm. apply existsb_exists. exists a. split.
    - apply in_seq. pose proof (alarm_lt a K). lia.
    - assert (Ia : is_alarm a = true) by (unfold is_alarm; destruct K as [K|[nm K]]; now rewrite K).
      rewrite Ia. cbn [andb]. destruct H as [->|H]; [now rewrite Nat.eqb_refl|].
      apply orb_true_iff. right. now apply memn_In.
  Qed.

  (* ---------- C02: outside alarm bodies an instruction that has started stays started (and completed stays completed):
     it starts at most once ---------- *)
  Definition A2 (m : nat) (x x' : ns) : Prop :=
    under_alarm m = false ->
    (is_blank m = false -> started x = true -> started x' = true) /\ (completed x = true -> completed x' = true).

  Theorem tick_monotone e rounds fuel main s main' s' raised :
    tick p rounds fuel e main s = Some (main', s', raised) -> forall m, A2 m (st s m) (st s' m).
  Proof.
    apply (tick_ok p e A2 (fun _ => True)); unfold A2; [..|exact (fun _ => I)].
    - intros m x _. split; auto.
    - intros m x y z H1 H2 U. destruct (H1 U) as [A B], (H2 U) as [C D]. split; auto.
    - intros m x _. split; auto.
    - intros m x _. split; auto.
    - intros m x a b _. split; auto.
    - intros m x _. split; auto.
    - intros m x _. split; auto.
    - intros m x _ _. split; auto.
    - intros m x w _. split; auto.
    - intros m x i r _. split; auto.
    - intros m x _ _ _. split; auto.
    - intros m x _ _. split; auto.
    - intros m x K _. split; [|auto]. intros B. unfold is_blank in B. rewrite K in B. discriminate.
    - intros m x _ _. split; auto.
    - intros a m x K H U. rewrite (under_alarm_of a m K H) in U. discriminate.
  Qed.

  Lemma cmds_monotone l s : forall m, A2 m (st s m) (st (fold_left (complete_cmd p) l s) m).
  Proof.
    apply (complete_cmds_ok p A2); unfold A2.
    - intros m x _. split; auto.
    - intros m x y z H1 H2 U. destruct (H1 U) as [A B], (H2 U) as [C D]. split; auto.
    - intros m x _. split; auto.
  Qed.

  (* over a whole run: outside alarm bodies, an instruction that has started stays started and one that has completed
     stays completed -- so its `started` flag rises at most once: it starts at most once *)
  Theorem run_monotone ts : forall main s now m, under_alarm m = false -> is_blank m = false ->
    Forall (fun s' => (started (st s m) = true -> started (st s' m) = true) /\ (completed (st s m) = true -> completed (st s' m) = true))
           (states p main s now ts).
  Proof.
    induction ts as [|t ts IH]; intros main s now m U B; cbn [states]; [constructor|].
    set (s1 := fold_left (complete_cmd p) (t_complete t) s).
    destruct (tick p (rounds_of p) (fuel_of p) _ main s1) as [[[main' s2] r]|] eqn:T; [|constructor].
    destruct (cmds_monotone (t_complete t) s m U) as [C1 C2]. fold s1 in C1, C2.
    destruct (tick_monotone _ _ _ _ _ _ _ _ T m U) as [D1 D2].
    constructor; [split; auto|].
    eapply Forall_impl; [|apply (IH main' s2 _ m U B)]. intros s' [E1 E2]. split; auto.
  Qed.

  (* ---------- C03: an instruction whose threshold is still awaited in this tick is not started by this tick ---------- *)
  Definition W (e : env) (m : nat) : bool := n_thr (nd p m) && memn m (e_thr_wait e) && negb (is_blank m).
  Definition A3 (e : env) (m : nat) (x x' : ns) : Prop :=
    under_alarm m = false ->
    (completed x = true -> completed x' = true) /\ (forced x' = true -> forced x = true) /\
    (started x' = true -> started x = true \/ completed x' = true \/ forced x = true \/ W e m = false).

  Theorem tick_threshold e rounds fuel main s main' s' raised :
    tick p rounds fuel e main s = Some (main', s', raised) -> forall m, A3 e m (st s m) (st s' m).
  Proof.
    apply (tick_ok p e (A3 e) (fun _ => True)); unfold A3; [..|exact (fun _ => I)].
    - intros m x _. repeat split; auto.
    - intros m x y z H1 H2 U. destruct (H1 U) as [A [B C]], (H2 U) as [D [E F]]. split; [auto|split; [auto|]].
      intros Sz. destruct (F Sz) as [Sy|[Cz|[Fy|Wm]]]; auto. destruct (C Sy) as [Sx|[Cy|[Fx|Wm]]]; auto.
    - intros m x _. repeat split; auto.
    - intros m x _. repeat split; auto.
    - intros m x a b _. repeat split; auto.
    - intros m x _. repeat split; auto.
    - intros m x _. repeat split; auto.
    - intros m x _ _. repeat split; auto.
    - intros m x w _. repeat split; auto.
    - intros m x i r _. repeat split; auto.
    - intros m x _ _ _. repeat split; auto.
    - intros m x _ H _. split; [auto|split; [auto|]]. intros _. destruct H as [H|H]; [now left|].
      destruct (completed x) eqn:Ec; [right; left; exact Ec|]. destruct (forced x) eqn:Ef; [right; right; left; reflexivity|].
      right. right. right. unfold W. cbn [negb andb] in H.
      destruct (n_thr (nd p m)); [|reflexivity]. destruct (memn m (e_thr_wait e)); [discriminate|reflexivity].
    - intros m x K _. split; [auto|split; [auto|]]. cbn. discriminate.
    - intros m x K _. split; [auto|split; [auto|]]. intros _. right. right. right. unfold W, is_blank. rewrite K. apply andb_false_r.
    - intros a m x K H U. rewrite (under_alarm_of a m K H) in U. discriminate.
  Qed.

  (* ---------- C04: a Watch / Alarm becomes activated only in a tick in which its condition evaluated true (without an
     error) or it had been forced ---------- *)
  Definition C (e : env) (m : nat) : bool := negb (memn m (e_cond_err e)) && memn m (e_cond_true e).
  Definition A4 (e : env) (m : nat) (x x' : ns) : Prop :=
    (forced x' = true -> forced x = true) /\
    (activated x' = true -> activated x = true \/ forced x = true \/ C e m = true).

  Theorem tick_activation e rounds fuel main s main' s' raised :
    tick p rounds fuel e main s = Some (main', s', raised) -> forall m, A4 e m (st s m) (st s' m).
  Proof.
    apply (tick_ok p e (A4 e) (fun _ => True)); unfold A4; [..|exact (fun _ => I)].
    - intros m x. split; auto.
    - intros m x y z [A B] [D E]. split; [auto|]. intros Az. destruct (E Az) as [Ay|[Fy|Cm]]; auto.
    - intros m x. split; auto.
    - intros m x. split; auto.
    - intros m x a b. split; auto.
    - intros m x. split; auto.
    - intros m x. split; auto.
    - intros m x _. split; auto.
    - intros m x w. split; auto.
    - intros m x i r. split; auto.
    - intros m x H _. split; [auto|]. intros _. destruct H as [H|[H1 H2]]; [auto|]. right. right. unfold C. now rewrite H1, H2.
    - intros m x _. split; auto.
    - intros m x _. split; auto.
    - intros m x _. split; auto.
    - intros a m x _ _. destruct (n_kind (nd p m)); cbn; split; auto; try discriminate.
  Qed.
End Who.
