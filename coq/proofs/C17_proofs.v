From Coq Require Import List Bool Arith Lia.
From OP Require Import lib.Obs model.C17.
Import ListNotations.

(* ---------- one node per line; parents are earlier openers ---------- *)
Lemma nest_from_length ls : forall s i, length (nest_from s i ls) = length ls.
Proof.
  induction ls as [|ln ls IH]; intros s i; cbn [nest_from]; [reflexivity|].
  destruct (step s i ln) as [s' r]. cbn. now rewrite IH.
Qed.

(* every entry of the parent chain is an earlier line that opens a body *)
Definition stack_ok (all : list line) (i : nat) (stk : list (nat * nat)) : Prop :=
  forall j c, In (j, c) stk -> j < i /\ exists ln, nth_error all j = Some ln /\ l_kind ln = O.

Lemma outdent_sub n : forall stk x, In x (fst (outdent n stk)) -> In x stk.
Proof.
  induction n as [|n IH]; intros stk x H; cbn in *; [exact H|].
  destruct stk as [|y stk]; [contradiction|]. right. now apply IH.
Qed.

Lemma step_parent all s i ln :
  nth_error all i = Some ln -> stack_ok all i (stack s) ->
  let '(s', (par, _)) := step s i ln in
  stack_ok all (S i) (stack s') /\
  match par with None => True | Some p => p < i /\ exists lp, nth_error all p = Some lp /\ l_kind lp = O end.
Proof.
  intros Hnth Hok.
  assert (Hpi : match parent_idx s with None => True
                | Some p => p < i /\ exists lp, nth_error all p = Some lp /\ l_kind lp = O end).
  { unfold parent_idx. destruct (stack s) as [|[j c] t] eqn:E; [exact I|]. apply (Hok j c). now left. }
  assert (Hweak : forall stk, (forall x, In x stk -> In x (stack s)) -> stack_ok all (S i) stk).
  { intros stk Hsub j c Hin. destruct (Hok j c (Hsub _ Hin)) as [H1 H2]. split; [lia|exact H2]. }
  assert (Hpush : l_kind ln = O -> forall stk, (forall x, In x stk -> In x (stack s)) ->
                  stack_ok all (S i) ((i, l_char ln) :: stk)).
  { intros Hk stk Hsub j c [E|Hin].
    - inversion E; subst. split; [lia|]. exists ln. auto.
    - destruct (Hok j c (Hsub _ Hin)) as [H1 H2]. split; [lia|exact H2]. }
  unfold step.
  destruct (l_err ln).
  { cbn [stack]. split; [|exact Hpi]. destruct (l_kind ln) eqn:Ek; cbn [is_opener]; auto. }
  destruct ((prev_indent s <? l_char ln) && negb (incr s)).
  { cbn [stack]. split; [|exact Hpi]. destruct (l_kind ln) eqn:Ek; cbn [is_opener]; auto. }
  destruct (l_char ln =? prev_indent s).
  { cbn [stack]. split; [|exact Hpi]. destruct (l_kind ln) eqn:Ek; cbn [is_opener]; auto. }
  destruct ((l_char ln =? parent_char s + 4) && negb match stack s with [] => true | _ => false end).
  { cbn [stack]. split; [|exact Hpi]. destruct (l_kind ln) eqn:Ek; cbn [is_opener]; auto. }
  destruct (prev_indent s + 4 <? l_char ln).
  { cbn [stack]. split; [|exact Hpi]. auto. }
  destruct (l_char ln <? prev_indent s).
  { destruct (is_ws (l_kind ln)) eqn:Ew.
    - cbn [stack]. split; [destruct (l_kind ln) eqn:Ek; cbn [is_opener]; auto|].
      unfold parent_idx in Hpi. destruct (stack s) as [|[j c] t]; exact Hpi.
    - destruct (outdent ((prev_indent s - l_char ln) / 4) (stack s)) as [stk1 bad] eqn:Eo.
      assert (Hsub : forall x, In x stk1 -> In x (stack s)).
      { intros x Hx. apply (outdent_sub ((prev_indent s - l_char ln) / 4)). now rewrite Eo. }
      cbn [stack]. split; [destruct (l_kind ln) eqn:Ek; cbn [is_opener]; auto|].
      destruct stk1 as [|[j c] t]; [exact I|]. apply (Hok j c). apply Hsub. now left. }
  cbn [stack]. split; [|exact Hpi]. auto.
Qed.

Lemma nest_from_parents all ls : forall s i,
  (forall k ln, nth_error ls k = Some ln -> nth_error all (i + k) = Some ln) ->
  stack_ok all i (stack s) ->
  forall k par flag, nth_error (nest_from s i ls) k = Some (par, flag) ->
  match par with None => True | Some p => p < i + k /\ exists lp, nth_error all p = Some lp /\ l_kind lp = O end.
Proof.
  induction ls as [|ln ls IH]; intros s i Hall Hok k par flag Hk; [destruct k; discriminate|].
  cbn [nest_from] in Hk. pose proof (step_parent all s i ln) as Hs.
  assert (Hn : nth_error all i = Some ln) by (rewrite <- (Nat.add_0_r i); apply Hall; reflexivity).
  specialize (Hs Hn Hok). destruct (step s i ln) as [s' [par0 flag0]]. destruct Hs as [Hok' Hp].
  destruct k as [|k]; cbn in Hk.
  - inversion Hk; subst. rewrite Nat.add_0_r. exact Hp.
  - specialize (IH s' (S i)). replace (i + S k) with (S i + k) by lia. eapply IH; [|exact Hok'|exact Hk].
    intros k' ln' Hk'. replace (S i + k') with (i + S k') by lia. apply Hall. exact Hk'.
Qed.

(* ---------- well-indented texts: the tree is the off-side rule's, nothing is flagged ---------- *)
(* B = body level of the innermost open body (4 * depth); inc = the last instruction line opened it *)
Fixpoint wi_from (B : nat) (inc : bool) (ls : list line) : bool :=
  match ls with
  | [] => true
  | ln :: ls' =>
      let c := l_char ln in
      negb (l_err ln) &&
      match l_kind ln with
      | W => (if inc then (B - 4 <? c) && (c <=? B) else c <=? B) && wi_from B inc ls'
      | O => (if inc then c =? B else (c <=? B) && (c mod 4 =? 0)) && wi_from (c + 4) true ls'
      | L => (if inc then c =? B else (c <=? B) && (c mod 4 =? 0)) && wi_from c false ls'
      end
  end.
Definition well_indented (ls : list line) : bool := wi_from 0 false ls.

Fixpoint chain (stk : list (nat * nat)) (B : nat) : Prop :=
  match stk with [] => B = 0 | (_, c) :: t => B = c + 4 /\ chain t c end.

Lemma chain_mod stk : forall B, chain stk B -> B mod 4 = 0.
Proof.
  induction stk as [|[j c] t IH]; intros B H; cbn in H; [subst; reflexivity|].
  destruct H as [-> H]. specialize (IH c H). rewrite Nat.add_mod by lia. rewrite IH. reflexivity.
Qed.

Lemma close_keep stk B c : chain stk B -> B <= c -> close c stk = stk.
Proof.
  destruct stk as [|[j cj] t]; intros H Hle; [reflexivity|]. cbn in *. destruct H as [-> _].
  destruct (c <=? cj) eqn:E; [apply Nat.leb_le in E; lia|reflexivity].
Qed.

Lemma outdent_close stk : forall B c m,
  chain stk B -> B = c + 4 * m -> outdent m stk = (close c stk, false) /\ chain (close c stk) c.
Proof.
  induction stk as [|[j cj] t IH]; intros B c m H E; cbn in H.
  - subst B. assert (m = 0) by lia. assert (c = 0) by lia. subst. cbn. auto.
  - destruct H as [HB Ht]. destruct m as [|m].
    + assert (c = B) by lia. subst c. cbn [outdent close]. destruct (B <=? cj) eqn:El; [apply Nat.leb_le in El; lia|].
      split; [reflexivity|]. cbn. auto.
    + cbn [outdent close]. destruct (c <=? cj) eqn:El; [|apply Nat.leb_gt in El; lia].
      apply (IH cj c m Ht). lia.
Qed.

Record Sim (s : st) (stk : list (nat * nat)) (B : nat) (inc : bool) : Prop := {
  sim_stack : stack s = stk;
  sim_chain : chain stk B;
  sim_incr : incr s = inc;
  sim_prev : prev_indent s = if inc then B - 4 else B;
  sim_inc_nonempty : inc = true -> stk <> []
}.

Lemma top_char stk B : chain stk B -> stk <> [] -> match stk with [] => 0 | (_, c) :: _ => c end = B - 4.
Proof. destruct stk as [|[j c] t]; [congruence|]. cbn. intros [-> _] _. lia. Qed.

Lemma nonempty_false {A} (l : list A) : l <> [] -> match l with [] => true | _ :: _ => false end = false.
Proof. destruct l; [congruence|reflexivity]. Qed.

Lemma step_wi s stk B inc i ln :
  Sim s stk B inc ->
  negb (l_err ln) = true ->
  let c := l_char ln in
  match l_kind ln with
  | W => (if inc then (B - 4 <? c) && (c <=? B) else c <=? B) = true ->
         snd (step s i ln) = (match stk with [] => None | (j, _) :: _ => Some j end, false)
         /\ Sim (fst (step s i ln)) stk B inc
  | k => (if inc then c =? B else (c <=? B) && (c mod 4 =? 0)) = true ->
         let stk1 := close c stk in
         snd (step s i ln) = (match stk1 with [] => None | (j, _) :: _ => Some j end, false)
         /\ Sim (fst (step s i ln)) (if is_opener k then (i, c) :: stk1 else stk1)
                (if is_opener k then c + 4 else c) (is_opener k)
  end.
Proof.
  intros [Hst Hch Hin Hpr Hne] Herr. apply negb_true_iff in Herr. cbn zeta.
  assert (HB4 := chain_mod stk B Hch).
  assert (Hpc : stk <> [] -> parent_char s = B - 4).
  { intros H. unfold parent_char. rewrite Hst. now apply top_char. }
  assert (Hpi : parent_idx s = match stk with [] => None | (j, _) :: _ => Some j end).
  { unfold parent_idx. now rewrite Hst. }
  assert (HBpos : stk <> [] -> 4 <= B) by (destruct stk as [|[j c0] t]; [congruence|cbn in Hch; lia]).
  assert (HB0 : stk = [] -> B = 0) by (intros ->; exact Hch).
  destruct (l_kind ln) eqn:Ek.
  - (* whitespace *)
    intros Hc. unfold step. rewrite Herr, Ek, Hin, Hpr. cbn [is_opener is_ws].
    destruct inc.
    + apply andb_true_iff in Hc as [H1 H2]. apply Nat.ltb_lt in H1. apply Nat.leb_le in H2.
      specialize (Hne eq_refl). specialize (HBpos Hne). rewrite (Hpc Hne).
      replace (B - 4 <? l_char ln) with true by (symmetry; apply Nat.ltb_lt; lia). cbn [negb andb].
      replace (l_char ln =? B - 4) with false by (symmetry; apply Nat.eqb_neq; lia).
      rewrite Hst, (nonempty_false stk Hne). cbn [negb andb].
      replace (B - 4 + 4) with B by lia.
      destruct (l_char ln =? B) eqn:E4; cbn [andb].
      * cbn [fst snd]. split; [now rewrite Hpi|].
        constructor; cbn; rewrite ?Hst; try reflexivity; try (intros; discriminate); try assumption; try (split; [reflexivity|assumption]); try lia; try (intros _; exact Hne).
      * apply Nat.eqb_neq in E4.
        replace (B <? l_char ln) with false by (symmetry; apply Nat.ltb_ge; lia).
        replace (l_char ln <? B - 4) with false by (symmetry; apply Nat.ltb_ge; lia).
        cbn [fst snd]. split; [now rewrite Hpi|].
        constructor; cbn; rewrite ?Hst; try reflexivity; try (intros; discriminate); try assumption; try (split; [reflexivity|assumption]); try lia; try (intros _; exact Hne).
    + apply Nat.leb_le in Hc. cbn [negb].
      replace (B <? l_char ln) with false by (symmetry; apply Nat.ltb_ge; lia). cbn [andb].
      destruct (l_char ln =? B) eqn:E3.
      * cbn [fst snd]. split; [now rewrite Hpi|]. constructor; cbn; try assumption; try reflexivity.
      * apply Nat.eqb_neq in E3.
        assert (E4 : (l_char ln =? parent_char s + 4) && negb match stack s with [] => true | _ => false end = false).
        { rewrite Hst. destruct stk as [|[j c0] t]; [now rewrite andb_false_r|].
          rewrite Hpc by discriminate. assert (4 <= B) by (apply HBpos; discriminate).
          replace (l_char ln =? B - 4 + 4) with false by (symmetry; apply Nat.eqb_neq; lia). reflexivity. }
        rewrite E4.
        replace (B + 4 <? l_char ln) with false by (symmetry; apply Nat.ltb_ge; lia).
        replace (l_char ln <? B) with true by (symmetry; apply Nat.ltb_lt; lia).
        cbn [fst snd]. rewrite Hst. split; [reflexivity|].
        constructor; cbn; rewrite ?Hst; try reflexivity; try (intros; discriminate); try assumption; try (split; [reflexivity|assumption]); try lia; try (intros _; exact Hne).
  - (* opener *)
    intros Hc. unfold step. rewrite Herr, Ek, Hin, Hpr. cbn [is_opener is_ws].
    destruct inc.
    + apply Nat.eqb_eq in Hc. specialize (Hne eq_refl). specialize (HBpos Hne). rewrite (Hpc Hne).
      rewrite Hc. replace (B - 4 <? B) with true by (symmetry; apply Nat.ltb_lt; lia). cbn [negb andb].
      replace (B =? B - 4) with false by (symmetry; apply Nat.eqb_neq; lia).
      replace (B - 4 + 4) with B by lia. rewrite Nat.eqb_refl. rewrite Hst, (nonempty_false stk Hne).
      cbn [negb andb fst snd].
      rewrite (close_keep stk B B Hch (le_n _)). split; [now rewrite Hpi|].
      constructor; cbn; rewrite ?Hst; try reflexivity; try (intros; discriminate); try assumption; try (split; [reflexivity|assumption]); try lia; try (intros _; exact Hne).
    + apply andb_true_iff in Hc as [H1 H2]. apply Nat.leb_le in H1. apply Nat.eqb_eq in H2. cbn [negb].
      replace (B <? l_char ln) with false by (symmetry; apply Nat.ltb_ge; lia). cbn [andb].
      destruct (l_char ln =? B) eqn:E3.
      * apply Nat.eqb_eq in E3. cbn [fst snd]. rewrite E3. rewrite (close_keep stk B B Hch (le_n _)).
        split; [now rewrite Hpi|]. constructor; cbn; try reflexivity; try (intros _; discriminate).
        -- now rewrite Hst.
        -- split; [reflexivity|exact Hch].
        -- lia.
      * apply Nat.eqb_neq in E3.
        assert (E4 : (l_char ln =? parent_char s + 4) && negb match stack s with [] => true | _ => false end = false).
        { rewrite Hst. destruct stk as [|[j c0] t]; [now rewrite andb_false_r|].
          rewrite Hpc by discriminate. assert (4 <= B) by (apply HBpos; discriminate).
          replace (l_char ln =? B - 4 + 4) with false by (symmetry; apply Nat.eqb_neq; lia). reflexivity. }
        rewrite E4.
        replace (B + 4 <? l_char ln) with false by (symmetry; apply Nat.ltb_ge; lia).
        replace (l_char ln <? B) with true by (symmetry; apply Nat.ltb_lt; lia).
        (* outdent by (B - c)/4 levels = closing every body at character >= c *)
        assert (Hm : exists m, B = l_char ln + 4 * m /\ (B - l_char ln) / 4 = m).
        { exists ((B - l_char ln) / 4). split; [|reflexivity].
          assert (Hd : (B - l_char ln) mod 4 = 0).
          { apply Nat.mod_divide; [lia|]. apply Nat.divide_sub_r; apply Nat.mod_divide; try lia; assumption. }
          pose proof (Nat.div_mod (B - l_char ln) 4 ltac:(lia)) as Hdm. rewrite Hd in Hdm. lia. }
        destruct Hm as [m [HBm Hdiv]]. rewrite Hdiv, Hst.
        destruct (outdent_close stk B (l_char ln) m Hch HBm) as [Ho Hc2]. rewrite Ho.
        cbn [fst snd]. split; [reflexivity|].
        constructor; cbn; rewrite ?Hst; try reflexivity; try (intros; discriminate); try assumption; try (split; [reflexivity|assumption]); try lia; try (intros _; exact Hne).
  - (* leaf *)
    intros Hc. unfold step. rewrite Herr, Ek, Hin, Hpr. cbn [is_opener is_ws].
    destruct inc.
    + apply Nat.eqb_eq in Hc. specialize (Hne eq_refl). specialize (HBpos Hne). rewrite (Hpc Hne).
      rewrite Hc. replace (B - 4 <? B) with true by (symmetry; apply Nat.ltb_lt; lia). cbn [negb andb].
      replace (B =? B - 4) with false by (symmetry; apply Nat.eqb_neq; lia).
      replace (B - 4 + 4) with B by lia. rewrite Nat.eqb_refl. rewrite Hst, (nonempty_false stk Hne).
      cbn [negb andb fst snd].
      rewrite (close_keep stk B B Hch (le_n _)). split; [now rewrite Hpi|].
      constructor; cbn; rewrite ?Hst; try reflexivity; try (intros; discriminate); try assumption; try (split; [reflexivity|assumption]); try lia; try (intros _; exact Hne).
    + apply andb_true_iff in Hc as [H1 H2]. apply Nat.leb_le in H1. apply Nat.eqb_eq in H2. cbn [negb].
      replace (B <? l_char ln) with false by (symmetry; apply Nat.ltb_ge; lia). cbn [andb].
      destruct (l_char ln =? B) eqn:E3.
      * apply Nat.eqb_eq in E3. cbn [fst snd]. rewrite E3. rewrite (close_keep stk B B Hch (le_n _)).
        split; [now rewrite Hpi|]. constructor; cbn; try reflexivity; try (intros H; discriminate); try assumption.
      * apply Nat.eqb_neq in E3.
        assert (E4 : (l_char ln =? parent_char s + 4) && negb match stack s with [] => true | _ => false end = false).
        { rewrite Hst. destruct stk as [|[j c0] t]; [now rewrite andb_false_r|].
          rewrite Hpc by discriminate. assert (4 <= B) by (apply HBpos; discriminate).
          replace (l_char ln =? B - 4 + 4) with false by (symmetry; apply Nat.eqb_neq; lia). reflexivity. }
        rewrite E4.
        replace (B + 4 <? l_char ln) with false by (symmetry; apply Nat.ltb_ge; lia).
        replace (l_char ln <? B) with true by (symmetry; apply Nat.ltb_lt; lia).
        assert (Hm : exists m, B = l_char ln + 4 * m /\ (B - l_char ln) / 4 = m).
        { exists ((B - l_char ln) / 4). split; [|reflexivity].
          assert (Hd : (B - l_char ln) mod 4 = 0).
          { apply Nat.mod_divide; [lia|]. apply Nat.divide_sub_r; apply Nat.mod_divide; try lia; assumption. }
          pose proof (Nat.div_mod (B - l_char ln) 4 ltac:(lia)) as Hdm. rewrite Hd in Hdm. lia. }
        destruct Hm as [m [HBm Hdiv]]. rewrite Hdiv, Hst.
        destruct (outdent_close stk B (l_char ln) m Hch HBm) as [Ho Hc2]. rewrite Ho.
        cbn [fst snd]. split; [reflexivity|].
        constructor; cbn; rewrite ?Hst; try reflexivity; try (intros; discriminate); try assumption; try (split; [reflexivity|assumption]); try lia; try (intros _; exact Hne).
Qed.

Lemma nest_wi ls : forall s stk B inc i,
  Sim s stk B inc -> wi_from B inc ls = true ->
  nest_from s i ls = map (fun p => (p, false)) (spec_from stk i ls).
Proof.
  induction ls as [|ln ls IH]; intros s stk B inc i Hsim Hwi; [reflexivity|].
  cbn [wi_from] in Hwi. apply andb_true_iff in Hwi as [Herr Hwi].
  pose proof (step_wi s stk B inc i ln Hsim Herr) as Hs. cbn zeta in Hs.
  cbn [nest_from spec_from]. destruct (step s i ln) as [s' r] eqn:Est. cbn [fst snd] in Hs.
  destruct (l_kind ln) eqn:Ek; apply andb_true_iff in Hwi as [Hc Hrest]; destruct (Hs Hc) as [Hr Hsim'].
  - rewrite Hr. cbn [map]. f_equal. eapply IH; eassumption.
  - rewrite Hr. cbn [map is_opener] in *. f_equal. eapply IH; eassumption.
  - rewrite Hr. cbn [map is_opener] in *. f_equal. eapply IH; eassumption.
Qed.

Lemma init_sim : Sim init [] 0 false.
Proof. constructor; cbn; auto. discriminate. Qed.

Lemma well_indented_spec ls :
  well_indented ls = true -> nest ls = map (fun p => (p, false)) (nest_spec ls).
Proof. intros H. unfold nest, nest_spec. eapply nest_wi; [apply init_sim|exact H]. Qed.
