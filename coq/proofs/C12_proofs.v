(* C12 (node level): requests and their effects in the interpreter model. *)
From Coq Require Import ZArith List Bool Arith Lia.
From OP Require Import lib.Obs model.Interp model.InterpRun model.C12 proofs.Interp_inv proofs.C05_proofs proofs.Interp_fields proofs.C02_proofs.
Import ListNotations.
Open Scope Z_scope.

Section Requests.
  Variable p : program.
  Variable fl : flags.

  (* a refused request changes nothing *)
  Lemma refused_unchanged s r s' : request p fl s r = (s', false) -> s' = s.
  Proof.
    unfold request. destruct (negb (r_offered r)); [intros H; now inversion H|].
    destruct (r_cancel r); [destruct (cancellable p fl s (r_node r))|destruct (forcible p fl s (r_node r))]; intros H; inversion H; reflexivity.
  Qed.
  (* what the run log does not offer is refused *)
  Lemma not_offered_refused s r : r_offered r = false -> request p fl s r = (s, false).
  Proof. intros H. unfold request. now rewrite H. Qed.
  (* what is carried out was offered and allowed by the node, and sets the flag *)
  Lemma accepted_spec s r s' : request p fl s r = (s', true) -> (r_node r < length (nodes s))%nat ->
    r_offered r = true /\
    (if r_cancel r then cancellable p fl s (r_node r) = true /\ cancelled (st s' (r_node r)) = true
     else forcible p fl s (r_node r) = true /\ forced (st s' (r_node r)) = true).
  Proof.
    unfold request. intros H L. destruct (r_offered r); cbn [negb] in H; [|inversion H]. split; [reflexivity|].
    assert (E : Nat.eqb (r_node r) (r_node r) && Nat.ltb (r_node r) (length (nodes s)) = true).
    { rewrite Nat.eqb_refl. cbn. now apply Nat.ltb_lt. }
    destruct (r_cancel r).
    - destruct (cancellable p fl s (r_node r)); inversion H; subst. split; [reflexivity|]. rewrite st_set_ns, E. reflexivity.
    - destruct (forcible p fl s (r_node r)); inversion H; subst. split; [reflexivity|]. rewrite st_set_ns, E. reflexivity.
  Qed.
  (* a request touches only the cancelled / forced flags of its node *)
  Lemma request_other s r s' a m : request p fl s r = (s', a) -> m <> r_node r -> st s' m = st s m.
  Proof.
    unfold request. intros H N. destruct (negb (r_offered r)); [now inversion H|].
    destruct (r_cancel r); [destruct (cancellable p fl s (r_node r))|destruct (forcible p fl s (r_node r))]; inversion H; subst; try reflexivity.
    all: rewrite st_set_ns; destruct (Nat.eqb m (r_node r)) eqn:E; [apply Nat.eqb_eq in E; contradiction|reflexivity].
  Qed.
End Requests.

Section Effects.
  Variable p : program.

  (* ---------- a cancelled Watch (or any cancelled node outside alarms) is never activated by a tick ---------- *)
  Definition A12 (m : nat) (x x' : ns) : Prop :=
    under_alarm p m = false ->
    (cancelled x = true -> cancelled x' = true) /\ (cancelled x = true -> activated x = false -> activated x' = false).

  Theorem tick_cancelled e rounds fuel main s main' s' raised :
    tick p rounds fuel e main s = Some (main', s', raised) -> forall m, A12 m (st s m) (st s' m).
  Proof.
    apply (tick_ok p e A12 (fun _ => True)); unfold A12; [..|exact (fun _ => I)].
    - intros m x _. split; auto.
    - intros m x y z H1 H2 U. destruct (H1 U) as [A B], (H2 U) as [C D]. split; [auto|]. intros Cx Ax. apply D; auto.
    - intros m x _. split; auto.
    - intros m x _. split; auto.
    - intros m x a b _. split; auto.
    - intros m x _. split; auto.
    - intros m x _. split; auto.
    - intros m x _ _. split; auto.
    - intros m x w _. split; auto.
    - intros m x i r _. split; auto.
    - intros m x _ NC _. split; [auto|]. intros Cx. congruence.
    - intros m x _ _. split; auto.
    - intros m x _ _. split; auto.
    - intros m x _ _. split; auto.
    - intros a m x K H U. rewrite (under_alarm_of p a m K H) in U. discriminate.
  Qed.

  (* ---------- forced instructions proceed ---------- *)
  (* a forced Wait completes as soon as its generator runs, whatever the time *)
  Lemma forced_wait_completes e b n stop k s : forced (st s n) = true ->
    step p e b (FWait n stop) k s = Yield REnd (FRet :: k) (mark_completed (complete s n) n).
  Proof. intros F. cbn [step]. rewrite F. cbn [negb]. rewrite andb_false_r. reflexivity. Qed.
  (* a forced instruction is never held back by its threshold *)
  Lemma forced_not_awaiting e s n : forced (st s n) = true -> awaiting p e s n = false.
  Proof. intros F. unfold awaiting. rewrite F. cbn [negb]. now rewrite andb_false_r, andb_false_l. Qed.
  Lemma forced_enters e n k s : forced (st s n) = true -> thr_loop p e n k s = enter n k s.
  Proof. intros F. unfold thr_loop. now rewrite (forced_not_awaiting e s n F). Qed.
  (* a forced Watch / Alarm that is not cancelled is activated the next time its condition would be evaluated *)
  Lemma forced_activates e s n : forced (st s n) = true -> cancelled (st s n) = false -> (n < length (nodes s))%nat ->
    exists s', try_activate e s n = Some s' /\ activated (st s' n) = true.
  Proof.
    intros F C L. unfold try_activate. rewrite C, F. eexists. split; [reflexivity|].
    rewrite st_set_ns, Nat.eqb_refl. cbn [andb]. replace (Nat.ltb n (length (nodes s))) with true by (symmetry; now apply Nat.ltb_lt).
    reflexivity.
  Qed.
  (* a cancelled Watch / Alarm is not activated even when its condition holds or it is forced *)
  Lemma cancelled_not_activated e s n : cancelled (st s n) = true -> try_activate e s n = Some s.
  Proof. intros C. unfold try_activate. now rewrite C. Qed.
End Effects.
